/-
Model driver: reads one JSON request per line (the same requests the Rust hook server gets),
runs the corresponding *model* function, prints one JSON line.
-/
import Lean.Data.Json
import Vicut.Model.Format
import Vicut.Model.Args
import Vicut.Model.Linewise
import Vicut.Model.Reader
import Vicut.Model.Files
import Vicut.Model.Text
import Vicut.Model.Field
import Vicut.Model.Undo
import Vicut.Model.Search
import Vicut.Model.ExRef
import Vicut.Model.Verbs
import Vicut.Model.Pos
import Vicut.Model.Repeat
import Vicut.Model.Vic
import Vicut.Model.VimSpec
import Vicut.Model.Motions
import Vicut.Model.Words
import Vicut.Model.Delims
import Vicut.Model.Block

open Lean Vicut

def jstr (j : Json) (k : String) : String := (j.getObjValAs? String k).toOption.getD ""
def jbool (j : Json) (k : String) : Bool := (j.getObjValAs? Bool k).toOption.getD false
def jnat (j : Json) (k : String) : Nat := (j.getObjValAs? Nat k).toOption.getD 0
def jarr (j : Json) (k : String) : Array Json :=
  match j.getObjVal? k with
  | .ok (.arr a) => a
  | _ => #[]

def S (s : Str) : String := String.ofList s
def J (s : Str) : Json := Json.str (String.ofList s)

def recordsOf (j : Json) : Records :=
  match j with
  | .arr recs => recs.toList.map fun r =>
    match r with
    | .arr fs => fs.toList.map fun f =>
      match f with
      | .arr #[.str k, .str v] => (k.toList, v.toList)
      | _ => ([], [])
    | _ => []
  | _ => []

def recordsJson (r : Records) : Json :=
  Json.arr (r.map (fun rec => Json.arr (rec.map (fun f => Json.arr #[J f.1, J f.2])).toArray)).toArray

def opFormat (req : Json) : Json :=
  let recs0 := recordsOf ((req.getObjVal? "records").toOption.getD (Json.arr #[]))
  let recs := if jbool req "trim" then trimFields recs0 else recs0
  match jstr req "mode" with
  | "json" => Json.mkObj [("out", J (fmtJson recs))]
  | "template" =>
    match fmtTemplate (jstr req "template").toList recs with
    | .ok s => Json.mkObj [("out", J s)]
    | .error e => Json.mkObj [("err", J e)]
  | "trim" => Json.mkObj [("records", recordsJson recs)]
  | _ =>
    let d := match req.getObjValAs? String "delim" with | .ok d => d | _ => " "
    Json.mkObj [("out", J (fmtStandard d.toList recs))]

def opLines (req : Json) : Json :=
  Json.mkObj [("lines", Json.arr ((getLines (jstr req "text").toList).map J).toArray)]

partial def cmdJson : Cmd → Json
  | .next => Json.mkObj [("t", "next")]
  | .move k => Json.mkObj [("t", "move"), ("arg", Json.mkObj [("lit", J k)])]
  | .cut none k => Json.mkObj [("t", "cut"), ("arg", Json.mkObj [("lit", J k)])]
  | .cut (some n) k => Json.mkObj [("t", "cut"), ("name", J n), ("arg", Json.mkObj [("lit", J k)])]
  | .rep body n => Json.mkObj [("t", "repeat"), ("count", Json.mkObj [("count", n)]), ("body", Json.arr (body.map cmdJson).toArray)]
  | .glob p pol thn he els => Json.mkObj [("t", "global"), ("pattern", Json.mkObj [("lit", J p)]), ("polarity", pol),
      ("then", Json.arr (thn.map cmdJson).toArray), ("else", if he then Json.arr (els.map cmdJson).toArray else Json.null)]

def optJ (o : Option Str) : Json := match o with | some s => J s | none => Json.null

def optsJson (o : POpts) : Json :=
  Json.mkObj [("delimiter", optJ o.delimiter), ("template", optJ o.template), ("edit_inplace", o.inplace),
    ("json", o.json), ("trace", o.trace), ("linewise", o.linewise), ("trim_fields", o.trimFields),
    ("keep_mode", o.keepMode), ("backup_files", o.backup), ("single_thread", o.serial),
    ("global_uses_line_numbers", o.globalLineNumbers), ("silent", o.silent),
    ("cmds", Json.arr (o.cmds.map cmdJson).toArray), ("files", Json.arr (o.files.map J).toArray)]

/-- `{"op":"parse_argv","argv":[...],"existing":[...]}`: the model of `Opts::parse`. -/
def opParseArgv (req : Json) : Json :=
  let argv := (jarr req "argv").toList.map (fun j => (j.getStr?.toOption.getD "").toList)
  let existing := (jarr req "existing").toList.map (fun j => (j.getStr?.toOption.getD "").toList)
  match parseOpts (fun p => existing.contains p) argv with
  | .ok o => Json.mkObj [("opts", optsJson o)]
  | .error _ => Json.mkObj [("exit", 1)]

def keyJson (k : KeyEvent) : Json :=
  let (code, payload) : String × String := match k.code with
    | .char c => ("Char", String.singleton c)
    | .f n => ("F", toString n)
    | .backspace => ("Backspace", "") | .backTab => ("BackTab", "") | .delete => ("Delete", "")
    | .down => ("Down", "") | .end_ => ("End", "") | .enter => ("Enter", "") | .esc => ("Esc", "")
    | .home => ("Home", "") | .insert => ("Insert", "") | .left => ("Left", "") | .null => ("Null", "")
    | .pageDown => ("PageDown", "") | .pageUp => ("PageUp", "") | .right => ("Right", "")
    | .tab => ("Tab", "") | .up => ("Up", "")
  Json.arr #[code, payload, k.mods]

/-- `{"op":"keys","bytes":[...],"escaped":false}`: the model of `RawReader::read_key` until `None`. -/
def opKeys (req : Json) : Json :=
  let bytes : Bytes := (jarr req "bytes").toList.map (fun j => UInt8.ofNat ((j.getNat?).toOption.getD 0))
  let (keys, r) := readAll bytes (jbool req "escaped")
  Json.mkObj [("keys", Json.arr (keys.map keyJson).toArray),
              ("left", Json.arr (r.bytes.map (fun b => (b.toNat : Json))).toArray),
              ("escaped", r.escaped)]

/-- `{"op":"inplace","fs":[[path,content]..],"files":[..],"outputs":[[path, out|null]..],"backup":ext|null}`:
the model's write-back plan. -/
def opInplace (req : Json) : Json :=
  let pairs (k : String) : List (Str × Option Str) := (jarr req k).toList.map fun e =>
    match e with
    | .arr #[.str p, .str c] => (p.toList, some c.toList)
    | .arr #[.str p, _] => (p.toList, none)
    | _ => ([], none)
  let fs : FS := (pairs "fs").filterMap (fun e => e.2.map (fun c => (e.1, c)))
  let outs := pairs "outputs"
  let files := (jarr req "files").toList.map (fun j => (j.getStr?.toOption.getD "").toList)
  let backup : Option Str := (req.getObjValAs? String "backup").toOption.map String.toList
  let proc : Process := fun p _ => ((outs.find? (fun e => e.1 == p)).map (·.2)).getD none
  let r := runInplace proc backup files fs
  Json.mkObj [("exit", r.exit), ("fs", Json.arr (r.fs.map (fun e => Json.arr #[J e.1, J e.2])).toArray)]

def gsOf (req : Json) : List Gr := (jarr req "gs").toList.map (fun j => (j.getStr?.toOption.getD "").toList)

/-- `{"op":"geometry","gs":[graphemes]}`: total_lines and line_bounds(n) for n in 0..=total+1. -/
def opGeometry (req : Json) : Json :=
  let gs := gsOf req
  let total := totalLines gs
  let bounds := (List.range (total + 2)).map fun n =>
    match lineBounds gs n with
    | some (s, e) => Json.arr #[(s : Json), (e : Json)]
    | none => Json.null
  Json.mkObj [("total_lines", total), ("bounds", Json.arr bounds.toArray), ("max", gs.length)]

/-- `{"op":"global","gs":[..],"polarity":b,"matches":[[text,bool]..]}`: the lines `-g`/`-v` visit.
`matches` is the regex engine's verdict on every candidate haystack (from the hook's `regex` op). -/
def opGlobal (req : Json) : Json :=
  let gs := gsOf req
  let table : List (Str × Bool) := (jarr req "matches").toList.map fun e =>
    match e with
    | .arr #[.str t, .bool b] => (t.toList, b)
    | _ => ([], false)
  let isMatch : Str → Bool := fun t => ((table.find? (fun e => e.1 == t)).map (·.2)).getD false
  Json.mkObj [("lines", Json.arr ((globalLines isMatch (jbool req "polarity") gs).map (fun (n : Nat) => (Json.num n : Json))).toArray)]

def anchorOf (s : String) : SelAnchor := if s == "Start" then .start else .end_

/-- `sel_mode`: ["char",anchor] | ["line",anchor] | ["block",anchor,pos] | null;
`sel_range`: ["one",s,e] | ["two",[[s,e],..]] | null -/
def selModeOf (j : Json) : Option SelMode :=
  match j with
  | .arr #[.str "char", .str a] => some (.char (anchorOf a))
  | .arr #[.str "line", .str a] => some (.line (anchorOf a))
  | .arr #[.str "block", .str a, p] => some (.block (anchorOf a) (p.getNat?.toOption.getD 0))
  | _ => none

def selRangeOf (j : Json) : Option SelRange :=
  match j with
  | .arr #[.str "one", s, e] => some (.oneDim (s.getNat?.toOption.getD 0) (e.getNat?.toOption.getD 0))
  | .arr #[.str "two", .arr ws] => some (.twoDim (ws.toList.map fun w =>
      match w with
      | .arr #[a, b] => (a.getNat?.toOption.getD 0, b.getNat?.toOption.getD 0)
      | _ => (0, 0)))
  | _ => none

/-- `{"op":"field","gs":[..],"c0":n,"c1":n,"sel_mode":..,"sel_range":..}`: the tail of read_field. -/
def opField (req : Json) : Json :=
  let gs := gsOf req
  let m := selModeOf ((req.getObjVal? "sel_mode").toOption.getD Json.null)
  let r := selRangeOf ((req.getObjVal? "sel_range").toOption.getD Json.null)
  match fieldOf gs (jnat req "c0") (jnat req "c1") m r with
  | .ok s => Json.mkObj [("ok", J s)]
  | .error .panic => Json.mkObj [("panic", true)]
  | .error .sliceFailed => Json.mkObj [("err", "Failed to slice buffer")]

def ueditJson (e : UEdit) : Json := Json.arr #[J e.old, J e.new, e.merging]

def ustateJson (s : UState) : Json :=
  -- stacks are printed bottom first, like the Rust `Vec`s
  Json.mkObj [("text", J s.text), ("undo", Json.arr (s.undo.reverse.map ueditJson).toArray),
              ("redo", Json.arr (s.redo.reverse.map ueditJson).toArray)]

/-- `{"op":"undo_machine","text":t,"ops":[["cmd",charInsert,after]|["undo"]|["redo"],..]}`: the state
after every operation. -/
def opUndoMachine (req : Json) : Json :=
  let ops : List UOp := (jarr req "ops").toList.filterMap fun o =>
    match o with
    | .arr #[.str "cmd", .bool ci, .str after] => some (.cmd ci after.toList)
    | .arr #[.str "undo"] => some .undo
    | .arr #[.str "redo"] => some .redo
    | _ => none
  let s0 : UState := { text := (jstr req "text").toList }
  let (_, states) := ops.foldl (fun (acc : UState × List Json) op =>
    let s' := ustep acc.1 op
    (s', acc.2 ++ [ustateJson s'])) (s0, [])
  Json.mkObj [("states", Json.arr states.toArray)]

/-- `{"op":"search","gs":[..],"starts":[byte offsets],"cursor":n,"cmds":[["search",fwd,count]|["next",c]|["prev",c]]}`:
the cursor (grapheme index) after every command of the chain. -/
def opSearch (req : Json) : Json :=
  let gs := gsOf req
  let natList (j : Json) : List Nat := match j with
    | .arr a => a.toList.map (fun x => x.getNat?.toOption.getD 0)
    | _ => []
  -- a search command may carry the match starts of *its* pattern (which n/N then keep using)
  let cmds : List (SearchCmd × Option (List Nat)) := (jarr req "cmds").toList.filterMap fun c =>
    match c with
    | .arr #[.str "search", .bool f, n] => some (.search f (n.getNat?.toOption.getD 1), none)
    | .arr #[.str "search", .bool f, n, st] => some (.search f (n.getNat?.toOption.getD 1), some (natList st))
    | .arr #[.str "next", n] => some (.next (n.getNat?.toOption.getD 1), none)
    | .arr #[.str "prev", n] => some (.prev (n.getNat?.toOption.getD 1), none)
    | _ => none
  let starts0 := natList ((req.getObjVal? "starts").toOption.getD (Json.arr #[]))
  let (_, _, _, out) := cmds.foldl (fun (acc : Nat × SearchState × List Nat × List Json) c =>
    let (cur, st, starts, out) := acc
    let starts' := c.2.getD starts
    let (cur', st') := searchStep gs starts' cur st c.1
    (cur', st', starts', out ++ [Json.num cur'])) (jnat req "cursor", {}, starts0, [])
  Json.mkObj [("cursors", Json.arr out.toArray)]

def addrOf (j : Json) : Option Addr :=
  match j with
  | .arr #[.str "num", n] => some (.num (n.getNat?.toOption.getD 0))
  | .arr #[.str "cur"] => some .cur
  | .arr #[.str "last"] => some .last
  | .arr #[.str "off", k] => some (.off (k.getInt?.toOption.getD 0))
  | _ => none

/-- `{"op":"exref","pieces":[[text,nl]..],"cur":line,"cmd":{"t":"s"|"d"|"gd"|"gs","a":addr,"b":addr,"rep":..,"g":..,"pol":..},
"matches":[[text,[[s,e]..]]..],"ismatch":[[text,bool]..]}`: the reference result of one ex command. -/
def opExRef (req : Json) : Json :=
  let ps : List Piece := (jarr req "pieces").toList.map fun p =>
    match p with
    | .arr #[.str t, .bool nl] => ⟨t.toList, nl⟩
    | _ => ⟨[], false⟩
  let cmd := (req.getObjVal? "cmd").toOption.getD Json.null
  let mtab : List (Str × List (Nat × Nat)) := (jarr req "matches").toList.map fun e =>
    match e with
    | .arr #[.str t, .arr ms] => (t.toList, ms.toList.map fun m =>
        match m with
        | .arr #[a, b] => (a.getNat?.toOption.getD 0, b.getNat?.toOption.getD 0)
        | _ => (0, 0))
    | _ => ([], [])
  let itab : List (Str × Bool) := (jarr req "ismatch").toList.map fun e =>
    match e with
    | .arr #[.str t, .bool b] => (t.toList, b)
    | _ => ([], false)
  let matchesOf : Str → List (Nat × Nat) := fun t => ((mtab.find? (fun e => e.1 == t)).map (·.2)).getD []
  let isMatch : Str → Bool := fun t => ((itab.find? (fun e => e.1 == t)).map (·.2)).getD false
  let n := ps.length
  let cur := jnat req "cur"
  let a := addrOf ((cmd.getObjVal? "a").toOption.getD Json.null)
  let b := addrOf ((cmd.getObjVal? "b").toOption.getD Json.null)
  let t := jstr cmd "t"
  let isGlobal := t == "gd" || t == "gs"
  -- default range: current line for s/d/y, whole buffer for g
  let range : Option (Nat × Nat) :=
    match a, b with
    | some a, some b => resolveRange n cur a b
    | some a, none => (resolveLine n cur a).map (fun i => (i, i))
    | _, _ => if isGlobal then (if n = 0 then none else some (0, n - 1)) else (resolveLine n cur .cur).map (fun i => (i, i))
  let out : List Piece :=
    match range with
    | none => ps
    | some (s, e) =>
      match t with
      | "s" => refSubst matchesOf (jstr cmd "rep").toList (jbool cmd "g") s e ps
      | "d" => refDelete s e ps
      | "gd" => refGlobalDelete isMatch (jbool cmd "pol") s e ps
      | "gs" => refGlobalSubst isMatch (jbool cmd "pol") matchesOf (jstr cmd "rep").toList (jbool cmd "g") s e ps
      | _ => ps
  Json.mkObj [("text", J (renderPieces out))]

def natsOf (j : Json) : List Nat :=
  match j with
  | .arr a => a.toList.map (fun x => x.getNat?.toOption.getD 0)
  | _ => []

def mkOf (j : Json) : MK :=
  match j with
  | .arr a =>
    let n (i : Nat) : Nat := (a[i]?.bind (fun x => x.getNat?.toOption)).getD 0
    match (a[0]?.bind (fun x => x.getStr?.toOption)).getD "" with
    | "To" => .to (n 1)
    | "On" => .on (n 1)
    | "Onto" => .onto (n 1)
    | "Inclusive" => .inclusive (n 1) (n 2)
    | "Exclusive" => .exclusive (n 1) (n 2)
    | "Line" => .line (n 1)
    | "LineRange" => .lineRange (n 1) (n 2)
    | "LineOffset" => .lineOffset ((a[1]?.bind (fun x => x.getInt?.toOption)).getD 0)
    | "InclusiveWithTargetCol" => .inclTarget (n 1) (n 2) (n 3)
    | "ExclusiveWithTargetCol" => .exclTarget (n 1) (n 2) (n 3)
    | "BlockRange" =>
      match a[1]?.getD Json.null with
      | .arr ws => .blockRange (ws.toList.map (fun w => match natsOf w with | [x, y] => (x, y) | _ => (0, 0)))
      | _ => .blockRange []
    | "Lines" => .lines (natsOf (a[1]?.getD Json.null))
    | _ => .null
  | _ => .null

def regContentOf (kind : String) (v : Json) : RegContent :=
  match kind with
  | "span" => .span (v.getStr?.toOption.getD "").toList
  | "line" => .line (v.getStr?.toOption.getD "").toList
  | "block" => match v with
    | .arr a => .block (a.toList.map (fun x => (x.getStr?.toOption.getD "").toList))
    | _ => .block []
  | _ => .empty

def regContentJson : RegContent → Json
  | .span s => Json.arr #["span", J s]
  | .line s => Json.arr #["line", J s]
  | .block ls => Json.arr #["block", Json.arr (ls.map J).toArray]
  | .empty => Json.arr #["empty", Json.null]

def regsOf (j : Json) : Regs :=
  match j with
  | .arr a => a.toList.filterMap fun e =>
    match e with
    | .arr #[.str name, .str kind, v] => some (name.toList.head?, regContentOf kind v)
    | _ => none
  | _ => []

def charOf (j : Option Json) : Char := ((j.bind (fun x => x.getStr?.toOption)).getD "?").toList.headD '?'

/-- `{"op":"verb","gs":[..],"cur":n,"excl":b,"regs":[[name,kind,content]..],"verb":[..],"mk":[..],"reg":[name|null,append]}` -/
def opVerb (req : Json) : Json :=
  let lb : LB := ⟨gsOf req, jnat req "cur", jbool req "excl"⟩
  let regs := regsOf ((req.getObjVal? "regs").toOption.getD Json.null)
  let mk := mkOf ((req.getObjVal? "mk").toOption.getD Json.null)
  let va := jarr req "verb"
  let ra := jarr req "reg"
  let reg : RegName := ⟨(ra[0]?.bind (fun x => x.getStr?.toOption)).bind (fun s => s.toList.head?),
                        (ra[1]?.bind (fun x => x.getBool?.toOption)).getD false⟩
  let n (i : Nat) : Nat := (va[i]?.bind (fun x => x.getNat?.toOption)).getD 0
  let v? : Option VerbK :=
    match (va[0]?.bind (fun x => x.getStr?.toOption)).getD "" with
    | "Delete" => some .delete
    | "Change" => some .change
    | "Yank" => some .yank
    | "ToggleCaseRange" => some (.caseRange .toggle)
    | "ToLower" => some (.caseRange .lower)
    | "ToUpper" => some (.caseRange .upper)
    | "Rot13" => some .rot13
    | "PutAfter" => some (.putSpan true)
    | "PutBefore" => some (.putSpan false)
    | "JoinLines" => some (.joinLines (n 1))
    | "OpenLineAfter" => some (.openLine true)
    | "OpenLineBefore" => some (.openLine false)
    | "InsertChar" => some (.insertChar (charOf va[1]?))
    | "ReplaceChar" => some (.replaceChar (charOf va[1]?))
    | "ToggleCaseInplace" => some (.toggleInplace (n 1))
    | "ReplaceCharInplace" => some (.replaceInplace (charOf va[1]?) (n 2))
    | _ => none
  match v? with
  | none => Json.mkObj [("err", "verb not modelled")]
  | some v =>
    match execVerbText v mk reg lb regs with
    | .error (.panic site) => Json.mkObj [("panic", Json.str site)]
    | .ok out =>
      -- registers in canonical form: sorted by name, trivial (empty span) entries dropped
      let names : List (Option Char) := none :: ("abcdefghijklmnopqrstuvwxyz".toList.map some)
      let rj := names.filterMap fun nm =>
        match out.regs.get nm with
        | .span [] => none
        | c => some (Json.arr #[Json.str (match nm with | none => "" | some ch => String.singleton ch), regContentJson c])
      Json.mkObj [("text", J out.text), ("regs", Json.arr rj.toArray),
                  ("range", match rangeFromMotion lb mk with
                            | some (s, e) => Json.arr #[s, e]
                            | none => Json.null)]

def clampOf (j : Json) : Clamp :=
  ⟨jnat j "value", jnat j "max", jbool j "exclusive"⟩

def clampJson (c : Clamp) : Json := Json.mkObj [("value", c.value), ("max", c.max), ("exclusive", c.excl)]

/-- `{"op":"pos","gs":[..],"cur":{value,max,exclusive},"cache":[..]|null,"was_insert":b}`: the model's
well-formedness verdicts on an observed state, what the model reports for it, and the state after
`set_normal_mode`. -/
def opPos (req : Json) : Json :=
  let gs := gsOf req
  let cur := clampOf ((req.getObjVal? "cur").toOption.getD Json.null)
  let cache : Option (List Nat) := match req.getObjVal? "cache" with
    | .ok (.arr a) => some (a.toList.map (fun x => x.getNat?.toOption.getD 0))
    | _ => none
  let s : EdPos := ⟨gs, cur, cache⟩
  let sn := setNormalMode (jbool req "was_insert") s
  Json.mkObj [
    ("wf", decide s.WF), ("normal_ok", decide s.NormalOk),
    ("max_ok", decide (cur.max = gs.length)), ("clamp_ok", decide cur.Ok),
    ("cache_ok", decide (cache = none ∨ cache = some (offsets gs))),
    ("on_terminator", onTerminator gs cur.value),
    ("pos", Json.num (s.indexBytePos cur.value : Nat)),
    ("line", Json.num (((gs.take cur.value).flatten.count '\n' + 1 : Nat))),
    ("col", match cursorCol gs cur.value with | some c => Json.num (c + 1 : Nat) | none => Json.str "underflow"),
    ("char", J ((gs[cur.value]?).getD [])),
    ("buf_len", Json.num (byteLen gs.flatten : Nat)),
    ("set_normal", clampJson sn.cur)]

def rcmdOf (j : Json) : RCmd :=
  let kind : VKind := match jstr j "kind" with
    | "insertMode" => .insertMode | "change" => .change | "lineBreak" => .lineBreak
    | "replaceMode" => .replaceMode | "normalMode" => .normalMode | _ => .other
  { reg := jstr j "reg", kind := kind,
    verb := (j.getObjValAs? String "verb").toOption,
    vcount := jnat j "vcount",
    payload := (j.getObjValAs? Nat "payload").toOption,
    motion := (j.getObjValAs? String "motion").toOption,
    mcount := jnat j "mcount", flags := jnat j "flags", repeatable := jbool j "repeatable" }

def rcmdJson (c : RCmd) : Json :=
  Json.mkObj [("reg", c.reg), ("verb", match c.verb with | some v => Json.str v | none => Json.null),
    ("vcount", c.vcount), ("payload", match c.payload with | some v => Json.num (v : Nat) | none => Json.null),
    ("motion", match c.motion with | some v => Json.str v | none => Json.null), ("mcount", c.mcount), ("flags", c.flags)]

/-- `{"op":"dot","rep":{"single":cmd}|{"mode":[cmds],"reps":n}|null,"count":n}`: the commands `.` executes. -/
def opDot (req : Json) : Json :=
  let rj := (req.getObjVal? "rep").toOption.getD Json.null
  let rep : Option Replay :=
    match rj.getObjVal? "single" with
    | .ok c => some (.single (rcmdOf c))
    | .error _ =>
      match rj.getObjVal? "mode" with
      | .ok (.arr a) => some (.mode (a.toList.map rcmdOf) (jnat rj "reps"))
      | _ => none
  Json.mkObj [("execs", Json.arr ((dotExecsA (fun _ => jbool req "fails") rep (jnat req "count")).map rcmdJson).toArray)]

namespace VicJ
open Vicut.Vic

def sOf (j : Json) : String := j.getStr?.toOption.getD ""
def iOf (j : Json) : Int := j.getInt?.toOption.getD 0
def at_ (a : Array Json) (i : Nat) : Json := a[i]?.getD Json.null
def arrOf (j : Json) : Array Json := match j with | .arr a => a | _ => #[]

def binOpOf : String → BinOp
  | "+" => .add | "-" => .sub | "*" => .mul | "/" => .div | _ => .mod
def cmpOpOf : String → CmpOp
  | "==" => .eq | "!=" => .ne | "<" => .lt | "<=" => .le | ">" => .gt | _ => .ge

partial def aexpr (j : Json) : AExpr :=
  let a := arrOf j
  match sOf (at_ a 0) with
  | "int" => .int (iOf (at_ a 1))
  | "var" => .var (sOf (at_ a 1))
  | _ => .bin (binOpOf (sOf (at_ a 1))) (aexpr (at_ a 2)) (aexpr (at_ a 3))

partial def bexpr (j : Json) : BExpr :=
  let a := arrOf j
  match sOf (at_ a 0) with
  | "cmp" => .cmp (cmpOpOf (sOf (at_ a 1))) (aexpr (at_ a 2)) (aexpr (at_ a 3))
  | "and" => .and (bexpr (at_ a 1)) (bexpr (at_ a 2))
  | "or" => .or (bexpr (at_ a 1)) (bexpr (at_ a 2))
  | _ => .lit ((at_ a 1).getBool?.toOption.getD false)

partial def expr (j : Json) : Expr :=
  let a := arrOf j
  match sOf (at_ a 0) with
  | "arith" => .arith (aexpr (at_ a 1))
  | "lit" => .lit ((arrOf (at_ a 1)).toList.map fun p =>
      let pa := arrOf p
      if sOf (at_ pa 0) == "t" then LitPart.text (sOf (at_ pa 1)) else LitPart.interp (sOf (at_ pa 1)))
  | "arr" => .arr ((arrOf (at_ a 1)).toList.map aexpr)
  | "var" => .var (sOf (at_ a 1))
  | "index" => .index (sOf (at_ a 1)) (aexpr (at_ a 2))
  | "call" => .call (sOf (at_ a 1)) ((arrOf (at_ a 2)).toList.map expr)
  | "pop" => .pop (sOf (at_ a 1))
  | "bool" => .boolE (bexpr (at_ a 1))
  | _ => .range (aexpr (at_ a 1)) (aexpr (at_ a 2)) ((at_ a 3).getBool?.toOption.getD false)

partial def stmt (j : Json) : Stmt :=
  let a := arrOf j
  let block (b : Json) : List Stmt := (arrOf b).toList.map stmt
  match sOf (at_ a 0) with
  | "let" => .let_ (sOf (at_ a 1)) (expr (at_ a 2))
  | "assign" => .assign (sOf (at_ a 1)) (expr (at_ a 2))
  | "op" => .opAssign (sOf (at_ a 1)) (binOpOf (sOf (at_ a 2))) (aexpr (at_ a 3))
  | "setidx" => .setIndex (sOf (at_ a 1)) (aexpr (at_ a 2)) (expr (at_ a 3))
  | "echo" => .echo ((arrOf (at_ a 1)).toList.map expr)
  | "if" => .ifs ((arrOf (at_ a 1)).toList.map fun cb => (bexpr (at_ (arrOf cb) 0), block (at_ (arrOf cb) 1)))
              (match at_ a 2 with | .null => none | b => some (block b))
  | "while" => .while_ ((at_ a 1).getBool?.toOption.getD false) (bexpr (at_ a 2)) (block (at_ a 3))
  | "for" => .for_ (sOf (at_ a 1)) (expr (at_ a 2)) (block (at_ a 3))
  | "push" => .push (sOf (at_ a 1)) (expr (at_ a 2))
  | "pop" => .popS (sOf (at_ a 1))
  | "def" => .def_ (sOf (at_ a 1)) ((arrOf (at_ a 2)).toList.map sOf) (block (at_ a 3))
  | "call" => .callS (sOf (at_ a 1)) ((arrOf (at_ a 2)).toList.map expr)
  | _ => .ret (expr (at_ a 1))

end VicJ

/-- `{"op":"vic","prog":[stmts],"fuel":n}`: the lines the reference interpreter prints. -/
def opVic (req : Json) : Json :=
  let prog := (jarr req "prog").toList.map VicJ.stmt
  let fuel := if jnat req "fuel" == 0 then 100000 else jnat req "fuel"
  match Vicut.Vic.runProgram fuel prog with
  | .ok lines => Json.mkObj [("out", Json.arr (lines.map Json.str).toArray)]
  | .error e => Json.mkObj [("err", Json.str e)]

/-- `{"op":"vimspec","line":s,"cur":n,"cmds":[["h",n]|["l",n]|["0"]|["$"]|["x",n]|["X",n]]}` -/
def opVimSpec (req : Json) : Json :=
  let cmds : List Vicut.VimSpec.VCmd := (jarr req "cmds").toList.filterMap fun c =>
    match c with
    | .arr a =>
      let n : Nat := (a[1]?.bind (fun x => x.getNat?.toOption)).getD 1
      match (a[0]?.bind (fun x => x.getStr?.toOption)).getD "" with
      | "h" => some (.h n) | "l" => some (.l n) | "0" => some .zero | "$" => some .dollar
      | "x" => some (.x n) | "X" => some (.X n) | _ => none
    | _ => none
  let s := Vicut.VimSpec.run ⟨(jstr req "line").toList, jnat req "cur"⟩ cmds
  Json.mkObj [("line", Json.str (String.ofList s.line)), ("cur", s.cur)]

def mkJson : MK → Json
  | .to p => Json.arr #["To", p]
  | .on p => Json.arr #["On", p]
  | .onto p => Json.arr #["Onto", p]
  | .inclusive s e => Json.arr #["Inclusive", s, e]
  | .exclusive s e => Json.arr #["Exclusive", s, e]
  | .line n => Json.arr #["Line", n]
  | .lineRange a b => Json.arr #["LineRange", a, b]
  | .lineOffset k => Json.arr #["LineOffset", Json.num (JsonNumber.fromInt k)]
  | .blockRange ws => Json.arr #["BlockRange", Json.arr (ws.map (fun w => Json.arr #[w.1, w.2])).toArray]
  | .inclTarget s e c => Json.arr #["InclusiveWithTargetCol", s, e, c]
  | .exclTarget s e c => Json.arr #["ExclusiveWithTargetCol", s, e, c]
  | .lines l => Json.arr #["Lines", Json.arr (l.map (fun (n : Nat) => (n : Json))).toArray]
  | .null => Json.arr #["Null"]

/-- `{"op":"motion","gs":[..],"cur":n,"excl":b,"selecting":b,"ws":[b..],"motion":name,"count":n,"has_verb":b}` -/
def opMotion (req : Json) : Json :=
  let ws : List Bool := (jarr req "ws").toList.map (fun x => x.getBool?.toOption.getD false)
  let s : MS := ⟨gsOf req, jnat req "cur", jbool req "excl", jbool req "selecting", ws⟩
  let m? : Option SMotion := match jstr req "motion" with
    | "ForwardChar" => some .forwardChar | "BackwardChar" => some .backwardChar
    | "BeginningOfLine" => some .bol | "EndOfLine" => some .eol | "BeginningOfFirstWord" => some .firstWord
    | "BeginningOfBuffer" => some .bob | "EndOfBuffer" => some .eob | "ToColumn" => some .toColumn
    | "WholeBuffer" => some .wholeBuffer | _ => none
  match m? with
  | none => Json.mkObj [("err", "motion not modelled")]
  | some m => Json.mkObj [("mk", mkJson (evalSimple s m (jnat req "count") (jbool req "has_verb")))]

/-- `{"op":"word","cls":[0|1|2|3..],"cur":n,"kind":"startFwd"|"endFwd"|"startBwd","big":b,"count":n,"change":b}` -/
def opWord (req : Json) : Json :=
  let cls : List Nat := (jarr req "cls").toList.map (fun x => x.getNat?.toOption.getD 3)
  let k? : Option WKind := match jstr req "kind" with
    | "startFwd" => some .startFwd | "endFwd" => some .endFwd | "startBwd" => some .startBwd | "endBwd" => some .endBwd | _ => none
  match k? with
  | none => Json.mkObj [("err", "word motion not modelled")]
  | some k => Json.mkObj [("mk", mkJson (evalWord ⟨cls⟩ (jnat req "cur") k (jbool req "big") (jnat req "count") (jbool req "change") (jbool req "selecting")))]

/-- `{"op":"charsearch","gs":[..],"cur":n,"excl":b,"fwd":b,"before":b,"ch":g,"count":n}` -/
def opCharSearch (req : Json) : Json :=
  let s : MS := ⟨gsOf req, jnat req "cur", jbool req "excl", false, []⟩
  Json.mkObj [("mk", mkJson (evalCharSearch s (jbool req "fwd") (jbool req "before") (jstr req "ch").toList (jnat req "count") (jbool req "has_verb")))]

/-- `{"op":"cursor_after","gs":[..],"cur":n,"excl":b,"mk":[..],"saved_col":n|null}` -/
def opCursorAfter (req : Json) : Json :=
  let s : MS := ⟨gsOf req, jnat req "cur", jbool req "excl", false, []⟩
  let sc : Option Nat := (req.getObjValAs? Nat "saved_col").toOption
  Json.mkObj [("cur", cursorAfterMotion s (mkOf ((req.getObjVal? "mk").toOption.getD Json.null)) sc)]

/-- `{"op":"textobj_word","cls":[..],"cur":n,"big":b,"around":b}` -/
def opTextObjWord (req : Json) : Json :=
  let cls : List Nat := (jarr req "cls").toList.map (fun x => x.getNat?.toOption.getD 3)
  Json.mkObj [("mk", mkJson (evalTextObjWord ⟨cls⟩ (jnat req "cur") (jbool req "big") (jbool req "around")))]

/-- `{"op":"paragraph","gs":[..],"cur":n,"excl":b,"fwd":b,"count":n,"has_verb":b}` -/
def opParagraph (req : Json) : Json :=
  let s : MS := ⟨gsOf req, jnat req "cur", jbool req "excl", false, []⟩
  Json.mkObj [("mk", mkJson (evalParagraph s (jbool req "fwd") (jnat req "count") (jbool req "has_verb")))]

/-- `{"op":"para_obj","blank":[b..],"cur_line":n,"count":n,"around":b}`: `ip`/`ap` as the operator sees them -/
def opParaObj (req : Json) : Json :=
  let blank : List Bool := (jarr req "blank").toList.map (fun x => x.getBool?.toOption.getD true)
  match (PL.mk blank).textObj (jnat req "cur_line") (jnat req "count") (jbool req "around") with
  | none => Json.mkObj [("mk", mkJson .null)]
  | some (a, b) => Json.mkObj [("mk", mkJson (.lineRange a b))]

/-- `{"op":"delim_match","gs":[..],"cur":n,"excl":b}`: `%` -/
def opDelimMatch (req : Json) : Json :=
  let s : MS := ⟨gsOf req, jnat req "cur", jbool req "excl", false, []⟩
  Json.mkObj [("mk", mkJson (Delim.evalDelimMatch s))]

/-- `{"op":"unmatched","gs":[..],"cur":n,"excl":b,"opener":g,"closer":g,"fwd":b}`: `[(` `])` `[{` `]}` -/
def opUnmatched (req : Json) : Json :=
  let s : MS := ⟨gsOf req, jnat req "cur", jbool req "excl", false, []⟩
  Json.mkObj [("mk", mkJson (Delim.evalUnmatched s (jstr req "opener").toList (jstr req "closer").toList (jbool req "fwd")))]

/-- `{"op":"textobj_delim","gs":[..],"cur":n,"excl":b,"ws":[b..],"opener":g,"closer":g,"around":b}`: `i(` `a(` … -/
def opTextObjDelim (req : Json) : Json :=
  let ws : List Bool := (jarr req "ws").toList.map (fun x => x.getBool?.toOption.getD false)
  let s : MS := ⟨gsOf req, jnat req "cur", jbool req "excl", false, ws⟩
  Json.mkObj [("mk", mkJson (Delim.evalTextObjDelim s (jstr req "opener").toList (jstr req "closer").toList (jbool req "around")))]

/-- `{"op":"textobj_quote","gs":[..],"cur":n,"excl":b,"ws":[b..],"q":g,"around":b}`: `i"` `a"` … -/
def opTextObjQuote (req : Json) : Json :=
  let ws : List Bool := (jarr req "ws").toList.map (fun x => x.getBool?.toOption.getD false)
  let s : MS := ⟨gsOf req, jnat req "cur", jbool req "excl", false, ws⟩
  Json.mkObj [("mk", mkJson (Quote.evalTextObjQuote s (jstr req "q").toList (jbool req "around")))]

/-- `{"op":"block_windows","gs":[..],"anchor":n,"cur":n}`: the windows of a visual-block selection -/
def opBlockWindows (req : Json) : Json :=
  match Block.windows (gsOf req) (jnat req "anchor") (jnat req "cur") with
  | none => Json.mkObj [("panic", "index_col: no such line")]
  | some ws => Json.mkObj [("windows", Json.arr (ws.map (fun w => Json.arr #[w.1, w.2])).toArray)]

/-- `{"op":"sentence","k":[0..4],"cur":n,"count":n,"fwd":b,"has_verb":b}` -/
def opSentence (req : Json) : Json :=
  let k : List Nat := (jarr req "k").toList.map (fun x => x.getNat?.toOption.getD 0)
  Json.mkObj [("mk", mkJson ((SK.mk k).evalSentence (jnat req "cur") (jnat req "count") (jbool req "fwd") (jbool req "has_verb")))]

def dispatch (req : Json) : Json :=
  match jstr req "op" with
  | "ping" => Json.mkObj [("pong", true)]
  | "format" => opFormat req
  | "lines" => opLines req
  | "parse_argv" => opParseArgv req
  | "keys" => opKeys req
  | "inplace" => opInplace req
  | "geometry" => opGeometry req
  | "field" => opField req
  | "undo_machine" => opUndoMachine req
  | "search" => opSearch req
  | "exref" => opExRef req
  | "global" => opGlobal req
  | "verb" => opVerb req
  | "pos" => opPos req
  | "dot" => opDot req
  | "vic" => opVic req
  | "vimspec" => opVimSpec req
  | "motion" => opMotion req
  | "word" => opWord req
  | "charsearch" => opCharSearch req
  | "cursor_after" => opCursorAfter req
  | "textobj_word" => opTextObjWord req
  | "paragraph" => opParagraph req
  | "para_obj" => opParaObj req
  | "sentence" => opSentence req
  | "delim_match" => opDelimMatch req
  | "unmatched" => opUnmatched req
  | "textobj_delim" => opTextObjDelim req
  | "textobj_quote" => opTextObjQuote req
  | "block_windows" => opBlockWindows req
  | op => Json.mkObj [("err", Json.str s!"unknown op {op}")]

partial def loop (h : IO.FS.Stream) (out : IO.FS.Stream) : IO Unit := do
  let line ← h.getLine
  if line.isEmpty then return ()
  if line.trimAscii.toString.isEmpty then loop h out else
  match Json.parse line with
  | .error e =>
    out.putStrLn (Json.mkObj [("bad_request", Json.str e)]).compress
    out.flush
    loop h out
  | .ok req =>
    let resp := dispatch req
    let resp := resp.setObjVal! "id" ((req.getObjVal? "id").toOption.getD Json.null)
    out.putStrLn resp.compress
    out.flush
    loop h out

def main : IO Unit := do
  loop (← IO.getStdin) (← IO.getStdout)
