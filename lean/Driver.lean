/-
Model driver: reads one JSON request per line (the same requests the Rust hook server gets),
runs the corresponding *model* function, prints one JSON line.
-/
import Lean.Data.Json
import Vicut.Model.Format

open Lean Vicut

def jstr (j : Json) (k : String) : String := (j.getObjValAs? String k).toOption.getD ""
def jbool (j : Json) (k : String) : Bool := (j.getObjValAs? Bool k).toOption.getD false
def jnat (j : Json) (k : String) : Nat := (j.getObjValAs? Nat k).toOption.getD 0
def jarr (j : Json) (k : String) : Array Json :=
  match j.getObjVal? k with
  | .ok (.arr a) => a
  | _ => #[]

def S (s : Str) : String := String.ofList s
def J (s : Str) : Json := Json.str (String.ofList s)

def recordsOf (j : Json) : Records :=
  match j with
  | .arr recs => recs.toList.map fun r =>
    match r with
    | .arr fs => fs.toList.map fun f =>
      match f with
      | .arr #[.str k, .str v] => (k.toList, v.toList)
      | _ => ([], [])
    | _ => []
  | _ => []

def recordsJson (r : Records) : Json :=
  Json.arr (r.map (fun rec => Json.arr (rec.map (fun f => Json.arr #[J f.1, J f.2])).toArray)).toArray

def opFormat (req : Json) : Json :=
  let recs0 := recordsOf ((req.getObjVal? "records").toOption.getD (Json.arr #[]))
  let recs := if jbool req "trim" then trimFields recs0 else recs0
  match jstr req "mode" with
  | "json" => Json.mkObj [("out", J (fmtJson recs))]
  | "template" =>
    match fmtTemplate (jstr req "template").toList recs with
    | .ok s => Json.mkObj [("out", J s)]
    | .error e => Json.mkObj [("err", J e)]
  | "trim" => Json.mkObj [("records", recordsJson recs)]
  | _ =>
    let d := match req.getObjValAs? String "delim" with | .ok d => d | _ => " "
    Json.mkObj [("out", J (fmtStandard d.toList recs))]

def opLines (req : Json) : Json :=
  Json.mkObj [("lines", Json.arr ((getLines (jstr req "text").toList).map J).toArray)]

def dispatch (req : Json) : Json :=
  match jstr req "op" with
  | "ping" => Json.mkObj [("pong", true)]
  | "format" => opFormat req
  | "lines" => opLines req
  | op => Json.mkObj [("err", Json.str s!"unknown op {op}")]

partial def loop (h : IO.FS.Stream) (out : IO.FS.Stream) : IO Unit := do
  let line ← h.getLine
  if line.isEmpty then return ()
  if line.trimAscii.toString.isEmpty then loop h out else
  match Json.parse line with
  | .error e =>
    out.putStrLn (Json.mkObj [("bad_request", Json.str e)]).compress
    out.flush
    loop h out
  | .ok req =>
    let resp := dispatch req
    let resp := resp.setObjVal! "id" ((req.getObjVal? "id").toOption.getD Json.null)
    out.putStrLn resp.compress
    out.flush
    loop h out

def main : IO Unit := do
  loop (← IO.getStdin) (← IO.getStdout)
