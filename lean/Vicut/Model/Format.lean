/-
Model of vicut's output layer (src/main.rs): `get_lines`, `trim_fields`,
`format_output_standard`, `format_output_template`, `format_output_json`
(with serde_json's pretty printer and escape table, `Map` = BTreeMap).
Import-free so that the driver links as a native executable.
-/
namespace Vicut

abbrev Str := List Char
abbrev Field := Str × Str          -- (name, value)
abbrev Record := List Field
abbrev Records := List Record

/-! ### `get_lines` (main.rs:841) -/

/-- The loop of `get_lines`: `cur` is `cur_line`, the result is `lines` (+ the final push). -/
def getLinesAux : Str → Str → List Str
  | [], cur => if cur.isEmpty then [] else [cur]
  | c :: cs, cur =>
    if c = '\n' then (cur ++ [c]) :: getLinesAux cs [] else getLinesAux cs (cur ++ [c])

def getLines (s : Str) : List Str := getLinesAux s []

/-! ### `trim_fields` (main.rs:829): `str::trim` removes Unicode `White_Space` at both ends -/

/-- Rust's `char::is_whitespace` (Unicode White_Space). -/
def isRustWhitespace (c : Char) : Bool :=
  let n := c.toNat
  (9 ≤ n && n ≤ 13) || n = 0x20 || n = 0x85 || n = 0xA0 || n = 0x1680 ||
  (0x2000 ≤ n && n ≤ 0x200A) || n = 0x2028 || n = 0x2029 || n = 0x202F || n = 0x205F || n = 0x3000

def trimStart (s : Str) : Str := s.dropWhile isRustWhitespace
def trimEnd (s : Str) : Str := (s.reverse.dropWhile isRustWhitespace).reverse
def trimStr (s : Str) : Str := trimEnd (trimStart s)

def trimFields (recs : Records) : Records :=
  recs.map (fun r => r.map (fun f => (f.1, trimStr f.2)))

/-! ### `format_output_standard` (main.rs:651) -/

/-- `no_fields_extracted`: exactly one record holding exactly one field named `"0"`. -/
def noFieldsExtracted (recs : Records) : Bool :=
  match recs with
  | [[(n, _)]] => n == ['0']
  | _ => false

/-- `Vec<String>::join(delimiter)`. -/
def joinWith (d : Str) : List Str → Str
  | [] => []
  | [x] => x
  | x :: y :: rest => x ++ d ++ joinWith d (y :: rest)

/-- `if record.ends_with('\n') { write } else { writeln }`. -/
def ensureNl (r : Str) : Str :=
  if r.getLast? = some '\n' then r else r ++ ['\n']

def fmtStandard (d : Str) (recs : Records) : Str :=
  match recs with
  | [[(n, v)]] =>
    if n == ['0'] then v
    else ensureNl (joinWith d [v])
  | _ => (recs.map (fun r => ensureNl (joinWith d (r.map Prod.snd)))).flatten

/-! ### `format_output_template` (main.rs:690) -/

def lookupField (r : Record) (name : Str) : Option Str :=
  (r.find? (fun f => f.1 == name)).map Prod.snd

/-- One pass of the template state machine over one record.
`nm = none`: outside a placeholder; `nm = some acc`: inside `{{`, `acc` is `field_name`.
`Except.error name` = "Did not find a field called name". -/
def tplGo (r : Record) : Option Str → Str → Str → Except Str Str
  | none, [], acc => .ok acc
  | none, [c], acc => if c = '\\' then .ok acc else .ok (acc ++ [c])
  | none, c :: d :: rest, acc =>
    if c = '\\' then tplGo r none rest (acc ++ [d])
    else if c = '{' ∧ d = '{' then tplGo r (some []) rest acc
    else tplGo r none (d :: rest) (acc ++ [c])
  | some nm, [], acc => .ok (acc ++ nm)
  | some nm, [c], acc => if c = '\\' then .ok (acc ++ nm) else .ok (acc ++ (nm ++ [c]))
  | some nm, c :: d :: rest, acc =>
    if c = '\\' then tplGo r (some (nm ++ [d])) rest acc
    else if c = '}' ∧ d = '}' then
      match lookupField r nm with
      | some f => tplGo r none rest (acc ++ f)
      | none => .error nm
    else tplGo r (some (nm ++ [c])) (d :: rest) acc
termination_by _ s _ => s.length

/-- One record rendered through the template: empty lines are dropped, others get `\n`. -/
def tplLine (tpl : Str) (r : Record) : Except Str Str :=
  match tplGo r none tpl [] with
  | .ok l => .ok (if l.isEmpty then [] else l ++ ['\n'])
  | .error e => .error e

def fmtTemplate (tpl : Str) : Records → Except Str Str
  | [] => .ok []
  | r :: rs =>
    match tplLine tpl r with
    | .error e => .error e
    | .ok l =>
      match fmtTemplate tpl rs with
      | .error e => .error e
      | .ok rest => .ok (l ++ rest)

/-! ### `format_output_json` (main.rs:597) with serde_json's `to_string_pretty` -/

def hexDigit (n : Nat) : Char :=
  if n < 10 then Char.ofNat (48 + n) else Char.ofNat (87 + n)

/-- serde_json's `ESCAPE` table applied to one char. -/
def jsonEscapeChar (c : Char) : Str :=
  if c = '"' then ['\\', '"']
  else if c = '\\' then ['\\', '\\']
  else if c = '\n' then ['\\', 'n']
  else if c = '\r' then ['\\', 'r']
  else if c = '\t' then ['\\', 't']
  else if c.toNat = 8 then ['\\', 'b']
  else if c.toNat = 12 then ['\\', 'f']
  else if c.toNat < 32 then ['\\', 'u', '0', '0', hexDigit (c.toNat / 16), hexDigit (c.toNat % 16)]
  else [c]

def jsonEscape (s : Str) : Str := (s.map jsonEscapeChar).flatten

def jsonString (s : Str) : Str := ['"'] ++ jsonEscape s ++ ['"']

/-- Lexicographic `<` on code points = Rust's `str` order on valid UTF-8. -/
def strLt : Str → Str → Bool
  | [], [] => false
  | [], _ :: _ => true
  | _ :: _, [] => false
  | a :: as, b :: bs => if a.toNat < b.toNat then true else if b.toNat < a.toNat then false else strLt as bs

/-- `BTreeMap::insert`: keeps keys sorted, a repeated key replaces the value. -/
def mapInsert (k v : Str) : List (Str × Str) → List (Str × Str)
  | [] => [(k, v)]
  | (k', v') :: rest =>
    if k == k' then (k, v) :: rest
    else if strLt k k' then (k, v) :: (k', v') :: rest
    else (k', v') :: mapInsert k v rest

def toMap (r : Record) : List (Str × Str) :=
  r.foldl (fun m f => mapInsert f.1 f.2 m) []

def jsonEntry (indent : Str) (kv : Str × Str) : Str :=
  indent ++ jsonString kv.1 ++ [':', ' '] ++ jsonString kv.2

def sp (n : Nat) : Str := List.replicate n ' '

/-- A pretty-printed object whose opening brace is already indented by `ind` spaces. -/
def jsonObject (ind : Nat) (m : List (Str × Str)) : Str :=
  if m.isEmpty then ['{', '}']
  else ['{', '\n'] ++ joinWith [',', '\n'] (m.map (jsonEntry (sp (ind + 2)))) ++ ['\n'] ++ sp ind ++ ['}']

def fmtJson (recs : Records) : Str :=
  if recs.all (·.isEmpty) then []
  else ['[', '\n'] ++ joinWith [',', '\n'] (recs.map (fun r => sp 2 ++ jsonObject 2 (toMap r))) ++ ['\n', ']']

/-- Which renderer `format_output` picks. -/
inductive OutMode where
  | json
  | template (tpl : Str)
  | standard (delim : Str)

def formatOutput (m : OutMode) (recs : Records) : Except Str Str :=
  match m with
  | .json => .ok (fmtJson recs)
  | .template t => fmtTemplate t recs
  | .standard d => .ok (fmtStandard d recs)

end Vicut
