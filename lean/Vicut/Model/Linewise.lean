/-
Model of the `--linewise` drivers (src/main.rs:1361-1573) at the level the property talks about:
split, run every line as its own unit, collect in *some* completion order, restore input order.
`exec` (what one unit returns) and the schedule are parameters.
-/
import Vicut.Model.Exec

namespace Vicut

/-- `.enumerate()`: pair every unit with its index, starting at `i`. -/
def indexFrom {α : Type} : Nat → List α → List (Nat × α)
  | _, [] => []
  | i, x :: xs => (i, x) :: indexFrom (i + 1) xs

def keyLe {α : Type} (a b : Nat × α) : Bool := decide (a.1 ≤ b.1)

/-- `lines.sort_by_key(|(i,_)| *i)` then append every unit's records (main.rs:1460-1464). -/
def collectSorted (results : List (Nat × Records)) : Records :=
  ((results.mergeSort keyLe).map (·.2)).flatten

/-- `execute_linewise`: `sched` is the order in which rayon's `collect` happened to deliver the
(index, records) pairs — any permutation. -/
def executeLinewise (exec : Str → Records) (sched : List (Nat × Records) → List (Nat × Records)) (s : Str) : Records :=
  collectSorted (sched (indexFrom 0 ((getLines s).map exec)))

/-- `execute_multi_thread_files_linewise` for one file: every line's records are formatted on
their own, tagged with the line number, sorted, and joined with "" (main.rs:1389-1412). -/
def linewiseFileContent (exec : Str → Records) (fmt : Records → Str)
    (sched : List (Nat × Str) → List (Nat × Str)) (content : Str) : Str :=
  (((sched (indexFrom 0 ((getLines content).map (fun l => fmt (exec l))))).mergeSort keyLe).map (·.2)).flatten

/-- stdout of a non-linewise stdin run: `writeln!(stdout, "{output}")` (main.rs:1655). -/
def stdoutSingle (exec : Str → Records) (fmt : Records → Str) (input : Str) : Str :=
  fmt (exec input) ++ ['\n']

/-- stdout of `--linewise` on stdin (main.rs:1465,1570): format all records at once, one `writeln!`. -/
def stdoutLinewise (exec : Str → Records) (fmt : Records → Str) (input : Str) : Str :=
  fmt (((getLines input).map exec).flatten) ++ ['\n']

end Vicut
