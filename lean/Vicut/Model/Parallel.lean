/-
Model of the rayon-driven drivers as schedules (src/main.rs:1286-1466, src/register.rs):
units (lines or files) are assigned to workers; every worker owns one thread-local register bank
and runs its units one after the other; results come back in some completion order and are sorted
by index. `exec` = what `execute()` does to one unit given the registers it finds on its thread.
-/
import Vicut.Model.Linewise

namespace Vicut

variable {ρ : Type}   -- the register bank (thread-local `REGISTERS`)

/-- One worker thread: runs its units in order, the register bank carries over from unit to unit. -/
def runWorker (exec : ρ → Str → Records × ρ) : ρ → List (Nat × Str) → List (Nat × Records)
  | _, [] => []
  | r, (i, u) :: rest => (i, (exec r u).1) :: runWorker exec (exec r u).2 rest

/-- A parallel run: `assign` = the units each worker ends up running (work stealing included),
`order` = the order in which results are delivered; then the sort by index. -/
def runPar (exec : ρ → Str → Records × ρ) (r0 : ρ) (assign : List (List (Nat × Str)))
    (order : List (Nat × Records) → List (Nat × Records)) : Records :=
  collectSorted (order ((assign.map (runWorker exec r0)).flatten))

/-- `--serial`: one thread, one register bank, units in input order. -/
def runSer (exec : ρ → Str → Records × ρ) (r0 : ρ) (units : List Str) : Records :=
  ((runWorker exec r0 (indexFrom 0 units)).map (·.2)).flatten

/-- `execute()` after fix 37593fd: the first thing it does is reset the thread's registers, so what
it returns is what `core` returns on empty registers. -/
def executeResetting (core : ρ → Str → Records × ρ) (empty : ρ) : ρ → Str → Records × ρ :=
  fun _ u => core empty u

end Vicut
