/-
Model of the command-line parser (src/main.rs:161-410): `Opts::parse` and `handle_global_arg`.
The recursive descent over `-g … --end` scopes is written as one pass with an explicit stack of
open scopes (innermost first); `closeAll` is what the chain of `break`s / end of input does.
Every `Err(..)`, `complain_and_exit` and `process::exit(1)` is `Except.error`.
-/
import Vicut.Model.Exec

namespace Vicut

def lit (s : String) : Str := s.toList

/-- `str::parse::<usize>()`: optional `+`, at least one ASCII digit, no overflow past 2^64-1. -/
def parseUsize (s : Str) : Option Nat :=
  let ds := match s with
    | '+' :: rest => rest
    | _ => s
  if ds.isEmpty then none
  else if ds.all (fun c => '0' ≤ c ∧ c ≤ '9') then
    let n := ds.foldl (fun acc c => acc * 10 + (c.toNat - 48)) 0
    if n < 2 ^ 64 then some n else none
  else none

def startsWithDash (s : Str) : Bool := s.head? == some '-'

structure POpts where
  json : Bool := false
  trace : Bool := false
  linewise : Bool := false
  serial : Bool := false
  trimFields : Bool := false
  keepMode : Bool := false
  backup : Bool := false
  globalLineNumbers : Bool := false
  silent : Bool := false
  inplace : Bool := false
  template : Option Str := none
  delimiter : Option Str := none
  cmds : List Cmd := []
  files : List Str := []
  deriving Repr, BEq

/-- An open `-g`/`-v` scope. `els = some _` once `--else` has been seen. -/
structure Frame where
  pat : Str
  pol : Bool
  thn : List Cmd := []
  els : Option (List Cmd) := none
  deriving Repr, BEq

def Frame.push (f : Frame) (c : Cmd) : Frame :=
  match f.els with
  | some e => { f with els := some (e ++ [c]) }
  | none => { f with thn := f.thn ++ [c] }

def Frame.close (f : Frame) : Cmd :=
  .glob f.pat f.pol f.thn f.els.isSome (f.els.getD [])

/-- The list `-r` takes its body from: the `else` list once `--else` was seen, else the `then` list. -/
def Frame.active (f : Frame) : List Cmd := f.els.getD f.thn

def Frame.setActive (f : Frame) (cs : List Cmd) : Frame :=
  match f.els with
  | some _ => { f with els := some cs }
  | none => { f with thn := cs }

structure PState where
  opts : POpts := {}
  stack : List Frame := []
  deriving Repr, BEq

def PState.pushCmd (st : PState) (c : Cmd) : PState :=
  match st.stack with
  | [] => { st with opts := { st.opts with cmds := st.opts.cmds ++ [c] } }
  | f :: fs => { st with stack := f.push c :: fs }

/-- `--end`, or a scope running out of arguments: the finished `Global` becomes one command of the
enclosing list. -/
def PState.closeOne (st : PState) : PState :=
  match st.stack with
  | [] => st
  | f :: fs => ({ st with stack := fs } : PState).pushCmd f.close

def closeAllAux : List Frame → PState → PState
  | [], st => st
  | _ :: fs, st => closeAllAux fs st.closeOne

def PState.closeAll (st : PState) : PState := closeAllAux st.stack st

/-- `Repeat { body: last n commands, count: r + 1 }` replacing those commands. -/
def applyRepeat (cs : List Cmd) (n r : Nat) : List Cmd :=
  cs.take (cs.length - n) ++ [Cmd.rep (cs.drop (cs.length - n)) (r + 1)]

def PState.repeatLast (st : PState) (n r : Nat) : PState :=
  match st.stack with
  | [] => { st with opts := { st.opts with cmds := applyRepeat st.opts.cmds n r } }
  | f :: fs => { st with stack := f.setActive (applyRepeat f.active n r) :: fs }

/-- `handle_filename`: existence is checked by `fileOk`; the path is trimmed and deduplicated. -/
def PState.addFile (st : PState) (fileOk : Str → Bool) (a : Str) : Except Unit PState :=
  let p := trimStr a
  if fileOk p then
    .ok (if st.opts.files.contains p then st else { st with opts := { st.opts with files := st.opts.files ++ [p] } })
  else .error ()

/-- After an item inside a scope: `if args.peek().is_some_and(|a| !a.starts_with('-')) { break }`
in every enclosing `handle_global_arg`. -/
def PState.peekBreak (st : PState) (rest : List Str) : PState :=
  match st.stack, rest with
  | _ :: _, nxt :: _ => if startsWithDash nxt then st else st.closeAll
  | _, _ => st

/-- `-r [N [R]]`: missing operands default to "1". Returns (n, r, number of operands consumed). -/
def repeatOperands (rest : List Str) : Option (Nat × Nat × Nat) :=
  match rest with
  | [] => some (1, 1, 0)
  | [a] => (parseUsize a).map (fun n => (n, 1, 1))
  | a :: b :: _ =>
    match parseUsize a, parseUsize b with
    | some n, some r => some (n, r, 2)
    | _, _ => none

def isGlobalFlag (a : Str) : Option Bool :=
  if a = lit "-g" ∨ a = lit "--global" then some true
  else if a = lit "-v" ∨ a = lit "--not-global" then some false
  else none

/-- One pass over the arguments. -/
def parseArgs (fileOk : Str → Bool) : List Str → PState → Except Unit PState
  | [], st => .ok st.closeAll
  | a :: rest, st =>
    -- flags shared by the top level and scopes
    if a = lit "-n" ∨ a = lit "--next" then
      (match st.stack with
       | [] => parseArgs fileOk rest (st.pushCmd .next)
       | f :: fs =>     -- inside a scope `-n` always goes to `then_cmds`
         parseArgs fileOk rest (({ st with stack := { f with thn := f.thn ++ [.next] } :: fs } : PState).peekBreak rest))
    else if a = lit "-r" ∨ a = lit "--repeat" then
      (match repeatOperands rest with
       | none => .error ()
       | some (n, r, used) =>
         parseArgs fileOk (rest.drop used) ((st.repeatLast n r).peekBreak (rest.drop used)))
    else if a = lit "-m" ∨ a = lit "--move" then
      (match rest with
       | [] => .ok st.closeAll
       | k :: rest' =>
         if startsWithDash k then .error ()
         else parseArgs fileOk rest' ((st.pushCmd (.move k)).peekBreak rest'))
    else if a = lit "-c" ∨ a = lit "--cut" then
      (match rest with
       | [] => .ok st.closeAll
       | k :: rest' =>
         if (lit "name=").isPrefixOf k then
           if st.stack.isEmpty ∧ k.drop 5 = lit "0" then .error ()
           else match rest' with
             | [] => .ok st.closeAll
             | k2 :: rest'' =>
               if startsWithDash k2 then .error ()
               else parseArgs fileOk rest'' ((st.pushCmd (.cut (some (k.drop 5)) k2)).peekBreak rest'')
         else if startsWithDash k then .error ()
         else parseArgs fileOk rest' ((st.pushCmd (.cut none k)).peekBreak rest'))
    else match isGlobalFlag a with
    | some pol =>
      (match rest with
       | [] =>   -- no pattern: `Global { pattern: the flag itself, no commands }`
         .ok (st.pushCmd (.glob a pol [] false [])).closeAll
       | p :: rest' =>
         if startsWithDash p then .error ()
         else parseArgs fileOk rest' { st with stack := { pat := p, pol := pol } :: st.stack })
    | none =>
      match st.stack with
      | f :: fs =>
        if a = lit "--else" then
          parseArgs fileOk rest (({ st with stack := { f with els := some [] } :: fs } : PState).peekBreak rest)
        else if a = lit "--end" then
          parseArgs fileOk rest (st.closeOne.peekBreak rest)
        else .error ()
      | [] =>
        if a = lit "--json" ∨ a = lit "-j" then parseArgs fileOk rest { st with opts := { st.opts with json := true } }
        else if a = lit "--trace" then parseArgs fileOk rest { st with opts := { st.opts with trace := true } }
        else if a = lit "--linewise" then parseArgs fileOk rest { st with opts := { st.opts with linewise := true } }
        else if a = lit "--serial" then parseArgs fileOk rest { st with opts := { st.opts with serial := true } }
        else if a = lit "--trim-fields" then parseArgs fileOk rest { st with opts := { st.opts with trimFields := true } }
        else if a = lit "--keep-mode" then parseArgs fileOk rest { st with opts := { st.opts with keepMode := true } }
        else if a = lit "--backup" then parseArgs fileOk rest { st with opts := { st.opts with backup := true } }
        else if a = lit "--global-uses-line-numbers" then parseArgs fileOk rest { st with opts := { st.opts with globalLineNumbers := true } }
        else if a = lit "--silent" then parseArgs fileOk rest { st with opts := { st.opts with silent := true } }
        else if a = lit "-i" then parseArgs fileOk rest { st with opts := { st.opts with inplace := true } }
        else if a = lit "--template" ∨ a = lit "-t" then
          (match rest with
           | [] => .error ()
           | t :: rest' => if startsWithDash t then .error ()
                           else parseArgs fileOk rest' { st with opts := { st.opts with template := some t } })
        else if a = lit "--delimiter" ∨ a = lit "-d" then
          (match rest with
           | [] => .ok st
           | d :: rest' => if startsWithDash d then .error ()
                           else parseArgs fileOk rest' { st with opts := { st.opts with delimiter := some d } })
        else
          match st.addFile fileOk a with
          | .error e => .error e
          | .ok st' => parseArgs fileOk rest st'
termination_by args => args.length
decreasing_by all_goals (simp_wf; try omega)

def parseOpts (fileOk : Str → Bool) (args : List Str) : Except Unit POpts :=
  (parseArgs fileOk args {}).map (·.opts)

end Vicut
