/-
VimSpec: a specification, written from Vim's documentation (:help h, l, 0, $, x, X), of the
single-line fragment of normal mode that C02's theorems talk about. It is validated against the
recorded Vim corpus on every run (the corpus, not this file, is the oracle for the rest of the subset).
State: one line of characters (no newline inside) and the cursor, in normal mode.
-/
namespace Vicut.VimSpec

structure VS where
  line : List Char
  cur : Nat
  deriving Repr, BEq, DecidableEq

/-- Normal mode keeps the cursor on a character (column 0 on an empty line). -/
def VS.WF (s : VS) : Prop := s.cur ≤ s.line.length - 1

def clamp (s : VS) : VS := { s with cur := min s.cur (s.line.length - 1) }

inductive VCmd where
  | h (n : Nat) | l (n : Nat) | zero | dollar | x (n : Nat) | X (n : Nat)
  deriving Repr, BEq, DecidableEq

/-- One command with its count (`n ≥ 1`). A motion that cannot move at all fails in Vim and the rest of
the key string is abandoned; `none` models that. -/
def step (s : VS) : VCmd → Option VS
  | .h n => if s.cur = 0 then none else some { s with cur := s.cur - n }
  | .l n => if s.cur + 1 ≥ s.line.length then none else some { s with cur := min (s.cur + n) (s.line.length - 1) }
  | .zero => some { s with cur := 0 }
  | .dollar => some { s with cur := s.line.length - 1 }
  | .x n => if s.line = [] then none else some (clamp { s with line := s.line.take s.cur ++ s.line.drop (s.cur + n) })
  | .X n => if s.cur = 0 then none else
      some { line := s.line.take (s.cur - n) ++ s.line.drop s.cur, cur := s.cur - n }

/-- A key string: commands until one fails. -/
def run (s : VS) : List VCmd → VS
  | [] => s
  | c :: rest =>
    match step s c with
    | some s' => run s' rest
    | none => s

end Vicut.VimSpec
