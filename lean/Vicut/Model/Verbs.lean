/-
L1 editor core (src/linebuf.rs 3092-3557, src/register.rs): what a verb does to the text and to the
registers, given the `MotionKind` the motion engine produced. The motion engine itself (eval_motion,
the scanners) is not modelled: `MK` is an input. Cursor placement is not part of this file.
State = graphemes of the buffer (cache fresh), cursor, clamp kind, registers.
-/
import Vicut.Model.Field

namespace Vicut

inductive MK where
  | to (p : Nat) | on (p : Nat) | onto (p : Nat)
  | inclusive (s e : Nat) | exclusive (s e : Nat)
  | line (n : Nat) | lineRange (a b : Nat) | lineOffset (k : Int)
  | blockRange (ws : List (Nat × Nat))
  | inclTarget (s e c : Nat) | exclTarget (s e c : Nat)
  | lines (l : List Nat) | null
  deriving Repr, BEq, DecidableEq

inductive RegContent where
  | span (s : Str) | line (s : Str) | block (ls : List Str) | empty
  deriving Repr, BEq, DecidableEq

/-- Register bank: unnamed (`none`) and `a`..`z`; absent entry = `Span("")` (Register::new). -/
abbrev Regs := List (Option Char × RegContent)

def Regs.get (r : Regs) (n : Option Char) : RegContent :=
  ((r.find? (fun e => e.1 == n)).map Prod.snd).getD (.span [])

def Regs.set (r : Regs) (n : Option Char) (c : RegContent) : Regs :=
  (n, c) :: r.filter (fun e => !(e.1 == n))

/-- `RegisterName`: which register and whether to append (an upper-case name). -/
structure RegName where
  name : Option Char := none
  append : Bool := false
  deriving Repr, BEq, DecidableEq

/-- Valid register names: unnamed or a lower-case ASCII letter (`get_reg_mut` returns `None` otherwise). -/
def RegName.valid (r : RegName) : Bool :=
  match r.name with
  | none => true
  | some c => 'a' ≤ c ∧ c ≤ 'z'

/-- `Register::append` -/
def regAppend (old new : RegContent) : RegContent :=
  match new with
  | .empty => old
  | .span s =>
    match old with
    | .empty => .span s
    | .span o => .span (o ++ s)
    | .line o => .line (o ++ s)
    | .block _ => .span s
  | .line s =>
    match old with
    | .empty => .line s
    | .span o => .span (o ++ s)
    | .line o => .line (o ++ s)
    | .block _ => .line s
  | .block v =>
    match old with
    | .block o => .block (o ++ v)
    | _ => .block v

/-- `RegisterName::write_to_register` -/
def writeReg (regs : Regs) (r : RegName) (c : RegContent) : Regs :=
  if !r.valid then regs
  else if r.append then regs.set r.name (regAppend (regs.get r.name) c)
  else regs.set r.name c

structure LB where
  gs : List Gr
  cur : Nat
  excl : Bool
  deriving Repr, BEq, DecidableEq

def LB.max (lb : LB) : Nat := lb.gs.length

/-- `cursor_line_number()`: newlines in the text before the cursor. -/
def cursorLine (lb : LB) : Nat := ((lb.gs.take lb.cur).flatten.count '\n')

/-- `this_line()` (panics in the Rust if `line_bounds` is `None`; cannot happen for the cursor line). -/
def thisLine (lb : LB) : Option (Nat × Nat) := lineBounds lb.gs (cursorLine lb)

def ordered (a b : Nat) : Nat × Nat := if a > b then (b, a) else (a, b)

def isNlAtGs (gs : List Gr) (i : Nat) : Bool := match gs[i]? with | some g => isNl g | none => false

/-- the grapheme at `i` ends a line: a terminator, or nothing there at all -/
def endsLineAt (gs : List Gr) (i : Nat) : Bool := match gs[i]? with | none => true | some g => isNl g


/-- `stop_before_terminator` (fix f9149ef): a forward motion that ends at the start of a later line, or runs
into the end of the buffer, takes the text up to the end of the line before, not that line's terminator. -/
def stopBeforeTerminator (gs : List Gr) (s e : Nat) : Nat × Nat :=
  -- the terminator of the last line is never taken, even on an empty line (fix 0954d9e)
  if decide (e > s) && isNlAtGs gs (e - 1) && (decide (e > s + 1) || e == gs.length) then (s, e - 1) else (s, e)

/-- `range_from_motion` -/
def rangeFromMotion (lb : LB) : MK → Option (Nat × Nat)
  | .blockRange _ => none
  | .lineOffset k =>
    match thisLine lb with
    | none => none
    | some (s, e) =>
      let cl := cursorLine lb
      let tl := if k < 0 then cl - k.natAbs else cl + k.toNat
      if tl < cl then (lineBounds lb.gs tl).map (fun b => (b.1, e))
      else if tl > cl then (lineBounds lb.gs tl).map (fun b => (s, b.2))
      else some (s, e)
  | .on p =>
    if p > lb.cur then some (stopBeforeTerminator lb.gs (ordered lb.cur p).1 (ordered lb.cur p).2)
    else some (ordered lb.cur p)
  | .onto p =>
    if min p lb.max > lb.cur then
      some (stopBeforeTerminator lb.gs (ordered lb.cur (min (min p lb.max + 1) lb.max)).1 (ordered lb.cur (min (min p lb.max + 1) lb.max)).2)
    else some (ordered lb.cur (min p lb.max))
  | .line n => lineBounds lb.gs n
  | .lineRange a b =>
    match lineBounds lb.gs a, lineBounds lb.gs b with
    | some x, some y => some (x.1, y.2)
    | _, _ => none
  | .to p =>
    let p' := if p < lb.cur then p + 1 else if p > lb.cur then p - 1 else p
    some (ordered lb.cur p')
  | .inclTarget s e _ => some (ordered s e)
  | .exclusive s e => some (ordered s e)
  | .exclTarget s e _ => some ((ordered s e).1, min ((ordered s e).2 + 1) lb.max)
  | .inclusive s e => some ((ordered s e).1, min ((ordered s e).2 + 1) lb.max)
  | .lines _ => none
  | .null => none

inductive VErr where
  | panic (site : String)
  deriving Repr, BEq, DecidableEq

/-- `drain(start,end)`: removed text and remaining graphemes. The range is clamped to the text first
(since fix ccfba48; before, indices past the table or a reversed range panicked). -/
def drainGs (gs : List Gr) (s e : Nat) : Except VErr (Str × List Gr) :=
  .ok (((gs.drop (min s (min e gs.length))).take (min e gs.length - min s (min e gs.length))).flatten,
       gs.take (min s (min e gs.length)) ++ gs.drop (min e gs.length))

/-- `slice(s..e)` as used for yanks: `""` when the indices are not sliceable. -/
def sliceOr (gs : List Gr) (s e : Nat) : Str := (sliceGs gs s e).getD []

def drainWindows : List (Nat × Nat) → List Gr → Except VErr (List Str × List Gr)
  | [], gs => .ok ([], gs)
  | w :: ws, gs =>
    match drainGs gs w.1 w.2 with
    | .error e => .error e
    | .ok (t, gs') =>
      match drainWindows ws gs' with
      | .error e => .error e
      | .ok (ls, g2) => .ok (t :: ls, g2)

inductive OpK where | delete | change | yank
  deriving Repr, BEq, DecidableEq

def OpK.drains : OpK → Bool | .yank => false | _ => true
def OpK.isDelete : OpK → Bool | .delete => true | _ => false
def OpK.isChange : OpK → Bool | .change => true | _ => false

def isBlankGr (g : Gr) : Bool := g == [' '] || g == ['\t']
def isBlankAt (gs : List Gr) (i : Nat) : Bool := match gs[i]? with | some g => isBlankGr g | none => false

/-- `while line_start > 0 && is_blank(line_start - 1) { line_start -= 1 }` -/
def blanksBack (gs : List Gr) : Nat → Nat
  | 0 => 0
  | i + 1 => if isBlankAt gs i then blanksBack gs i else i + 1

/-- `while is_blank(line_end) { line_end += 1 }` (fuel = graphemes left) -/
def blanksFwd (gs : List Gr) : Nat → Nat → Nat
  | 0, i => i
  | f + 1, i => if isBlankAt gs i then blanksFwd gs f (i + 1) else i

def MK.linewise : MK → Bool
  | .inclTarget _ _ _ => true
  | .lineOffset _ => true
  | _ => false

def MK.forwardFrom (cur : Nat) : MK → Bool
  | .on p => p > cur
  | .onto p => p > cur
  | _ => false

/-- `'cc'` empties the line, it does not remove it: a linewise change leaves the last terminator. -/
def changeEnd (op : OpK) (lw : Bool) (gs : List Gr) (s e : Nat) : Nat :=
  if lw && op.isChange && e > s && isNlAtGs gs (e - 1) then e - 1 else e

def promotable (gs : List Gr) (ls le : Nat) : Bool := (ls == 0 || isNlAtGs gs (ls - 1)) && endsLineAt gs le

/-- Promotion of a delete to whole lines: blanks before the start up to the line start, blanks after the
end and the terminator that follows them. -/
def promoteLines (gs : List Gr) (s e : Nat) (lw : Bool) : Nat × Nat × Bool :=
  if promotable gs (blanksBack gs s) (blanksFwd gs (gs.length - e + 1) e) then
    (blanksBack gs s, min (blanksFwd gs (gs.length - e + 1) e + 1) gs.length, true)
  else (s, e, lw)

def spansLines (gs : List Gr) (s e : Nat) : Bool := (List.range (e - s)).any (fun k => isNlAtGs gs (s + k))

/-- `operator_range` (fixes 0cdfd90, f9149ef): the span a delete, change or yank takes, and whether it is
taken as whole lines. A forward delete over several lines that starts in the indent of its line and leaves
only blanks at its end is promoted to whole lines. -/
def operatorRange (op : OpK) (lb : LB) (mk : MK) : Option (Nat × Nat × Bool) :=
  match rangeFromMotion lb mk with
  | none => none
  | some (s, e0) =>
    if mk.forwardFrom lb.cur && op.isDelete && spansLines lb.gs s (changeEnd op mk.linewise lb.gs s e0) then
      some (promoteLines lb.gs s (changeEnd op mk.linewise lb.gs s e0) mk.linewise)
    else some (s, changeEnd op mk.linewise lb.gs s e0, mk.linewise)

/-- `get_register_content`: register content and the graphemes left in the buffer. -/
def getRegisterContent (op : OpK) (lb : LB) (mk : MK) : Except VErr (RegContent × List Gr) :=
  match mk with
  | .blockRange ws =>
    if op.drains then
      -- windows are drained last-to-first and collected in that order
      (drainWindows ws.reverse lb.gs).map (fun r => (.block r.1, r.2))
    else .ok (.block (ws.map (fun w => sliceOr lb.gs w.1 w.2)), lb.gs)
  | .line n =>
    match lineBounds lb.gs n with
    | none => .ok (.empty, lb.gs)
    | some (s, e) =>
      if op.drains then (drainGs lb.gs s e).map (fun r => (.line r.1, r.2))
      else .ok (.line (sliceOr lb.gs s e), lb.gs)
  | .lineRange a b =>
    match lineBounds lb.gs a, lineBounds lb.gs b with
    | some x, some y =>
      -- changing whole lines leaves one emptied line to type into (fix 377b03c)
      if op.drains then (drainGs lb.gs x.1 (changeEnd op true lb.gs x.1 y.2)).map (fun r => (.line r.1, r.2))
      else .ok (.line (sliceOr lb.gs x.1 y.2), lb.gs)
    | _, _ => .ok (.empty, lb.gs)
  | _ =>
    match operatorRange op lb mk with
    | none => .ok (.empty, lb.gs)
    | some (s, e, lw) =>
      if op.drains then (drainGs lb.gs s e).map (fun r => (if lw then .line r.1 else .span r.1, r.2))
      else .ok (if lw then .line (sliceOr lb.gs s e) else .span (sliceOr lb.gs s e), lb.gs)

/-! ### Character-level operators -/

def isAsciiLower (c : Char) : Bool := 'a' ≤ c ∧ c ≤ 'z'
def isAsciiUpper (c : Char) : Bool := 'A' ≤ c ∧ c ≤ 'Z'
def toAsciiUpper (c : Char) : Char := if isAsciiLower c then Char.ofNat (c.toNat - 32) else c
def toAsciiLower (c : Char) : Char := if isAsciiUpper c then Char.ofNat (c.toNat + 32) else c

inductive CaseOp where | toggle | lower | upper
  deriving Repr, BEq, DecidableEq

/-- What a case verb does to one grapheme: only single-byte graphemes are touched (`gr.len() > 1`
skips), and of those only ASCII letters change (`is_alphabetic` admits no other single byte). -/
def caseGr (op : CaseOp) (g : Gr) : Gr :=
  match g with
  | [c] =>
    if c.toNat < 128 then
      match op with
      | .toggle => if isAsciiLower c then [toAsciiUpper c] else [toAsciiLower c]
      | .lower => [toAsciiLower c]
      | .upper => [toAsciiUpper c]
    else g
  | _ => g

def mapRangeGs (f : Gr → Gr) (s e : Nat) (gs : List Gr) : List Gr :=
  (List.range gs.length).zip gs |>.map (fun (i, g) => if s ≤ i ∧ i < e then f g else g)

def rot13Char (c : Char) : Char :=
  if isAsciiLower c then Char.ofNat ((c.toNat - 97 + 13) % 26 + 97)
  else if isAsciiUpper c then Char.ofNat ((c.toNat - 65 + 13) % 26 + 65)
  else c

def isAsciiLetterGr (g : Gr) : Bool :=
  match g with
  | [c] => isAsciiLower c || isAsciiUpper c
  | _ => false

/-- one step of `~`: an ASCII letter has its case switched, anything else is passed over -/
def toggleAt (gs : List Gr) (pos : Nat) (g : Gr) : List Gr :=
  if isAsciiLetterGr g then gs.set pos (caseGr .toggle g) else gs

/-- `~` with a count (fix 6db7650): goes over `count` graphemes of the cursor line, switching the case of
the ASCII letters among them; it stops at the count, on a line terminator, or when the next grapheme is a
terminator or the end of the text. The grapheme count never changes. -/
def toggleInplaceGo : Nat → Nat → List Gr → List Gr
  | 0, _, gs => gs
  | k + 1, pos, gs =>
    match gs[pos]? with
    | none => gs
    | some g =>
      if isNl g then gs
      else if k = 0 || endsLineAt gs (pos + 1) then toggleAt gs pos g
      else toggleInplaceGo k (pos + 1) (toggleAt gs pos g)

/-- `replace_at(pos, c)` on graphemes: past the end pushes, a newline is pushed forward. -/
def replaceAtGs (gs : List Gr) (pos : Nat) (c : Char) : List Gr :=
  match gs[pos]? with
  | none => gs ++ [[c]]
  | some g => if isNl g then gs.take pos ++ [[c]] ++ gs.drop pos else gs.set pos [c]

/-- `r<c>` with a count (ReplaceCharInplace): the clamp's upper bound follows the grapheme count. -/
def replaceInplaceGo (excl : Bool) (c : Char) : Nat → Nat → List Gr → List Gr
  | 0, _, gs => gs
  | k + 1, pos, gs =>
    if k = 0 ∨ pos = (if excl then (replaceAtGs gs pos c).length - 1 else (replaceAtGs gs pos c).length)
    then replaceAtGs gs pos c
    else replaceInplaceGo excl c k (pos + 1) (replaceAtGs gs pos c)

/-- graphemes from `pos` to the end of its line (`left_on_line` in ReplaceCharInplace) -/
def leftOnLine (gs : List Gr) : Nat → Nat → Nat
  | 0, _ => 0
  | f + 1, i => match gs[i]? with
    | none => 0
    | some g => if isNl g then 0 else leftOnLine gs f (i + 1) + 1

/-- where a charwise `p`/`P` inserts -/
def putIdx (lb : LB) (after : Bool) : Nat := if after && !(endsLineAt lb.gs lb.cur) then lb.cur + 1 else lb.cur

/-- The verbs of C08 (those that act on a span of the text or on a register). -/
inductive VerbK where
  | delete | change | yank
  | caseRange (op : CaseOp)     -- g~ gu gU
  | rot13                        -- g?
  | putSpan (after : Bool)      -- p / P with a charwise register and a non-line motion
  | insertChar (c : Char)
  | replaceChar (c : Char)      -- R-mode typing and visual r
  | openLine (after : Bool)     -- o / O: the line break they add (InsertModeLineBreak)
  | joinLines (count : Nat)     -- [N]J
  | toggleInplace (count : Nat) -- ~
  | replaceInplace (c : Char) (count : Nat) -- r<c>
  deriving Repr, BEq, DecidableEq

/-- New text (as graphemes where segmentation is untouched, else as the raw char list to be
re-segmented) and registers after the verb. `none` text = unchanged. -/
structure VOut where
  text : Str
  regs : Regs
  deriving Repr, BEq, DecidableEq

/-- Where `o` / `O` put their line break (fix 1a27068): `O` on the first line at the very start, `o` on a
single unterminated line at the very end, otherwise after the terminator of the cursor line (`o`) or on the
terminator of the line before (`O`); `ub` is the cursor's upper bound. -/
def openLineIdx (after : Bool) (lb : LB) : Nat :=
  match thisLine lb with
  | none => lb.cur
  | some (st, en) =>
    if st == 0 && !after then 0
    else if st == 0 && en == lb.max && !(lb.gs.flatten.getLast? == some '\n') then lb.max
    else if after then min en (if lb.excl then lb.max - 1 else lb.max)
    else min (min (st - 1) lb.max) (if lb.excl then lb.max - 1 else lb.max)

/-- One `J` (fix 708f7e5): the line break of the cursor line and the blanks that lead the next line are
replaced by one space — by nothing when either line is empty, when the line already ends with a blank or
the next one starts with `)` — and the cursor goes to where the lines were joined. `none` = no line below. -/
def joinOnce (lb : LB) : Option LB :=
  match thisLine lb with
  | none => none
  | some (st, en) =>
    if en == 0 || en ≥ lb.max || !isNlAtGs lb.gs (en - 1) then none
    else
      (fun nextStart =>
        (fun addSpace =>
          some ⟨lb.gs.take (en - 1) ++ (if addSpace then [[' ']] else []) ++ lb.gs.drop nextStart, en - 1, lb.excl⟩)
        (!endsLineAt lb.gs nextStart && !(en - 1 == st) && !(isBlankAt lb.gs (en - 2)) && !(lb.gs[nextStart]? == some [')'])))
      (blanksFwd lb.gs (lb.gs.length - en + 1) en)

/-- `[N]J`: N - 1 joins (at least one), each from where the last one left the cursor; stops when there is no
line below. -/
def joinLines (lb : LB) : Nat → LB
  | 0 => lb
  | k + 1 => match joinOnce lb with | none => lb | some lb' => joinLines lb' k

def MK.isNull : MK → Bool | .null => true | _ => false

def VerbK.takesText : VerbK → Bool | .delete => true | .change => true | .yank => true | _ => false

def execVerbText (v : VerbK) (mk : MK) (reg : RegName) (lb : LB) (regs : Regs) : Except VErr VOut :=
  -- a delete, change or yank whose motion failed takes nothing and leaves the register alone (fix 1ed8bc1)
  match v with
  | .delete =>
    if mk.isNull then .ok ⟨lb.gs.flatten, regs⟩
    else (getRegisterContent .delete lb mk).map (fun r => ⟨r.2.flatten, writeReg regs reg r.1⟩)
  | .change =>
    if mk.isNull then .ok ⟨lb.gs.flatten, regs⟩
    else (getRegisterContent .change lb mk).map (fun r => ⟨r.2.flatten, writeReg regs reg r.1⟩)
  | .yank =>
    if mk.isNull then .ok ⟨lb.gs.flatten, regs⟩
    else (getRegisterContent .yank lb mk).map (fun r => ⟨lb.gs.flatten, writeReg regs reg r.1⟩)
  | .caseRange op =>
    match rangeFromMotion lb mk with
    | none => .ok ⟨lb.gs.flatten, regs⟩
    | some (s, e) => .ok ⟨(mapRangeGs (caseGr op) s e lb.gs).flatten, regs⟩
  | .rot13 =>
    match rangeFromMotion lb mk with
    | none => .ok ⟨lb.gs.flatten, regs⟩
    | some (s, e) =>
      -- `slice(start..end).unwrap_or_default()` rotated, then replace_range(start, end, ..)
      let mid := (sliceOr lb.gs s e).map rot13Char
      let sb := min s lb.gs.length
      let eb := if e < lb.gs.length then e else lb.gs.length
      if sb > eb then .error (.panic "replace_range: start after end")
      else .ok ⟨(lb.gs.take sb).flatten ++ mid ++ (lb.gs.drop eb).flatten, regs⟩
  | .putSpan after =>
    if !reg.valid then .ok ⟨lb.gs.flatten, regs⟩
    else
      match regs.get reg.name with
      | .span t =>
        -- fix 67f7513: on an empty line or in an empty buffer there is nothing to put the text after;
        -- an empty register changes nothing
        .ok ⟨(lb.gs.take (putIdx lb after)).flatten ++ t ++ (lb.gs.drop (putIdx lb after)).flatten, regs⟩
      | _ => .error (.panic "putSpan: not a charwise register (not modelled here)")
  | .insertChar c =>
    .ok ⟨(lb.gs.take lb.cur).flatten ++ [c] ++ (lb.gs.drop lb.cur).flatten, regs⟩
  | .replaceChar c =>
    match lb.gs[lb.cur]? with
    | none => .ok ⟨lb.gs.flatten ++ [c], regs⟩
    | some g =>
      if isNl g then .ok ⟨(lb.gs.take lb.cur).flatten ++ [c] ++ (lb.gs.drop lb.cur).flatten, regs⟩
      else .ok ⟨(lb.gs.take lb.cur).flatten ++ [c] ++ (lb.gs.drop (lb.cur + 1)).flatten, regs⟩

  | .openLine after =>
    .ok ⟨(lb.gs.take (openLineIdx after lb)).flatten ++ ['\n'] ++ (lb.gs.drop (openLineIdx after lb)).flatten, regs⟩
  | .joinLines n =>
    .ok ⟨(joinLines lb (max (n - 1) 1)).gs.flatten, regs⟩
  | .toggleInplace n =>
    .ok ⟨(toggleInplaceGo n lb.cur lb.gs).flatten, regs⟩
  | .replaceInplace c n =>
    -- fix 6db7650: all `n` characters are on the cursor line, or nothing is replaced
    if n > leftOnLine lb.gs (lb.gs.length - lb.cur) lb.cur then .ok ⟨lb.gs.flatten, regs⟩
    else .ok ⟨(replaceInplaceGo lb.excl c n lb.cur lb.gs).flatten, regs⟩

end Vicut
