/-
Model of the in-place drivers (src/main.rs: execute_multi_thread_files,
execute_multi_thread_files_linewise, exec_files / exec_linewise serial branches, write_back_files)
as plans over an abstract file system. What a file's processing yields (`execute` + `format_output`,
or an abort) is a parameter; so are read failures.
-/
import Vicut.Model.Format

namespace Vicut

abbrev Path := Str

/-- A file system: association list, first entry for a path wins. -/
abbrev FS := List (Path × Str)

def FS.get (fs : FS) (p : Path) : Option Str := (fs.find? (fun e => e.1 == p)).map Prod.snd

def FS.set : FS → Path → Str → FS
  | [], p, c => [(p, c)]
  | (q, d) :: rest, p, c => if q == p then (q, c) :: rest else (q, d) :: FS.set rest p c

/-- `path.with_extension(format!("{}.{bak}", path.extension().unwrap_or("")))` on the file name:
`a.txt ↦ a.txt.bak`, `b ↦ b..bak`, `.hid ↦ .hid..bak`, `c.tar.gz ↦ c.tar.gz.bak`. -/
def splitDir (p : Path) : Path × Str :=
  let r := p.reverse
  let name := (r.takeWhile (· ≠ '/')).reverse
  let dir := (r.dropWhile (· ≠ '/')).reverse
  (dir, name)

/-- `Path::extension` is `Some` iff the file name has a dot that is not its first character. -/
def hasExtension (name : Str) : Bool :=
  match name with
  | [] => false
  | _ :: rest => rest.contains '.'

def backupPath (bak : Str) (p : Path) : Path :=
  let (dir, name) := splitDir p
  if hasExtension name then dir ++ name ++ ['.'] ++ bak
  else dir ++ name ++ ['.', '.'] ++ bak

/-- Outcome of reading and processing one file: its rendered output, or an abort
(unreadable / invalid UTF-8 / `complain_and_exit` inside execute or format_output). -/
abbrev Process := Path → Str → Option Str

structure RunResult where
  fs : FS
  exit : Nat
  deriving Repr, BEq, DecidableEq

/-- Phase 1+2 of every `-i` driver: read and process all files; the first failure aborts. -/
def processAll (proc : Process) (fs : FS) : List Path → Option (List (Path × Str))
  | [] => some []
  | p :: ps =>
    match fs.get p with
    | none => none
    | some content =>
      match proc p content with
      | none => none
      | some out =>
        match processAll proc fs ps with
        | none => none
        | some rest => some ((p, out) :: rest)

/-- `write_back_files` / the write loops: optional backup copy, then overwrite. -/
def writeBack (backup : Option Str) : FS → List (Path × Str) → FS
  | fs, [] => fs
  | fs, (p, out) :: rest =>
    let fs1 := match backup, fs.get p with
      | some bak, some orig => fs.set (backupPath bak p) orig
      | _, _ => fs
    writeBack backup (fs1.set p out) rest

/-- `vicut -i … FILES` (all four modes after the all-or-nothing fixes). -/
def runInplace (proc : Process) (backup : Option Str) (files : List Path) (fs : FS) : RunResult :=
  match processAll proc fs files with
  | none => ⟨fs, 1⟩
  | some outs => ⟨writeBack backup fs outs, 0⟩

/-- The serial drivers as they were before the fix: read, process and write file by file. -/
def runInplaceSerialLegacy (proc : Process) (backup : Option Str) : List Path → FS → RunResult
  | [], fs => ⟨fs, 0⟩
  | p :: ps, fs =>
    match fs.get p with
    | none => ⟨fs, 1⟩
    | some content =>
      match proc p content with
      | none => ⟨fs, 1⟩
      | some out => runInplaceSerialLegacy proc backup ps (writeBack backup fs [(p, out)])

end Vicut
