/-
L0 text geometry (src/linebuf.rs): the buffer as a list of grapheme clusters, line structure
(`total_lines`, `line_bounds`), slices, and the line-oriented reference view used as specification.
Segmentation itself (unicode-segmentation) is not modelled: a buffer *is* its list of graphemes.
-/
import Vicut.Model.Format

namespace Vicut

/-- One grapheme cluster (non-empty list of chars). -/
abbrev Gr := Str

def isNl (g : Gr) : Bool := g == ['\n']

/-- `total_lines()`: number of '\n' *characters* in the buffer, plus one. -/
def totalLines (gs : List Gr) : Nat := (gs.flatten.count '\n') + 1

/-- `last_line_number()`: zero-based number of the last line (a final newline does not start a line). -/
def lastLineNumber (gs : List Gr) : Nat :=
  if totalLines gs > 1 ∧ gs.flatten.getLast? = some '\n' then totalLines gs - 2 else totalLines gs - 1

/-- Scan graphemes starting at absolute index `pos` for the first newline grapheme:
index just after it, and what follows. (`while let Some(idx) = idx_iter.next()` in `line_bounds`.) -/
def afterNl : List Gr → Nat → Option (Nat × List Gr)
  | [], _ => none
  | g :: rest, pos => if isNl g then some (pos + 1, rest) else afterNl rest (pos + 1)

/-- The two loops of `line_bounds`: `n` = lines still to skip, `gs` = what the index iterator has not
consumed yet (starting at `pos`), `start` = last line start found. -/
def lineBoundsAux (max : Nat) : Nat → List Gr → Nat → Nat → Nat × Nat
  | 0, gs, pos, start =>
    match afterNl gs pos with
    | some (e, _) => (start, min e max)
    | none => (start, max)
  | n + 1, gs, pos, start =>
    match afterNl gs pos with
    | some (e, rest) => lineBoundsAux max n rest e (min e max)
    | none => (start, max)      -- iterator exhausted: the remaining scans find nothing

/-- `LineBuf::line_bounds(n)` (grapheme indices, end exclusive, terminator included). -/
def lineBounds (gs : List Gr) (n : Nat) : Option (Nat × Nat) :=
  if n > totalLines gs then none else some (lineBoundsAux gs.length n gs 0 0)

/-- `slice(start..end)` as text; `none` like the Rust when `start` is not a valid grapheme index. -/
def sliceText (gs : List Gr) (s e : Nat) : Option Str :=
  if s < gs.length ∧ e ≤ gs.length then some (((gs.drop s).take (e - s)).flatten) else none

def stripNl (s : Str) : Str := if s.getLast? = some '\n' then s.dropLast else s

/-- Does the `Global`/`NotGlobal` loop keep line number `i`? (after fix: terminator stripped before
matching, position after a final newline skipped) -/
def globalKeep (isMatch : Str → Bool) (pol : Bool) (gs : List Gr) (i : Nat) : Bool :=
  match lineBounds gs i with
  | none => false
  | some (s, e) =>
    if i > 0 ∧ s ≥ gs.length then false
    else (isMatch (stripNl ((sliceText gs s e).getD [])) == pol)

/-- `eval_motion(Global/NotGlobal(1,$), pattern)`: the kept line numbers, last first. -/
def globalLines (isMatch : Str → Bool) (pol : Bool) (gs : List Gr) : List Nat :=
  ((List.range (totalLines gs)).filter (globalKeep isMatch pol gs)).reverse

/-! ### Reference view: the buffer as lines -/

/-- Pieces of `gs` cut after every newline grapheme (terminators kept) — `getLines` on graphemes. -/
def glinesAux : List Gr → List Gr → List (List Gr)
  | [], cur => if cur.isEmpty then [] else [cur]
  | g :: rest, cur => if isNl g then (cur ++ [g]) :: glinesAux rest [] else glinesAux rest (cur ++ [g])

def glines (gs : List Gr) : List (List Gr) := glinesAux gs []

/-- The lines of a buffer as a user sees them: an empty buffer is one empty line; a final newline
terminates the last line and does not start another one. Each line with its text (no terminator). -/
def refLines (gs : List Gr) : List Str :=
  match glines gs with
  | [] => [[]]
  | ls => ls.map (fun l => stripNl l.flatten)

end Vicut
