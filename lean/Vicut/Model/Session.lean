/-
L3: how the driver feeds key arguments to the editor (src/main.rs execute(): one `-m`/`-c` argument =
load_bytes (queue replaced) + exec_loop (every key, then auto-submit of pending Ex/Search text) +
set_normal_mode unless --keep-mode). The per-key transition is a parameter.
-/
namespace Vicut

structure KeySys (σ κ : Type) where
  /-- one key through `handle_key` + `exec_cmd` -/
  step : σ → κ → σ
  /-- the end of `exec_loop`: pending Ex/Search text is submitted as if <CR> had been typed -/
  flush : σ → σ
  /-- `set_normal_mode` -/
  reset : σ → σ

variable {σ κ : Type}

def KeySys.keys (S : KeySys σ κ) (s : σ) (ks : List κ) : σ := ks.foldl S.step s

/-- One key argument. -/
def KeySys.runArg (S : KeySys σ κ) (keep : Bool) (s : σ) (ks : List κ) : σ :=
  if keep then S.flush (S.keys s ks) else S.reset (S.flush (S.keys s ks))

/-- A list of key arguments, one after the other. -/
def KeySys.runArgs (S : KeySys σ κ) (keep : Bool) (s : σ) (args : List (List κ)) : σ :=
  args.foldl (S.runArg keep) s

/-- Nothing is open: the end-of-argument housekeeping changes nothing. -/
def KeySys.Settled (S : KeySys σ κ) (s : σ) : Prop := S.flush s = s ∧ S.reset s = s

/-- A complete command: from a settled state its keys lead to a settled state. -/
def KeySys.Complete (S : KeySys σ κ) (c : List κ) : Prop := ∀ s, S.Settled s → S.Settled (S.keys s c)

end Vicut
