/-
Model of the undo machinery (src/linebuf.rs): `handle_edit` (push / merge insert runs), `Verb::Undo`,
`Verb::Redo` (after fix 307c7cf: restore the snapshot) and the bookkeeping in `LineBuf::exec_cmd`
(clear_redos, stop_merge / start_merge). What a command does to the text is an input: the machine only
sees the text after it and which class of verb it was.
-/
import Vicut.Model.Format

namespace Vicut

/-- The part of `struct Edit` the machine depends on (`old`/`new` are whole-buffer snapshots). -/
structure UEdit where
  old : Str
  new : Str
  merging : Bool := false
  deriving Repr, BEq, DecidableEq

structure UState where
  text : Str
  undo : List UEdit := []      -- head = top of `undo_stack`
  redo : List UEdit := []      -- head = top of `redo_stack`
  deriving Repr, BEq, DecidableEq

/-- One `LineBuf::exec_cmd`, as the undo machinery sees it. -/
inductive UOp where
  | cmd (charInsert : Bool) (after : Str)   -- any non-undo command; `after` = buffer when it is done
  | undo
  | redo
  deriving Repr, BEq, DecidableEq

def stopMergeTop : List UEdit → List UEdit
  | [] => []
  | e :: rest => { e with merging := false } :: rest

def startMergeTop : List UEdit → List UEdit
  | [] => []
  | e :: rest => { e with merging := true } :: rest

/-- `handle_edit(old, new, _)`; called only when `old ≠ new`. -/
def handleEdit (undo : List UEdit) (old new : Str) : List UEdit :=
  match undo with
  | e :: rest =>
    if e.merging then
      if old.isEmpty && new.isEmpty then e :: rest      -- `diff.is_empty()`
      else { e with new := new } :: rest               -- merge into the open insert run
    else
      if old.isEmpty && new.isEmpty then e :: rest else { old := old, new := new } :: e :: rest
  | [] => if old.isEmpty && new.isEmpty then [] else [{ old := old, new := new }]

/-- The undo stack after a non-undo command that left the buffer as `after`. -/
def cmdUndo (charInsert : Bool) (undo : List UEdit) (text after : Str) : List UEdit :=
  -- a merging run ends when the command is not a character insert
  let undo1 := if charInsert then undo else stopMergeTop undo
  let undo2 := if text = after then undo1 else handleEdit undo1 text after
  if charInsert then startMergeTop undo2 else undo2

def ustep (s : UState) : UOp → UState
  | .cmd charInsert after =>
    { text := after, undo := cmdUndo charInsert s.undo s.text after, redo := [] }   -- clear_redos
  | .undo =>
    match stopMergeTop s.undo with
    | [] => { s with undo := [] }
    | e :: rest => { text := e.old, undo := rest, redo := { old := e.new, new := e.old } :: s.redo }
  | .redo =>
    match s.redo with
    | [] => { s with undo := stopMergeTop s.undo }
    | e :: rest => { text := e.old, undo := { old := e.new, new := e.old } :: stopMergeTop s.undo, redo := rest }

def urun (s : UState) (ops : List UOp) : UState := ops.foldl ustep s

end Vicut
