/-
Line-oriented reference semantics for the ex commands of C16 (sed-like), and the model of vicut's
address evaluation (`eval_line_addr`, the Line / LineRange arms of `eval_motion`, after fixes
f32a1a0, 6b14b06 and the out-of-range fix).
A buffer is a list of *pieces*: each line with its terminator if it has one (`getLines`).
The regex engine is an input: `matchesOf line` = non-overlapping match ranges (char offsets) in a line.
-/
import Vicut.Model.Text

namespace Vicut

/-- One line of the buffer: its text and whether it is terminated by a newline. -/
structure Piece where
  text : Str
  nl : Bool
  deriving Repr, BEq, DecidableEq

def Piece.render (p : Piece) : Str := if p.nl then p.text ++ ['\n'] else p.text

def renderPieces (ps : List Piece) : Str := (ps.map Piece.render).flatten

inductive Addr where
  | num (n : Nat)        -- N (1-based; 0 means 1)
  | cur                  -- .
  | last                 -- $
  | off (k : Int)        -- +k / -k
  deriving Repr, BEq, DecidableEq

/-- `eval_line_addr` (0-based line number; may be past the end). `n` = number of lines, `cur` = current line. -/
def evalAddr (n cur : Nat) : Addr → Nat
  | .num k => k - 1
  | .cur => cur
  | .last => n - 1
  | .off k => if k < 0 then cur - k.natAbs else cur + k.toNat

/-- A single address: `none` when it names no existing line. -/
def resolveLine (n cur : Nat) (a : Addr) : Option Nat :=
  if evalAddr n cur a < n then some (evalAddr n cur a) else none

/-- A range `a,b`: ordered, clipped to the existing lines; `none` when it lies entirely past the end. -/
def resolveRange (n cur : Nat) (a b : Addr) : Option (Nat × Nat) :=
  let s := min (evalAddr n cur a) (evalAddr n cur b)
  let e := max (evalAddr n cur a) (evalAddr n cur b)
  if s < n then some (s, min e (n - 1)) else none

/-- Replace the given (ascending, non-overlapping) char ranges of a line by `rep`, right to left. -/
def replaceRanges (line rep : Str) : List (Nat × Nat) → Str
  | [] => line
  | (s, e) :: rest => (replaceRanges line rep rest).take s ++ rep ++ (replaceRanges line rep rest).drop e

/-- `s/pat/rep/[g]` on one line: `ms` = its match ranges; without `g` only the first is replaced. -/
def substLine (rep : Str) (global : Bool) (ms : List (Nat × Nat)) (line : Str) : Str :=
  if global then replaceRanges line rep ms
  else match ms with
    | [] => line
    | m :: _ => replaceRanges line rep [m]

/-- Apply `f` to the text of the pieces `s ..= e`, leave the others alone. -/
def mapRange (f : Str → Str) (s e : Nat) (ps : List Piece) : List Piece :=
  (List.range ps.length).zip ps |>.map (fun (i, p) => if s ≤ i ∧ i ≤ e then { p with text := f p.text } else p)

/-- `:[range]s/pat/rep/[g]` -/
def refSubst (matchesOf : Str → List (Nat × Nat)) (rep : Str) (global : Bool) (s e : Nat) (ps : List Piece) : List Piece :=
  mapRange (fun t => substLine rep global (matchesOf t) t) s e ps

/-- `:[range]d` -/
def refDelete (s e : Nat) (ps : List Piece) : List Piece :=
  ps.take s ++ ps.drop (e + 1)

/-- `:[range]y` : the text of the addressed lines, terminators included. -/
def refYank (s e : Nat) (ps : List Piece) : Str := renderPieces ((ps.drop s).take (e + 1 - s))

/-- `:g/pat/d` and `:g!/pat/d`: delete the lines of `s ..= e` whose text matches (== pol). -/
def refGlobalDelete (isMatch : Str → Bool) (pol : Bool) (s e : Nat) (ps : List Piece) : List Piece :=
  ((List.range ps.length).zip ps).filterMap (fun (i, p) =>
    if s ≤ i ∧ i ≤ e ∧ (isMatch p.text == pol) then none else some p)

/-- `:g/pat/s/…/…/[g]`: substitute on the lines of `s ..= e` whose text matches (== pol). -/
def refGlobalSubst (isMatch : Str → Bool) (pol : Bool) (matchesOf : Str → List (Nat × Nat)) (rep : Str) (global : Bool)
    (s e : Nat) (ps : List Piece) : List Piece :=
  (List.range ps.length).zip ps |>.map (fun (i, p) =>
    if s ≤ i ∧ i ≤ e ∧ (isMatch p.text == pol) then { p with text := substLine rep global (matchesOf p.text) p.text } else p)

end Vicut
