/-
Model of the command driver (src/main.rs): the `Cmd` tree of the flag language, `exec_cmd` for
the flags -c, -m, -n, -r, -g, -v with the `ExecCtx` field bookkeeping, and the tail of `execute()`.
The editor (`ViCut::read_field`, `set_normal_mode`, the `Global` motion, `line_bounds`) is a
*parameter*: every theorem about this layer holds for any editor.
-/
import Vicut.Model.Format

namespace Vicut

/-- The flag-language subset of `enum Cmd` (main.rs:68). `els`/`hasElse` = `else_cmds: Option<Vec<Cmd>>`. -/
inductive Cmd where
  | next                                             -- Cmd::BreakGroup
  | move (keys : Str)                                -- Cmd::Motion
  | cut (name : Option Str) (keys : Str)             -- Cmd::Field / Cmd::NamedField
  | rep (body : List Cmd) (count : Nat)              -- Cmd::Repeat { body, count }
  | glob (pat : Str) (pol : Bool) (thn : List Cmd) (hasElse : Bool) (els : List Cmd)
  deriving Repr, BEq, Inhabited

/-- What the driver needs from the editor. -/
structure Ed (σ : Type) where
  /-- `ViCut::read_field(keys)`: new editor state and the field, or the `Err` it printed. -/
  readField : Str → σ → σ × Except Str Str
  /-- `ViCut::set_normal_mode()` -/
  setNormal : σ → σ
  /-- `eval_motion(Global/NotGlobal(1,$), pattern)` → `MotionKind::Lines` (in the order returned). -/
  globalLines : Str → Bool → σ → List Nat
  /-- `line_bounds(line)` then `cursor.set(start)`; `none` = `continue`. -/
  gotoLine : Nat → σ → Option σ

/-- `ExecCtx` without the options. -/
structure Ctx where
  fieldNum : Nat := 0
  fields : Record := []
  fmtLines : Records := []
  deriving Repr, BEq

def natStr (n : Nat) : Str := (Nat.repr n).toList

def Ctx.breakGroup (c : Ctx) : Ctx :=
  { fieldNum := 0, fields := [], fmtLines := if c.fields.isEmpty then c.fmtLines else c.fmtLines ++ [c.fields] }

def Ctx.pushField (c : Ctx) (name : Option Str) (r : Except Str Str) : Ctx :=
  let n := c.fieldNum + 1
  match r with
  | .ok f => { c with fieldNum := n, fields := c.fields ++ [(name.getD (natStr n), f)] }
  | .error _ => { c with fieldNum := n }

def iter {α : Type} (f : α → α) : Nat → α → α
  | 0, a => a
  | n + 1, a => iter f n (f a)

variable {σ : Type}

def afterCmd (E : Ed σ) (keep : Bool) (st : σ × Ctx) : σ × Ctx :=
  if keep then st else (E.setNormal st.1, st.2)

mutual
/-- `exec_cmd` (main.rs:864) for the flag commands. -/
def execCmd (E : Ed σ) (keep : Bool) : Cmd → σ × Ctx → σ × Ctx
  | .next, st => (st.1, st.2.breakGroup)
  | .move k, st => ((E.readField k st.1).1, st.2)
  | .cut name k, st =>
    let r := E.readField k st.1
    (r.1, st.2.pushField name r.2)
  | .rep body n, st => iter (fun s => execSeq E keep body s) n st
  | .glob pat pol thn hasElse els, st =>
    let lines := E.globalLines pat pol st.1
    if lines.isEmpty then
      (if hasElse then execSeq E keep els st else st)
    else
      lines.foldl (fun s ln =>
        match E.gotoLine ln s.1 with
        | none => s
        | some e => execSeq E keep thn (e, s.2)) st
/-- A command list at top level, in a `-g` scope or in a `Repeat` body: `set_normal_mode` after
every command (unless `--keep-mode`). -/
def execSeq (E : Ed σ) (keep : Bool) : List Cmd → σ × Ctx → σ × Ctx
  | [], st => st
  | c :: cs, st => execSeq E keep cs (afterCmd E keep (execCmd E keep c st))
end

mutual
/-- `extracts_field` (main.rs): a `-c` directly in the list, looking through `Repeat`s. -/
def extractsField : Cmd → Bool
  | .cut _ _ => true
  | .rep body _ => extractsFieldL body
  | _ => false
def extractsFieldL : List Cmd → Bool
  | [] => false
  | c :: cs => extractsField c || extractsFieldL cs
end

mutual
/-- `has_pattern_search` (main.rs): some `-g`/`-v` scope extracts a field, looking through `Repeat`s. -/
def hasPatternSearch1 : Cmd → Bool
  | .glob _ _ thn _ _ => extractsFieldL thn
  | .rep body _ => hasPatternSearch body
  | _ => false
def hasPatternSearch : List Cmd → Bool
  | [] => false
  | c :: cs => hasPatternSearch1 c || hasPatternSearch cs
end

structure Flags where
  keepMode : Bool := false
  trimFields : Bool := false
  silent : Bool := false
  editInplace : Bool := false
  hasFiles : Bool := false
  deriving Repr, BEq

/-- `should_print_entire_buffer` (main.rs): no field-extracting scope and no field extracted.
(Before fix 7a73b90 it was also false whenever `-i` had files — see `Legacy.lean`.) -/
def shouldPrintEntireBuffer (_fl : Flags) (cmds : List Cmd) (noFields : Bool) : Bool :=
  !hasPatternSearch cmds && noFields

/-- `execute()` (main.rs:757): run the commands on a fresh editor, collect the records.
`buf` reads the final buffer out of the editor state. -/
def execute (E : Ed σ) (buf : σ → Str) (fl : Flags) (cmds : List Cmd) (s0 : σ) : Records :=
  let st := execSeq E fl.keepMode cmds (s0, {})
  let lines := if st.2.fields.isEmpty then st.2.fmtLines else st.2.fmtLines ++ [st.2.fields]
  if lines.isEmpty && fl.silent then []
  else
    let lines := if shouldPrintEntireBuffer fl cmds lines.isEmpty then lines ++ [[(['0'], buf st.1)]] else lines
    if fl.trimFields then trimFields lines else lines

end Vicut
