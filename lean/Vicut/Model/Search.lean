/-
Model of the search motions (src/linebuf.rs: `search_order`, eval_motion PatternSearch /
PatternSearchRev / NextMatch / PrevMatch, `find_index_for_byte_pos`) after fixes 93bc5a2 and 0df18c2.
The regex engine is an input: `starts` = byte offsets at which the pattern matches, ascending.
-/
import Vicut.Model.Text

namespace Vicut

/-- `search_order`: match starts in the order a search from the cursor visits them, and how many of
them lie in the search direction (are reached without wrapping). -/
def searchOrder (starts : List Nat) (cursor : Nat) (forward : Bool) : List Nat × Nat :=
  if forward then
    (starts.filter (fun s => decide (s > cursor)) ++ starts.filter (fun s => !decide (s > cursor)),
     (starts.filter (fun s => decide (s > cursor))).length)
  else
    ((starts.filter (fun s => decide (s < cursor))).reverse ++ (starts.filter (fun s => !decide (s < cursor))).reverse,
     (starts.filter (fun s => decide (s < cursor))).length)

/-- The byte offset a search with this count lands on (`none` = `MotionKind::Null`: nothing moves). -/
def searchTarget (starts : List Nat) (cursor : Nat) (forward : Bool) (count : Nat) : Option Nat :=
  if (searchOrder starts cursor forward).1.isEmpty then none
  else (searchOrder starts cursor forward).1[(count - 1) % (searchOrder starts cursor forward).1.length]?

/-- `find_index_for_byte_pos`: position of a byte offset in the offset table. -/
def findIndexForBytePos (offsets : List Nat) (b : Nat) : Option Nat :=
  if offsets.findIdx (· == b) < offsets.length then some (offsets.findIdx (· == b)) else none

/-- Byte offset of every grapheme (the `grapheme_indices` table). -/
def offsetsFrom : Nat → List Gr → List Nat
  | _, [] => []
  | o, g :: rest => o :: offsetsFrom (o + (g.map Char.utf8Size).sum) rest

def offsets (gs : List Gr) : List Nat := offsetsFrom 0 gs

structure SearchState where
  lastRev : Bool := false      -- `last_search_rev`
  deriving Repr, BEq, DecidableEq

inductive SearchCmd where
  | search (forward : Bool) (count : Nat)   -- `/P<CR>` , `?P<CR>`
  | next (count : Nat)                      -- n
  | prev (count : Nat)                      -- N
  deriving Repr, BEq, DecidableEq

/-- Direction actually searched. -/
def SearchCmd.forward (st : SearchState) : SearchCmd → Bool
  | .search f _ => f
  | .next _ => !st.lastRev
  | .prev _ => st.lastRev

def SearchCmd.count : SearchCmd → Nat
  | .search _ c => c
  | .next c => c
  | .prev c => c

/-- One search command: new cursor (grapheme index) and search state. `cursor` is a grapheme index. -/
def searchStep (gs : List Gr) (starts : List Nat) (cursor : Nat) (st : SearchState) (cmd : SearchCmd) : Nat × SearchState :=
  let st' := match cmd with
    | .search f _ => { lastRev := !f }
    | _ => st
  let cb := (offsets gs).getD cursor ((gs.flatten.map Char.utf8Size).sum)     -- `read_cursor_byte_pos`
  match searchTarget starts cb (cmd.forward st) cmd.count with
  | none => (cursor, st')
  | some b =>
    match findIndexForBytePos (offsets gs) b with
    | none => (cursor, st')
    | some i => (i, st')

end Vicut
