/-
Model of the tail of `ViCut::read_field` (src/exec.rs:306-344) and of `LineBuf::selected_content`
(src/linebuf.rs:937-963): how the field is cut out of the buffer once the keys have been executed.
What the keys did (where the cursor ended up, which selection is active, the new text) is an input.
-/
import Vicut.Model.Text

namespace Vicut

inductive SelAnchor where | start | end_
  deriving Repr, BEq, DecidableEq

inductive SelMode where
  | char (a : SelAnchor)
  | line (a : SelAnchor)
  | block (a : SelAnchor) (anchorPos : Nat)
  deriving Repr, BEq, DecidableEq

inductive SelRange where
  | oneDim (s e : Nat)
  | twoDim (ws : List (Nat × Nat))
  deriving Repr, BEq, DecidableEq

/-- `ClampedUsize::new(v, max, exclusive).get()` -/
def clampGet (v max : Nat) (exclusive : Bool) : Nat :=
  min v (if exclusive then max - 1 else max)

/-- `slice_inclusive(a..=b)` / `slice(a..b)`: graphemes `a .. b` (b exclusive), `none` when an index is
not in the offset table (`a ≥ n` or `b > n`) or the byte range is reversed. -/
def sliceGs (gs : List Gr) (a b : Nat) : Option Str :=
  if a < gs.length ∧ b ≤ gs.length ∧ a ≤ b then some (((gs.drop a).take (b - a)).flatten) else none

/-- `selected_content()`. `none` = the `?` inside it fired (the caller takes the empty field then). -/
def selectedContent (gs : List Gr) (mode : Option SelMode) (range : SelRange) : Option Str :=
  match range with
  | .oneDim s e =>
    match mode with
    | some (.char _) => sliceGs gs s (min (e + 1) gs.length)   -- the end is clamped to the text
    | some (.line _) => sliceGs gs s e
    | _ => none
  | .twoDim ws => some (joinWith ['\n'] (ws.filterMap (fun w => sliceGs gs w.1 w.2)))

inductive FieldErr where
  | panic      -- (before the fix: `selected_content().unwrap()` on `None`; no longer produced)
  | sliceFailed  -- "Failed to slice buffer"
  deriving Repr, BEq, DecidableEq

/-- The tail of `read_field`: `c0` cursor before the keys, `c1` cursor after, `gs` the buffer after. -/
def fieldOf (gs : List Gr) (c0 c1 : Nat) (mode : Option SelMode) (range : Option SelRange) : Except FieldErr Str :=
  match range with
  | some r =>
    match selectedContent gs mode r with
    | some s => .ok s
    | none => .ok []            -- `unwrap_or_default()`
  | none =>
    if gs.isEmpty then .ok []
    else
      let start := clampGet (min c0 c1) gs.length true
      let stop := clampGet (max c0 c1 + 1) gs.length false
      match sliceGs gs start stop with
      | some s => .ok s
      | none => .error .sliceFailed

end Vicut
