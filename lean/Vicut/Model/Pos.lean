/-
Position bookkeeping of the editor (src/linebuf.rs): the clamped cursor (`ClampedUsize`), the cached
table of grapheme byte offsets, the epilogue of `LineBuf::exec_cmd`, the return to normal mode and the
charwise selection update. What a verb or motion does in between is an arbitrary input.
-/
import Vicut.Model.Verbs
import Vicut.Model.Search

namespace Vicut

structure Clamp where
  value : Nat
  max : Nat
  excl : Bool
  deriving Repr, BEq, DecidableEq

namespace Clamp
def ub (c : Clamp) : Nat := if c.excl then c.max - 1 else c.max
def set (c : Clamp) (v : Nat) : Clamp := { c with value := min v c.ub }
def new (v max : Nat) (excl : Bool) : Clamp := (Clamp.mk 0 max excl).set v
def add (c : Clamp) (v : Nat) : Clamp := { c with value := min (c.value + v) c.ub }
def sub (c : Clamp) (v : Nat) : Clamp := { c with value := c.value - v }
def inc (c : Clamp) : Clamp × Bool := if c.value = c.ub then (c, false) else (c.add 1, true)
def dec (c : Clamp) : Clamp × Bool := if c.value = 0 then (c, false) else (c.sub 1, true)
def setMax (c : Clamp) (m : Nat) : Clamp := ({ c with max := m }).set c.value
def retAdd (c : Clamp) (v : Nat) : Nat := min (c.value + v) c.ub
def retSub (c : Clamp) (v : Nat) : Nat := c.value - v
/-- `set_cursor_clamp` (after fix: changing the clamp kind enforces it). -/
def setExcl (c : Clamp) (b : Bool) : Clamp := ({ c with excl := b }).set c.value
/-- `set_cursor_clamp` as it was: the flag alone. -/
def setExclLegacy (c : Clamp) (b : Bool) : Clamp := { c with excl := b }
def Ok (c : Clamp) : Prop := c.value ≤ c.ub
instance (c : Clamp) : Decidable c.Ok := by unfold Ok; infer_instance
end Clamp

inductive ClampOp where
  | set (v : Nat) | add (v : Nat) | sub (v : Nat) | inc | dec | setMax (m : Nat) | setExcl (b : Bool)
  deriving Repr, DecidableEq

def Clamp.apply (c : Clamp) : ClampOp → Clamp
  | .set v => c.set v
  | .add v => c.add v
  | .sub v => c.sub v
  | .inc => c.inc.1
  | .dec => c.dec.1
  | .setMax m => c.setMax m
  | .setExcl b => c.setExcl b

/-- Byte length of a text. -/
def byteLen (s : Str) : Nat := (s.map Char.utf8Size).sum

/-- The editor's view of position: the true graphemes of the buffer, the cursor, the cache. -/
structure EdPos where
  gs : List Gr
  cur : Clamp
  cache : Option (List Nat)
  deriving Repr, BEq, DecidableEq

/-- `update_graphemes`: recompute the table and re-clamp the cursor to the new count. -/
def EdPos.refresh (s : EdPos) : EdPos :=
  { s with cache := some (offsets s.gs), cur := s.cur.setMax s.gs.length }

/-- The table the accessors use (`update_graphemes_lazy` first). -/
def EdPos.table (s : EdPos) : List Nat := s.cache.getD (offsets s.gs)

/-- `index_byte_pos` -/
def EdPos.indexBytePos (s : EdPos) (i : Nat) : Nat := (s.table[i]?).getD (byteLen s.gs.flatten)

def onTerminator (gs : List Gr) (v : Nat) : Bool :=
  match gs[v]? with
  | some g => isNl g && (v != 0) && (match gs[v - 1]? with | some p => !isNl p | none => false)
  | none => false

/-- The end of `LineBuf::exec_cmd`: refresh if the text changed, then step off a line terminator when the
clamp is exclusive. `s` is whatever state the verb left. -/
def pushOff (s : EdPos) : EdPos :=
  if onTerminator s.gs s.cur.value && s.cur.excl then { s with cur := s.cur.sub 1 } else s

def epilogue (changed : Bool) (s : EdPos) : EdPos :=
  pushOff (if changed then s.refresh else s)

/-- `enforce_cursor_clamp`: re-clamp under the current clamp kind, then step off a terminator. -/
def enforce (s : EdPos) : EdPos :=
  pushOff { s with cur := s.cur.set s.cur.value }

/-- `set_cursor_clamp(true)` + `enforce_cursor_clamp()` -/
def enterNormal (s : EdPos) : EdPos :=
  pushOff { s with cur := s.cur.setExcl true }

/-- Leaving insert mode moves back one, but never crosses a line boundary. -/
def stepBack (s : EdPos) : EdPos :=
  match s.gs[s.cur.value - 1]? with
  | some g => if isNl g then s else { s with cur := s.cur.sub 1 }
  | none => s

/-- `ViCut::set_normal_mode` (block-insert replay aside). -/
def setNormalMode (wasInsert : Bool) (s : EdPos) : EdPos :=
  enterNormal (if wasInsert then stepBack s else s)

/-- `cursor_col`: `cursor - this_line().0`; `none` = the subtraction underflows or the line does not exist. -/
def cursorCol (gs : List Gr) (cur : Nat) : Option Nat :=
  match lineBounds gs ((gs.take cur).flatten.count '\n') with
  | some (s, _) => if s ≤ cur then some (cur - s) else none
  | none => none

/-- Well-formedness between two commands. -/
def EdPos.WF (s : EdPos) : Prop :=
  s.cur.max = s.gs.length ∧ s.cur.Ok ∧ (s.cache = none ∨ s.cache = some (offsets s.gs))

instance (s : EdPos) : Decidable s.WF := by unfold EdPos.WF Clamp.Ok; infer_instance

/-- Normal-mode part: on a character (or the text is empty), not on the terminator of a non-empty line. -/
def EdPos.NormalOk (s : EdPos) : Prop :=
  (s.gs ≠ [] → s.cur.value < s.gs.length) ∧ onTerminator s.gs s.cur.value = false

instance (s : EdPos) : Decidable s.NormalOk := by unfold EdPos.NormalOk; infer_instance

/-! ### Charwise selection -/

/-- `update_select_range`, `SelectMode::Char`: (anchorAtStart, start, end) after the cursor moved. -/
def updateCharSel (anchorStart : Bool) (s e cur : Nat) : Bool × Nat × Nat :=
  if anchorStart then
    if s ≥ cur then (false, cur, s) else (true, s, cur)
  else
    if cur ≥ e then (true, e, cur) else (false, cur, e)

/-- Number of newline graphemes in a list. -/
def countNl (gs : List Gr) : Nat := gs.countP isNl

end Vicut
