/-
L1, visual-block selections (src/linebuf.rs `get_block_select_windows`): the per-line windows of the rectangle
between the anchor and the cursor, as the editor stores them in `SelectRange::TwoDim`.
-/
import Vicut.Model.Verbs

namespace Vicut
namespace Block

/-- `index_line_number(pos)`: the terminators among the graphemes before `pos` -/
def indexLine (gs : List Gr) (pos : Nat) : Nat := ((gs.take pos).filter isNl).length

/-- `index_col(pos)` (`expect`s the line to exist) -/
def indexCol (gs : List Gr) (pos : Nat) : Option Nat :=
  (lineBounds gs (indexLine gs pos)).map (fun b => pos - b.1)

/-- one row: both edges are `start + column`, held at the line's last character (at `end` on an
unterminated last line: fix 687f35a), left one first -/
def row (gs : List Gr) (ac cc : Nat) (b : Nat × Nat) : Nat × Nat :=
  let cap := if b.2 > b.1 && isNlAtGs gs (b.2 - 1) then b.2 - 1 else b.2
  ordered (min (b.1 + ac) cap) (min (b.1 + cc) cap)

/-- `get_block_select_windows`: the column of the right-hand corner is made exclusive (the column, not the
position: fix 673f6a4), the lines run from the anchor's to the cursor's. -/
def windows (gs : List Gr) (anchor cur : Nat) : Option (List (Nat × Nat)) :=
  match indexCol gs cur, indexCol gs anchor with
  | some cc0, some ac0 =>
    let cc := if cc0 ≥ ac0 then cc0 + 1 else cc0
    let ac := if cc0 ≥ ac0 then ac0 else ac0 + 1
    let cl := cursorLine ⟨gs, cur, false⟩
    let al := indexLine gs anchor
    some ((List.range' (min cl al) (max cl al - min cl al + 1)).filterMap
      (fun ln => (lineBounds gs ln).map (row gs ac cc)))
  | _, _ => none

end Block
end Vicut

namespace Vicut
namespace Block

/-- The corner handling **before** fix 673f6a4: the right-hand corner's *position* was incremented and its
column taken afresh — one past a line terminator is column 0 of the next line. (Rows as they are now.) -/
def windowsOldCorner (gs : List Gr) (anchor cur : Nat) : Option (List (Nat × Nat)) :=
  match indexCol gs cur, indexCol gs anchor with
  | some cc0, some ac0 =>
    let cur' := if cc0 ≥ ac0 then cur + 1 else cur
    let anchor' := if cc0 ≥ ac0 then anchor else anchor + 1
    match indexCol gs cur', indexCol gs anchor' with
    | some cc, some ac =>
      let cl := cursorLine ⟨gs, cur, false⟩
      let al := indexLine gs anchor'
      some ((List.range' (min cl al) (max cl al - min cl al + 1)).filterMap
        (fun ln => (lineBounds gs ln).map (row gs ac cc)))
    | _, _ => none
  | _, _ => none

end Block
end Vicut
