/-
Reference interpreter for the well-defined core of the vic scripting language (src/vic/vic.pest,
src/vic/mod.rs, src/exec.rs eval_*, src/main.rs exec_cmd): let, integer arithmetic (the parser folds
operators left to right, no precedence), comparisons, && ||, if/elif/else, while/until, for over
ranges and arrays, arrays of integers and strings, push/pop, indexing, functions with parameters and
return, block scoping with shadowing, string interpolation, echo. Loops take fuel.
-/
namespace Vicut.Vic

inductive Val where
  | num (n : Int) | str (s : String) | bool (b : Bool) | arr (l : List Int) | null
  deriving Repr, BEq, DecidableEq, Inhabited

inductive BinOp where | add | sub | mul | div | mod
  deriving Repr, BEq, DecidableEq
inductive CmpOp where | eq | ne | lt | le | gt | ge
  deriving Repr, BEq, DecidableEq

inductive AExpr where
  | int (n : Int) | var (x : String) | bin (op : BinOp) (l r : AExpr)
  deriving Repr, BEq, Inhabited

inductive BExpr where
  | cmp (op : CmpOp) (l r : AExpr) | and (l r : BExpr) | or (l r : BExpr) | lit (b : Bool)
  deriving Repr, BEq, Inhabited

inductive LitPart where | text (s : String) | interp (x : String)
  deriving Repr, BEq

inductive Expr where
  | arith (a : AExpr)
  | lit (parts : List LitPart)
  | arr (es : List AExpr)
  | var (x : String)
  | index (x : String) (i : AExpr)
  | call (f : String) (args : List Expr)
  | pop (x : String)
  | boolE (b : BExpr)
  | range (a b : AExpr) (incl : Bool)
  deriving Inhabited

inductive Stmt where
  | let_ (x : String) (e : Expr)
  | assign (x : String) (e : Expr)
  | opAssign (x : String) (op : BinOp) (a : AExpr)
  | setIndex (x : String) (i : AExpr) (e : Expr)
  | echo (es : List Expr)
  | ifs (conds : List (BExpr × List Stmt)) (els : Option (List Stmt))
  | while_ (neg : Bool) (c : BExpr) (body : List Stmt)     -- neg = `until`
  | for_ (x : String) (e : Expr) (body : List Stmt)
  | push (x : String) (e : Expr)
  | popS (x : String)
  | def_ (f : String) (params : List String) (body : List Stmt)
  | callS (f : String) (args : List Expr)
  | ret (e : Expr)
  deriving Inhabited

abbrev Frame := List (String × Val)

structure Env where
  frames : List Frame := [[]]
  funcs : List (String × List String × List Stmt) := []
  out : List String := []

def lookupFrames : List Frame → String → Option Val
  | [], _ => none
  | f :: rest, x =>
    match f.find? (fun p => p.1 == x) with
    | some p => some p.2
    | none => lookupFrames rest x

def Env.lookup (env : Env) (x : String) : Option Val := lookupFrames env.frames x

def frameSet (f : Frame) (x : String) (v : Val) : Frame := f.map (fun p => if p.1 == x then (p.1, v) else p)

/-- Assign to the nearest frame that has the variable; `none` if it is not declared anywhere. -/
def assignFrames : List Frame → String → Val → Option (List Frame)
  | [], _, _ => none
  | f :: rest, x, v =>
    if f.any (fun p => p.1 == x) then some (frameSet f x v :: rest)
    else (assignFrames rest x v).map (fun r => f :: r)

/-- `let`: bind in the innermost frame (shadowing an outer one, replacing an inner one). -/
def declare (frames : List Frame) (x : String) (v : Val) : List Frame :=
  match frames with
  | [] => [[(x, v)]]
  | f :: rest => ((x, v) :: f.filter (fun p => !(p.1 == x))) :: rest

def Env.push (env : Env) : Env := { env with frames := [] :: env.frames }
def Env.pop (env : Env) : Env := { env with frames := env.frames.tail }

def showVal : Val → String
  | .num n => toString n
  | .str s => s
  | .bool b => if b then "true" else "false"
  | .arr l => "[" ++ ", ".intercalate (l.map toString) ++ "]"
  | .null => "null"

/-- Rust `isize` division and remainder truncate toward zero. -/
def bounded (n : Int) : Except String Int :=
  if n.natAbs < 4611686018427387904 then .ok n else .error "overflow"   -- outside the bounded-integer core

def binOp (op : BinOp) (a b : Int) : Except String Int :=
  match op with
  | .add => bounded (a + b)
  | .sub => bounded (a - b)
  | .mul => bounded (a * b)
  | .div => if b == 0 then .error "division by zero" else .ok (Int.tdiv a b)
  | .mod => if b == 0 then .error "division by zero" else .ok (Int.tmod a b)

def evalA (env : Env) : AExpr → Except String Int
  | .int n => .ok n
  | .var x =>
    match env.lookup x with
    | some (.num n) => .ok n
    | some _ => .error s!"Variable {x} is not a number"
    | none => .error s!"Variable {x} not found"
  | .bin op l r =>
    match evalA env l with
    | .error e => .error e
    | .ok a =>
      match evalA env r with
      | .error e => .error e
      | .ok b => binOp op a b

def cmpOp (op : CmpOp) (a b : Int) : Bool :=
  match op with
  | .eq => a == b | .ne => a != b | .lt => a < b | .le => a ≤ b | .gt => a > b | .ge => a ≥ b

def evalB (env : Env) : BExpr → Except String Bool
  | .lit b => .ok b
  | .cmp op l r =>
    match evalA env l with
    | .error e => .error e
    | .ok a =>
      match evalA env r with
      | .error e => .error e
      | .ok b => .ok (cmpOp op a b)
  | .and l r =>
    match evalB env l with
    | .error e => .error e
    | .ok a =>
      match evalB env r with
      | .error e => .error e
      | .ok b => .ok (a && b)
  | .or l r =>
    match evalB env l with
    | .error e => .error e
    | .ok a =>
      match evalB env r with
      | .error e => .error e
      | .ok b => .ok (a || b)

def evalLit (env : Env) (parts : List LitPart) : String :=
  String.join (parts.map fun p =>
    match p with
    | .text s => s
    | .interp x => match env.lookup x with | some v => showVal v | none => "")

def evalAs (env : Env) : List AExpr → Except String (List Int)
  | [] => .ok []
  | a :: rest =>
    match evalA env a with
    | .error e => .error e
    | .ok n =>
      match evalAs env rest with
      | .error e => .error e
      | .ok ns => .ok (n :: ns)

/-- `a..b` / `a..=b`; a descending range is empty (Rust's `(start..end).rev()` of an empty range). -/
def rangeList (a b : Int) (incl : Bool) : List Int :=
  if a ≤ b then (List.range ((b - a).toNat + (if incl then 1 else 0))).map (fun (i : Nat) => a + Int.ofNat i)
  else []

def elemsOf : Val → Except String (List Val)
  | .arr l => .ok (l.map Val.num)
  | .str s => .ok (s.toList.map (fun c => Val.str (String.singleton c)))
  | _ => .error "not iterable"

mutual
/-- Expressions may run function bodies and pop arrays, so they thread the environment. -/
def evalExpr (fuel : Nat) (env : Env) (e : Expr) : Except String (Val × Env) :=
  match fuel with
  | 0 => .error "fuel"
  | fuel + 1 =>
    match e with
    | .arith a => (evalA env a).map (fun n => (.num n, env))
    | .lit parts => .ok (.str (evalLit env parts), env)
    | .arr es => (evalAs env es).map (fun ns => (.arr ns, env))
    | .var x =>
      match env.lookup x with
      | some v => .ok (v, env)
      | none => .error s!"Variable {x} not found"
    | .index x i =>
      match evalA env i, env.lookup x with
      | .error e, _ => .error e
      | .ok n, some (.arr l) =>
        if n < 0 then .error "index" else
        match l[n.toNat]? with
        | some v => .ok (.num v, env)
        | none => .error s!"Index {n} out of bounds"
      | .ok _, _ => .error s!"Variable {x} is not indexable"
    | .pop x =>
      match env.lookup x with
      | some (.arr l) =>
        match l.getLast? with
        | none => .ok (.null, env)
        | some v =>
          match assignFrames env.frames x (.arr l.dropLast) with
          | some fr => .ok (.num v, { env with frames := fr })
          | none => .error "pop"
      | _ => .error s!"Stack variable {x} not found"
    | .boolE b => (evalB env b).map (fun v => (.bool v, env))
    | .range a b incl =>
      match evalA env a, evalA env b with
      | .ok x, .ok y => .ok (.arr (rangeList x y incl), env)
      | .error e, _ => .error e
      | _, .error e => .error e
    | .call f args =>
      match evalArgs fuel env args with
      | .error e => .error e
      | .ok (vs, env1) => callFn fuel env1 f vs

def evalArgs (fuel : Nat) (env : Env) (args : List Expr) : Except String (List Val × Env) :=
  match fuel with
  | 0 => .error "fuel"
  | fuel + 1 =>
    match args with
    | [] => .ok ([], env)
    | a :: rest =>
      match evalExpr fuel env a with
      | .error e => .error e
      | .ok (v, env1) =>
        match evalArgs fuel env1 rest with
        | .error e => .error e
        | .ok (vs, env2) => .ok (v :: vs, env2)

/-- A call runs the body in one fresh frame holding the parameters; `return` ends it. -/
def callFn (fuel : Nat) (env : Env) (f : String) (vs : List Val) : Except String (Val × Env) :=
  match fuel with
  | 0 => .error "fuel"
  | fuel + 1 =>
    match env.funcs.find? (fun p => p.1 == f) with
    | none => .error s!"Function {f} not found"
    | some (_, params, body) =>
      if params.length != vs.length then .error s!"Function {f} expects {params.length} arguments, got {vs.length}"
      else
        match execBlock fuel { env with frames := (params.zip vs) :: env.frames } body with
        | .error e => .error e
        | .ok (env1, r) => .ok (r.getD .null, env1.pop)

/-- `some v` in the result = a `return` is propagating. -/
def execStmt (fuel : Nat) (env : Env) (s : Stmt) : Except String (Env × Option Val) :=
  match fuel with
  | 0 => .error "fuel"
  | fuel + 1 =>
    match s with
    | .let_ x e =>
      match evalExpr fuel env e with
      | .error er => .error er
      | .ok (v, env1) => .ok ({ env1 with frames := declare env1.frames x v }, none)
    | .assign x e =>
      match evalExpr fuel env e with
      | .error er => .error er
      | .ok (v, env1) =>
        match assignFrames env1.frames x v with
        | some fr => .ok ({ env1 with frames := fr }, none)
        | none => .error s!"Variable {x} not found"
    | .opAssign x op a =>
      match env.lookup x, evalA env a with
      | some (.num n), .ok m =>
        match binOp op n m with
        | .error er => .error er
        | .ok r =>
          match assignFrames env.frames x (.num r) with
          | some fr => .ok ({ env with frames := fr }, none)
          | none => .error "assign"
      | _, .error er => .error er
      | _, _ => .error s!"Variable {x} not found"
    | .setIndex x i e =>
      match evalExpr fuel env e with
      | .error er => .error er
      | .ok (v, env1) =>
        match evalA env1 i, env1.lookup x, v with
        | .ok n, some (.arr l), .num w =>
          if n < 0 ∨ n.toNat ≥ l.length then .error s!"Index {n} out of bounds"
          else
            match assignFrames env1.frames x (.arr (l.set n.toNat w)) with
            | some fr => .ok ({ env1 with frames := fr }, none)
            | none => .error "assign"
        | .error er, _, _ => .error er
        | _, _, _ => .error s!"Variable {x} is not indexable"
    | .echo es =>
      match evalArgs fuel env es with
      | .error er => .error er
      | .ok (vs, env1) => .ok ({ env1 with out := env1.out ++ [" ".intercalate (vs.map showVal)] }, none)
    | .ifs conds els => execIf fuel env conds els
    | .while_ neg c body => execWhile fuel env neg c body
    | .for_ x e body =>
      match evalExpr fuel env e with
      | .error er => .error er
      | .ok (v, env1) =>
        match elemsOf v with
        | .error er => .error er
        | .ok items => execFor fuel env1 x items body
    | .push x e =>
      match evalExpr fuel env e with
      | .error er => .error er
      | .ok (v, env1) =>
        match env1.lookup x, v with
        | some (.arr l), .num w =>
          match assignFrames env1.frames x (.arr (l ++ [w])) with
          | some fr => .ok ({ env1 with frames := fr }, none)
          | none => .error "assign"
        | some (.str s), w =>
          match assignFrames env1.frames x (.str (s ++ showVal w)) with
          | some fr => .ok ({ env1 with frames := fr }, none)
          | none => .error "assign"
        | _, _ => .error s!"variable '{x}' not found"
    | .popS x =>
      match evalExpr fuel env (.pop x) with
      | .error er => .error er
      | .ok (_, env1) => .ok (env1, none)
    | .def_ f params body => .ok ({ env with funcs := (f, params, body) :: env.funcs.filter (fun p => !(p.1 == f)) }, none)
    | .callS f args =>
      match evalExpr fuel env (.call f args) with
      | .error er => .error er
      | .ok (_, env1) => .ok (env1, none)
    | .ret e =>
      match evalExpr fuel env e with
      | .error er => .error er
      | .ok (v, env1) => .ok (env1, some v)

def execBlock (fuel : Nat) (env : Env) (ss : List Stmt) : Except String (Env × Option Val) :=
  match fuel with
  | 0 => .error "fuel"
  | fuel + 1 =>
    match ss with
    | [] => .ok (env, none)
    | s :: rest =>
      match execStmt fuel env s with
      | .error e => .error e
      | .ok (env1, some v) => .ok (env1, some v)
      | .ok (env1, none) => execBlock fuel env1 rest

/-- A block body runs in a fresh frame that is dropped afterwards. -/
def execScoped (fuel : Nat) (env : Env) (ss : List Stmt) : Except String (Env × Option Val) :=
  match fuel with
  | 0 => .error "fuel"
  | fuel + 1 =>
    match execBlock fuel env.push ss with
    | .error e => .error e
    | .ok (env1, r) => .ok (env1.pop, r)

def execIf (fuel : Nat) (env : Env) (conds : List (BExpr × List Stmt)) (els : Option (List Stmt)) : Except String (Env × Option Val) :=
  match fuel with
  | 0 => .error "fuel"
  | fuel + 1 =>
    match conds with
    | [] =>
      match els with
      | none => .ok (env, none)
      | some b => execScoped fuel env b
    | (c, b) :: rest =>
      match evalB env c with
      | .error e => .error e
      | .ok true => execScoped fuel env b
      | .ok false => execIf fuel env rest els

def execWhile (fuel : Nat) (env : Env) (neg : Bool) (c : BExpr) (body : List Stmt) : Except String (Env × Option Val) :=
  match fuel with
  | 0 => .error "fuel"
  | fuel + 1 =>
    match evalB env c with
    | .error e => .error e
    | .ok v =>
      if v != neg then
        match execScoped fuel env body with
        | .error e => .error e
        | .ok (env1, some r) => .ok (env1, some r)
        | .ok (env1, none) => execWhile fuel env1 neg c body
      else .ok (env, none)

def execFor (fuel : Nat) (env : Env) (x : String) (items : List Val) (body : List Stmt) : Except String (Env × Option Val) :=
  match fuel with
  | 0 => .error "fuel"
  | fuel + 1 =>
    match items with
    | [] => .ok (env, none)
    | it :: rest =>
      match execBlock fuel { env with frames := [(x, it)] :: env.frames } body with
      | .error e => .error e
      | .ok (env1, some r) => .ok (env1.pop, some r)
      | .ok (env1, none) => execFor fuel env1.pop x rest body
end

/-- A whole program: top-level statements in the global frame; the printed lines. -/
def runProgram (fuel : Nat) (prog : List Stmt) : Except String (List String) :=
  match execBlock fuel {} prog with
  | .error e => .error e
  | .ok (env, _) => .ok env.out

end Vicut.Vic
