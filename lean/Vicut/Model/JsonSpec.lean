/-
Specification side of the JSON renderer: a reader for JSON string literals (RFC 8259 §7,
restricted to what serde_json emits plus `\/`), used to state "the value read back is the field".
-/
import Vicut.Model.Format

namespace Vicut

def unhex (c : Char) : Option Nat :=
  let n := c.toNat
  if 48 ≤ n ∧ n ≤ 57 then some (n - 48)
  else if 97 ≤ n ∧ n ≤ 102 then some (n - 87)
  else if 65 ≤ n ∧ n ≤ 70 then some (n - 55)
  else none

/-- Decode the inside of a JSON string literal. `none` = not a valid literal body
(raw quote, raw control character, bad escape). -/
def jsonUnescape : Str → Option Str
  | [] => some []
  | c :: rest =>
    if c = '\\' then
      match rest with
      | 'u' :: a :: b :: x :: y :: rest' =>
        match unhex a, unhex b, unhex x, unhex y with
        | some a, some b, some x, some y =>
          (jsonUnescape rest').map (Char.ofNat (((a * 16 + b) * 16 + x) * 16 + y) :: ·)
        | _, _, _, _ => none
      | e :: rest' =>
        let d : Option Char :=
          if e = '"' then some '"' else if e = '\\' then some '\\' else if e = '/' then some '/'
          else if e = 'n' then some '\n' else if e = 'r' then some '\r' else if e = 't' then some '\t'
          else if e = 'b' then some (Char.ofNat 8) else if e = 'f' then some (Char.ofNat 12) else none
        match d with
        | some d => (jsonUnescape rest').map (d :: ·)
        | none => none
      | [] => none
    else if c = '"' ∨ c.toNat < 32 then none
    else (jsonUnescape rest).map (c :: ·)
termination_by s => s.length
decreasing_by all_goals (simp_wf; try omega)

end Vicut
