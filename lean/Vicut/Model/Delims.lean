/-
L2, delimiter motions (src/linebuf.rs): `%` (`find_next_matching_delim`, `Motion::ToDelimMatch`) and
`[(` `])` `[{` `]}` (`find_unmatched_delim`, `Motion::ToParen/ToBrace/ToBracket`), as functions from the
editor state to the `MotionKind` handed to the verbs.
-/
import Vicut.Model.Motions

namespace Vicut
namespace Delim

def openers : List Gr := [['['], ['{'], ['('], ['<']]
def all : List Gr := [['['], [']'], ['{'], ['}'], ['('], [')'], ['<'], ['>']]

/-- partner of a delimiter and the direction in which it is looked for (`true` = forward) -/
def partner (g : Gr) : Option (Gr × Bool) :=
  if g = ['['] then some ([']'], true) else if g = [']'] then some (['['], false)
  else if g = ['{'] then some (['}'], true) else if g = ['}'] then some (['{'], false)
  else if g = ['('] then some ([')'], true) else if g = [')'] then some (['('], false)
  else if g = ['<'] then some (['>'], true) else if g = ['>'] then some (['<'], false)
  else none

/-- The nesting scan both directions of `%` share: walk `xs`; `new` raises the depth, `tgt` lowers it
(`saturating_sub`); the answer is the offset of the `tgt` at which the depth comes back to 0. -/
def scanMatch (new tgt : Gr) : List Gr → Nat → Option Nat
  | [], _ => none
  | g :: rest, depth =>
    if g = new then (scanMatch new tgt rest (depth + 1)).map (· + 1)
    else if g = tgt then
      if depth - 1 = 0 then some 0 else (scanMatch new tgt rest (depth - 1)).map (· + 1)
    else (scanMatch new tgt rest depth).map (· + 1)

/-- the segment `lo ..< hi` of the text -/
def seg (gs : List Gr) (lo hi : Nat) : List Gr := (gs.take hi).drop lo

/-- `(lo..hi).find(p)` -/
def findFwd (gs : List Gr) (p : Gr → Bool) (lo hi : Nat) : Option Nat :=
  ((seg gs lo hi).findIdx? p).map (· + lo)

/-- `(lo..hi).rev().find(p)` -/
def findBwd (gs : List Gr) (p : Gr → Bool) (lo hi : Nat) : Option Nat :=
  ((seg gs lo hi).reverse.findIdx? p).map (fun k => lo + (seg gs lo hi).length - 1 - k)

/-- the delimiter `%` starts from: the first one at or after the cursor on its line, else the nearest
opener before the cursor on its line -/
def pick (s : MS) : Option Nat :=
  match findFwd s.gs (fun g => all.contains g) s.cur s.eol with
  | some i => some i
  | none => findBwd s.gs (fun g => openers.contains g) s.sol s.cur

/-- `find_next_matching_delim` (since the fix that made the backward search count the delimiter it starts
from): the forward search walks `idx ..< max`, the backward one `idx, idx-1, .. 0`. -/
def matchFrom (gs : List Gr) (idx : Nat) : Option Nat :=
  match gs[idx]? with
  | none => none
  | some g =>
    match partner g with
    | none => none
    | some (tgt, true) => (scanMatch g tgt (gs.drop idx) 0).map (· + idx)
    | some (tgt, false) => (scanMatch g tgt (gs.take (idx + 1)).reverse 0).map (fun k => idx - k)

def findMatching (s : MS) : Option Nat :=
  match pick s with
  | none => none
  | some idx => matchFrom s.gs idx

/-- The `Motion::ToDelimMatch` arm of `eval_motion` (the count is ignored). -/
def evalDelimMatch (s : MS) : MK :=
  match findMatching s with
  | none => .null
  | some p => .onto p

/-- The backward scan **before** the fix: it started one before the delimiter with depth 0 and
decremented a `u32` (`depth -= 1`: wraps in a release build, panics in a debug build). -/
def scanMatchOld (new tgt : Gr) : List Gr → Nat → Option Nat
  | [], _ => none
  | g :: rest, depth =>
    if g = new then (scanMatchOld new tgt rest ((depth + 1) % 4294967296)).map (· + 1)
    else if g = tgt then
      if (depth + 4294967295) % 4294967296 = 0 then some 0
      else (scanMatchOld new tgt rest ((depth + 4294967295) % 4294967296)).map (· + 1)
    else (scanMatchOld new tgt rest depth).map (· + 1)

def matchFromOld (gs : List Gr) (idx : Nat) : Option Nat :=
  match gs[idx]? with
  | none => none
  | some g =>
    match partner g with
    | none => none
    | some (tgt, true) => (scanMatch g tgt (gs.drop idx) 0).map (· + idx)
    | some (tgt, false) => (scanMatchOld g tgt (gs.take idx).reverse 0).map (fun k => idx - 1 - k)

/-- `grapheme_is_escaped(pos)`: an odd number of backslashes directly before `pos`.
`rev` = the graphemes before `pos`, nearest first. -/
def escapedRev : List Gr → Bool
  | [] => false
  | g :: rest => if g = ['\\'] then !(escapedRev rest) else false

def escaped (gs : List Gr) (pos : Nat) : Bool := escapedRev (gs.take pos).reverse

/-- The scan of `find_unmatched_delim` over positions `ps` (ascending for `])`, descending for `[(`):
`up` nests deeper, `down` at depth 0 is the answer; escaped graphemes are skipped. -/
def scanUnmatched (gs : List Gr) (up down : Gr) : List Nat → Nat → Option Nat
  | [], _ => none
  | i :: rest, depth =>
    if escaped gs i then scanUnmatched gs up down rest depth
    else match gs[i]? with
      | none => none
      | some g =>
        if g = up then scanUnmatched gs up down rest (depth + 1)
        else if g = down then (if depth = 0 then some i else scanUnmatched gs up down rest (depth - 1))
        else scanUnmatched gs up down rest depth

/-- `find_unmatched_delim(delim, dir)`: forward from the cursor (inclusive) to the end of the buffer for the
closer, backward from just before the cursor to 0 for the opener. -/
def findUnmatched (s : MS) (opener closer : Gr) (fwd : Bool) : Option Nat :=
  if fwd then scanUnmatched s.gs opener closer (List.range' s.cur (s.max - s.cur)) 0
  else scanUnmatched s.gs closer opener (List.range s.cur).reverse 0

/-- The `ToParen/ToBrace/ToBracket` arm of `eval_motion` (the count is ignored). -/
def evalUnmatched (s : MS) (opener closer : Gr) (fwd : Bool) : MK :=
  match findUnmatched s opener closer fwd with
  | none => .null
  | some p => .on p

end Delim
end Vicut

namespace Vicut
namespace Delim

/-- The forward scan of `text_obj_delim` when no opener encloses the cursor: the first opener at nesting 0
is the start, the closer that brings the nesting back from 1 is the end (`oc`: nesting, `st`: start so far). -/
def scanPair (gs : List Gr) (opener closer : Gr) : List Nat → Nat → Option Nat → Option (Nat × Nat)
  | [], _, _ => none
  | i :: rest, oc, st =>
    if escaped gs i then scanPair gs opener closer rest oc st
    else match gs[i]? with
      | none => none
      | some g =>
        if g = opener then scanPair gs opener closer rest (oc + 1) (if oc = 0 then some i else st)
        else if g = closer then
          (if oc = 1 then st.map (fun a => (a, i)) else scanPair gs opener closer rest (oc - 1) st)
        else scanPair gs opener closer rest oc st

/-- `a(` takes the blanks after the closer, up to the end of the cursor's line -/
def extendWs (s : MS) (eol : Nat) : Nat → Nat → Nat
  | 0, e => e
  | f + 1, e => if e < eol && (s.ws[e]?.getD false) && decide (e < s.max) then extendWs s eol f (e + 1) else e

/-- `text_obj_delim(count, obj, bound)` (the count is ignored): the pair around the cursor — the nearest
unmatched opener before it and its closer — else the first pair after it. -/
def textObjDelim (s : MS) (opener closer : Gr) (around : Bool) : Option (Nat × Nat) :=
  let pair : Option (Nat × Nat) :=
    match scanUnmatched s.gs closer opener (List.range s.cur).reverse 0 with
    | some st =>
      (scanUnmatched s.gs opener closer (List.range' (st + 1) (s.max - (st + 1))) 0).map (fun e => (st, e))
    | none => scanPair s.gs opener closer (List.range' s.cur (s.max - s.cur)) 0 none
  pair.map (fun (st, e) =>
    if around then (st, extendWs s s.eol (s.eol - (e + 1)) (e + 1)) else (st + 1, e))

/-- The delimiter arm of `eval_motion`'s text objects. -/
def evalTextObjDelim (s : MS) (opener closer : Gr) (around : Bool) : MK :=
  match textObjDelim s opener closer around with
  | none => .null
  | some (a, b) => .exclusive a b

end Delim
end Vicut

/-! Quote text objects `i"` `a"` `i'` `a'` `` i` `` `` a` `` (`text_obj_quote`) -/

namespace Vicut
namespace Quote

def bs : Gr := ['\\']
def isBsAt (gs : List Gr) (i : Nat) : Bool := gs[i]? == some bs

/-- The backward scan of `text_obj_quote` over the positions before the cursor on its line (descending):
a quote counts when an even number of backslashes stands directly before it; the scan of the backslash run
also consumes the position before the run (`while let Some(idx) = backward_indices.next()`), which is
therefore never looked at. -/
def back (gs : List Gr) (q : Gr) : Nat → List Nat → Option Nat
  | 0, _ => none
  | _, [] => none
  | f + 1, i :: rest =>
    match gs[i]? with
    | none => none
    | some g =>
      if g = q then
        if (rest.takeWhile (isBsAt gs)).length % 2 = 0 then some i
        else back gs q f ((rest.dropWhile (isBsAt gs)).drop 1)
      else back gs q f rest

/-- The forward scan: the next quote; a backslash skips the position after it. -/
def fwd (gs : List Gr) (q : Gr) : Nat → List Nat → Option (Nat × List Nat)
  | 0, _ => none
  | _, [] => none
  | f + 1, i :: rest =>
    match gs[i]? with
    | none => none
    | some g =>
      if g = bs then fwd gs q f (rest.drop 1)
      else if g = q then some (i, rest)
      else fwd gs q f rest

/-- `text_obj_quote(count, obj, bound)` (the count is ignored; only the cursor's line is looked at) -/
def textObjQuote (s : MS) (q : Gr) (around : Bool) : Option (Nat × Nat) :=
  let pair : Option (Nat × Nat) :=
    match back s.gs q (s.cur + 1) (List.range' s.sol (s.cur - s.sol)).reverse with
    | some st => (fwd s.gs q (s.eol + 1) (List.range' (st + 1) (s.eol - (st + 1)))).map (fun r => (st, r.1))
    | none =>
      match fwd s.gs q (s.eol + 1) (List.range' s.cur (s.eol - s.cur)) with
      | none => none
      | some (st, rest) => (fwd s.gs q (s.eol + 1) rest).map (fun r => (st, r.1))
  pair.map (fun (st, e) =>
    if around then (st, Delim.extendWs s s.eol (s.eol - (e + 1)) (e + 1)) else (st + 1, e))

def evalTextObjQuote (s : MS) (q : Gr) (around : Bool) : MK :=
  match textObjQuote s q around with
  | none => .null
  | some (a, b) => .exclusive a b

end Quote
end Vicut
