/-
Model of the key reader (src/reader.rs, src/keys.rs): bytes → `KeyEvent`s.
`readKey` follows `RawReader::read_key` step by step over a `List UInt8` queue.
-/
namespace Vicut

inductive KeyCode where
  | backspace | backTab | char (c : Char) | delete | down | end_ | enter | esc | f (n : Nat)
  | home | insert | left | null | pageDown | pageUp | right | tab | up
  deriving Repr, BEq, DecidableEq

/-- `ModKeys` bits: CTRL = 8, ALT = 4, SHIFT = 2. -/
structure KeyEvent where
  code : KeyCode
  mods : Nat
  deriving Repr, BEq, DecidableEq

def CTRL : Nat := 8
def ALT : Nat := 4
def SHIFT : Nat := 2

abbrev Bytes := List UInt8

structure Reader where
  bytes : Bytes
  escaped : Bool := false
  deriving Repr, BEq, DecidableEq

/-! ### UTF-8 decoding of 1–4 collected bytes (`str::from_utf8` on the prefix) -/

def isCont (b : UInt8) : Bool := b &&& 0xC0 == 0x80

/-- `Some c` iff the bytes are exactly one well-formed UTF-8 scalar value. -/
def decodeOne (bs : Bytes) : Option Char :=
  match bs with
  | [b0] => if b0 < 0x80 then some (Char.ofNat b0.toNat) else none
  | [b0, b1] =>
    if 0xC2 ≤ b0 ∧ b0 ≤ 0xDF ∧ isCont b1 then
      some (Char.ofNat ((b0.toNat - 0xC0) * 64 + (b1.toNat - 0x80)))
    else none
  | [b0, b1, b2] =>
    if 0xE0 ≤ b0 ∧ b0 ≤ 0xEF ∧ isCont b1 ∧ isCont b2 then
      let n := (b0.toNat - 0xE0) * 4096 + (b1.toNat - 0x80) * 64 + (b2.toNat - 0x80)
      if n < 0x800 ∨ (0xD800 ≤ n ∧ n ≤ 0xDFFF) then none else some (Char.ofNat n)
    else none
  | [b0, b1, b2, b3] =>
    if 0xF0 ≤ b0 ∧ b0 ≤ 0xF4 ∧ isCont b1 ∧ isCont b2 ∧ isCont b3 then
      let n := (b0.toNat - 0xF0) * 262144 + (b1.toNat - 0x80) * 4096 + (b2.toNat - 0x80) * 64 + (b3.toNat - 0x80)
      if n < 0x10000 ∨ n > 0x10FFFF then none else some (Char.ofNat n)
    else none
  | _ => none

/-! ### `KeyEvent::new` for a single `char` with no modifiers (keys.rs:18) -/

def ctrlLetter (n : Nat) : Char := Char.ofNat (64 + n)   -- 0 ↦ '@', 1 ↦ 'A', …, 31 ↦ '_'

def keyEventOfChar (c : Char) : KeyEvent :=
  let n := c.toNat
  if n < 32 then
    if n = 8 then ⟨.backspace, 0⟩
    else if n = 9 then ⟨.tab, 0⟩
    else if n = 13 then ⟨.enter, 0⟩
    else if n = 27 then ⟨.esc, 0⟩
    else ⟨.char (ctrlLetter n), CTRL⟩
  else if n = 0x7f then ⟨.backspace, 0⟩
  else if n = 0x9b then ⟨.esc, SHIFT⟩
  else if 0x80 ≤ n ∧ n ≤ 0x9f then ⟨.null, 0⟩
  else ⟨.char c, 0⟩

/-! ### `parse_esc_seq` (reader.rs:57): called with ESC already consumed -/

def isDigitB (b : UInt8) : Bool := 48 ≤ b && b ≤ 57

/-- The digit loop after `ESC [ d`: returns (digits, rest). -/
def escDigits : Bytes → Bytes → Bytes × Bytes
  | [], ds => (ds, [])
  | b :: rest, ds =>
    if b = 126 ∨ b = 59 then (ds, rest)          -- '~' or ';' : consumed, stop
    else if isDigitB b then escDigits rest (ds ++ [b])
    else (ds, rest)                               -- any other byte: consumed, stop

def escDigitsKey (ds : Bytes) : KeyCode :=
  match ds with
  | [49] => .home | [51] => .delete | [52] => .end_ | [53] => .pageUp | [54] => .pageDown
  | [55] => .home | [56] => .end_
  | [49, 53] => .f 5 | [49, 55] => .f 6 | [49, 56] => .f 7 | [49, 57] => .f 8
  | [50, 48] => .f 9 | [50, 49] => .f 10 | [50, 51] => .f 11 | [50, 52] => .f 12
  | _ => .esc

/-- `none` = ran out of bytes (`?`): `read_key` then returns `None`. -/
def parseEscSeq (bs : Bytes) : Option KeyEvent × Bytes :=
  match bs with
  | [] => (none, [])
  | b1 :: rest =>
    if b1 = 91 then        -- '['
      match rest with
      | [] => (none, [])
      | b2 :: rest2 =>
        if b2 = 65 then (some ⟨.up, 0⟩, rest2)
        else if b2 = 66 then (some ⟨.down, 0⟩, rest2)
        else if b2 = 67 then (some ⟨.right, 0⟩, rest2)
        else if b2 = 68 then (some ⟨.left, 0⟩, rest2)
        else if 49 ≤ b2 ∧ b2 ≤ 57 then
          (some ⟨escDigitsKey (escDigits rest2 [b2]).1, 0⟩, (escDigits rest2 [b2]).2)
        else (some ⟨.esc, 0⟩, rest2)
    else if b1 = 79 then   -- 'O'
      match rest with
      | [] => (none, [])
      | b2 :: rest2 =>
        let k := if b2 = 80 then KeyCode.f 1 else if b2 = 81 then .f 2 else if b2 = 82 then .f 3
                 else if b2 = 83 then .f 4 else .esc
        (some ⟨k, 0⟩, rest2)
    else (some ⟨.esc, 0⟩, rest)

/-! ### `parse_byte_alias` (reader.rs:135): called with `<` already consumed -/

/-- ASCII string literal as bytes (alias names, escape sequences). -/
def bstr (s : String) : Bytes := s.toList.map (fun c => UInt8.ofNat c.toNat)

def notGt (b : UInt8) : Bool := !(b == 62)

/-- Strip `c-` / `s-` / `a-` prefixes in any order, collecting the modifier bits. -/
def stripMods : Nat → Bytes → Nat → Nat × Bytes
  | 0, buf, m => (m, buf)
  | fuel + 1, buf, m =>
    match buf with
    | 99 :: 45 :: rest => stripMods fuel rest (m ||| CTRL)     -- "c-"
    | 115 :: 45 :: rest => stripMods fuel rest (m ||| SHIFT)   -- "s-"
    | 97 :: 45 :: rest => stripMods fuel rest (m ||| ALT)      -- "a-"
    | _ => (m, buf)

/-- `(b as char).is_alphanumeric()` for one byte read as Latin-1. -/
def byteIsAlnum (b : UInt8) : Bool :=
  (48 ≤ b && b ≤ 57) || (65 ≤ b && b ≤ 90) || (97 ≤ b && b ≤ 122) ||
  b = 0xAA || b = 0xB5 || b = 0xBA || (0xC0 ≤ b && b ≤ 0xD6) || (0xD8 ≤ b && b ≤ 0xF6) || (0xF8 ≤ b) ||
  b = 0xB2 || b = 0xB3 || b = 0xB9 || b = 0xBC || b = 0xBD || b = 0xBE

def asciiUpper (b : UInt8) : UInt8 := if 97 ≤ b ∧ b ≤ 122 then b - 32 else b

/-- The named keys of the alias table (generated list `Gen.aliasNames` must agree, see C15). -/
def aliasNamed (buf : Bytes) : Option KeyCode :=
  if buf = bstr "esc" then some .esc
  else if buf = bstr "CR" then some (.char '\r')
  else if buf = bstr "return" ∨ buf = bstr "enter" then some .enter
  else if buf = bstr "tab" then some (.char '\t')
  else if buf = bstr "BS" then some .backspace
  else if buf = bstr "del" then some .delete
  else if buf = bstr "ins" then some .insert
  else if buf = bstr "home" then some .home
  else if buf = bstr "end" then some .end_
  else if buf = bstr "left" then some .left
  else if buf = bstr "right" then some .right
  else if buf = bstr "up" then some .up
  else if buf = bstr "down" then some .down
  else if buf = bstr "pgup" then some .pageUp
  else if buf = bstr "pgdown" then some .pageDown
  else none

def parseU8 (ds : Bytes) : Option Nat :=
  if ds.isEmpty then none
  else
    let ds' := match ds with | 43 :: r => r | _ => ds     -- a leading '+' is accepted by `parse::<u8>`
    if ds'.isEmpty ∨ !(ds'.all isDigitB) then none
    else
      let n := ds'.foldl (fun a b => a * 10 + (b.toNat - 48)) 0
      if n < 256 then some n else none

def aliasKey (buf : Bytes) : Option KeyEvent :=
  if buf.isEmpty then none
  else
    let (mods, b) := stripMods buf.length buf 0
    match aliasNamed b with
    | some k => some ⟨k, mods⟩
    | none =>
      match b with
      | [x] => if byteIsAlnum x then some ⟨.char (Char.ofNat (asciiUpper x).toNat), mods⟩ else none
      | 102 :: ds =>    -- 'f' digits
        if !ds.isEmpty ∧ ds.all isDigitB then (parseU8 ds).map (fun n => ⟨.f n, mods⟩) else none
      | _ => none

/-- Returns the key and the bytes left after the closing `>`. Without a closing `>` there is no alias
(since fix: before, `<x` at the end of the input was read as `<x>`). -/
def parseByteAlias (bs : Bytes) : Option (KeyEvent × Bytes) :=
  let buf := bs.takeWhile notGt
  let rest := (bs.dropWhile notGt).drop 1
  if (bs.dropWhile notGt).isEmpty then none
  else (aliasKey buf).map (fun k => (k, rest))

/-! ### `read_key` (reader.rs:215) -/

/-- The collection loop: `collected` holds 0–3 bytes that are not yet valid UTF-8. -/
def collectKey : Nat → Bytes → Bool → Bytes → Option KeyEvent × Reader
  | 0, bs, esc, _ => (none, ⟨bs, esc⟩)
  | fuel + 1, bs, esc, collected =>
    match bs with
    | [] => (none, ⟨[], esc⟩)
    | byte :: rest =>
      let aliasHit := if byte = 60 ∧ !esc then parseByteAlias rest else none
      match aliasHit with
      | some (k, rest') => (some k, ⟨rest', esc⟩)
      | none =>
        let esc' := if byte = 92 then !esc else false
        let collected' := collected ++ [byte]
        if collected' = [0x1b] ∧ (rest.head? = some 91 ∨ rest.head? = some 79) then
          let (k, rest') := parseEscSeq rest
          (k, ⟨rest', esc'⟩)
        else
          match decodeOne collected' with
          | some c => (some (keyEventOfChar c), ⟨rest, esc'⟩)
          | none =>
            if collected'.length ≥ 4 then (none, ⟨rest, esc'⟩)
            else collectKey fuel rest esc' collected'

def readKey (r : Reader) : Option KeyEvent × Reader := collectKey 4 r.bytes r.escaped []

/-- `while let Some(key) = read_key()`: all keys of a byte string, and the reader left behind. -/
def readAllAux : Nat → Reader → List KeyEvent → List KeyEvent × Reader
  | 0, r, acc => (acc, r)
  | fuel + 1, r, acc =>
    match readKey r with
    | (none, r') => (acc, r')
    | (some k, r') => readAllAux fuel r' (acc ++ [k])

def readAll (bs : Bytes) (escaped : Bool := false) : List KeyEvent × Reader :=
  readAllAux (bs.length + 1) ⟨bs, escaped⟩ []

end Vicut
