/-
L2, word motions (src/linebuf.rs start_of_word_forward, end_of_word_forward, start_of_word_backward,
dispatch_word_motion and the WordMotion arm of eval_motion): w W e E b B as scans over the character
classes of the graphemes. The classes (Unicode alphanumeric / whitespace) are an input: 0 = symbol,
1 = whitespace, 2 = word, 3 = mixed ("Other"). The iterator-based Rust is modelled with explicit
iterator positions (`findUp p it hi` = `Iterator::find` on `it..hi`, `findDown p k` on `(0..k).rev()`).
-/
import Vicut.Model.Verbs

namespace Vicut

structure WS where
  cls : List Nat
  deriving Repr, BEq, DecidableEq

namespace WS
def len (s : WS) : Nat := s.cls.length
def c (s : WS) (i : Nat) : Nat := s.cls[i]?.getD 3
def ws (s : WS) (i : Nat) : Bool := s.c i == 1
/-- `is_other_class_or_is_ws(a, b)` on the classes at `i` and of `cur`. -/
def otherOrWs (s : WS) (i : Nat) (cur : Nat) : Bool := s.c i == 1 || cur == 1 || s.c i != cur
end WS

def findUp (p : Nat → Bool) (it hi : Nat) : Option Nat := (List.range' it (hi - it)).find? p
def findDown (p : Nat → Bool) (k : Nat) : Option Nat := (List.range k).reverse.find? p

/-- `start_of_word_forward(pos, word, include_last_char)` -/
def startFwd (s : WS) (pos : Nat) (big incl : Bool) : Nat :=
  if pos ≥ s.len then s.len
  else if big then
    if s.ws pos then (if incl then pos else (findUp (fun i => !s.ws i) (pos + 1) s.len).getD s.len)
    else match findUp (fun i => s.ws i) pos s.len with
      | none => s.len
      | some w => if incl then w else (findUp (fun i => !s.ws i) (w + 1) s.len).getD s.len
  else
    if !s.ws pos then
      match findUp (fun i => s.otherOrWs i (s.c pos)) pos s.len with
      | none => s.len
      | some o => if !s.ws o || incl then o else (findUp (fun i => !s.ws i) (o + 1) s.len).getD s.len
    else (findUp (fun i => !s.ws i) pos s.len).getD s.len

/-- `end_of_word_forward(pos, word)` -/
def endFwd (s : WS) (pos : Nat) (big : Bool) : Nat :=
  if pos ≥ s.len then s.len
  else if pos + 1 ≥ s.len then s.len
  else
    (fun (onB : Bool) =>
      (fun (p1 it1 : Nat) =>
        if big then
          (fun (it2 : Option Nat) =>
            match it2 with
            | none => s.len
            | some it2 =>
              match findUp (fun i => s.ws i) it2 s.len with
              | none => s.len
              | some w => w - 1)
          (if s.ws p1 then (findUp (fun i => !s.ws i) it1 s.len).map (· + 1) else some it1)
        else
          (fun (st : Option (Nat × Nat)) =>
            match st with
            | none => s.len
            | some (p2, it2) =>
              match findUp (fun i => s.otherOrWs i (s.c p2)) it2 s.len with
              | none => s.len
              | some w => w - 1)
          (if s.ws p1 then (findUp (fun i => !s.ws i) it1 s.len).map (fun j => (j, j + 1)) else some (p1, it1)))
      (if onB then pos + 1 else pos) (if onB then pos + 2 else pos + 1))
    (if big then !s.ws pos && s.ws (pos + 1) else !s.ws pos && s.otherOrWs (pos + 1) (s.c pos))

/-- `start_of_word_backward(pos, word)` -/
def startBwd (s : WS) (pos : Nat) (big : Bool) : Nat :=
  if big then
    (fun (onB : Bool) =>
      (fun (p1 k1 : Nat) =>
        if p1 ≥ s.len then 0
        else
          (fun (k2 : Option Nat) =>
            match k2 with
            | none => 0
            | some k2 =>
              match findDown (fun i => s.ws i) k2 with
              | none => 0
              | some w => if w = s.len then w else w + 1)
          (if s.ws p1 then findDown (fun i => !s.ws i) k1 else some k1))
      (if onB then pos - 1 else pos) (if onB then pos - 1 else pos))
    (pos > 0 && s.ws (pos - 1))
  else
    if pos ≥ s.len then 0
    else
      (fun (onB : Bool) =>
        (fun (p1 k1 : Nat) =>
          (fun (st : Option (Nat × Nat)) =>
            match st with
            | none => 0
            | some (p2, k2) =>
              match findDown (fun i => s.otherOrWs i (s.c p2)) k2 with
              | none => 0
              | some w => w + 1)   -- fix 12116d5: a boundary found at index 0 is a boundary
          (if s.ws p1 then (findDown (fun i => !s.ws i) k1).map (fun j => (j, j)) else some (p1, k1)))
        (if onB then pos - 1 else pos) (if onB then pos - 1 else pos))
      (pos > 0 && !s.ws pos && s.otherOrWs (pos - 1) (s.c pos))

/-- `end_of_word_backward(pos, word, false)` (ge / gE). Its "not found" value is the start of the text
(fix 7be5856; it used to be the text length). -/
def endBwd (s : WS) (pos : Nat) (big : Bool) : Nat :=
  if big then
    if pos = 0 then 0
    else
      (fun (onB : Bool) =>
        (fun (p1 k1 : Nat) =>
          if p1 ≥ s.len then 0
          else if s.ws p1 then (findDown (fun i => !s.ws i) k1).getD 0
          else match findDown (fun i => s.ws i) k1 with
            | none => 0
            | some w => (findDown (fun i => !s.ws i) w).getD 0)
        (if onB then pos - 1 else pos) (if onB then pos - 1 else pos))
      (s.ws (pos - 1))
  else
    if pos ≥ s.len then 0
    else if pos = 0 then 0
    else
      (fun (onB : Bool) =>
        (fun (p1 : Nat) =>
          if !(s.ws pos) && !(s.ws p1) && s.c pos != s.c p1 then p1
          else if !s.ws pos then
            match findDown (fun i => s.otherOrWs i (s.c p1)) pos with
            | none => 0
            | some o => if !s.ws o then o else (findDown (fun i => !s.ws i) o).getD 0
          else (findDown (fun i => !s.ws i) pos).getD 0)
        (if onB then pos - 1 else pos))
      (!s.ws pos && s.otherOrWs (pos - 1) (s.c pos))

inductive WKind where | startFwd | endFwd | startBwd | endBwd
  deriving Repr, BEq, DecidableEq

def WKind.backward : WKind → Bool | .startBwd => true | .endBwd => true | _ => false

/-- `dispatch_word_motion` (normal mode: no insert-mode start position): the scan repeated `count` times,
each result clamped to the text; `include_last_char` only on the last round. -/
def dispatchWord (s : WS) (k : WKind) (big incl : Bool) : Nat → Nat → Nat
  | 0, pos => pos
  | n + 1, pos =>
    dispatchWord s k big incl n (min (match k with
      | .startFwd => startFwd s pos big (incl && n == 0)
      | .endFwd => endFwd s pos big
      | .startBwd => startBwd s pos big
      | .endBwd => endBwd s pos big) s.len)

/-- The `WordMotion` arm of `eval_motion`: `change` = the verb is `c` (`cw` keeps the trailing blank);
`selecting` matters for `ge` only (fix 2e48913). -/
def evalWord (s : WS) (cur : Nat) (k : WKind) (big : Bool) (count : Nat) (change : Bool) (selecting : Bool := false) : MK :=
  -- `b`, `B`, `ge`, `gE` with the cursor on the first grapheme of the buffer fail (fix 7be5856)
  if k.backward && cur == 0 then .null
  else
  (fun pos => match k with
    | .endFwd => MK.onto pos
    | .endBwd => if selecting then MK.on pos else MK.inclusive (ordered cur pos).1 (ordered cur pos).2
    | _ => MK.on pos)
  (min (dispatchWord s k big (change && k == .startFwd) count cur) s.len)

/-- `word_char_kind(idx, word)`: the class of the grapheme (for `W`-words every non-blank is one class),
`none` at a line terminator (class 4 in the input) and past the end: words do not run across lines. -/
def wkind (s : WS) (big : Bool) (i : Nat) : Option Nat :=
  match s.cls[i]? with
  | none => none
  | some c => if c == 4 then none else if big && c != 1 then some 3 else some c

/-- start of the run of kind `k` that ends just before index `i` -/
def runStart (s : WS) (big : Bool) (k : Nat) : Nat → Nat
  | 0 => 0
  | i + 1 => if wkind s big i == some k then runStart s big k i else i + 1

/-- end of the run of kind `k` that contains `e` (fuel = graphemes left) -/
def runEnd (s : WS) (big : Bool) (k : Nat) : Nat → Nat → Nat
  | 0, e => e
  | f + 1, e => if wkind s big (e + 1) == some k then runEnd s big k f (e + 1) else e

/-- `word_run(pos, word)`: the run of graphemes of one kind around `pos`, both ends included. -/
def wordRun (s : WS) (big : Bool) (pos : Nat) : Option (Nat × Nat) :=
  match wkind s big pos with
  | none => none
  | some k => some (runStart s big k pos, runEnd s big k (s.len - pos) pos)

/-- `text_obj_word` (rewritten in fix 12116d5): `iw` is the run under the cursor; `aw` adds the blanks after
it, or the blanks before it when none follow (but not the indent of the line); on blanks, the blanks and
the word after them. Both ends are included; `none` on an empty line. -/
def textObjWord (s : WS) (cur : Nat) (big around : Bool) : Option (Nat × Nat) :=
  match wordRun s big cur with
  | none => none
  | some (st, en) =>
    if !around then some (st, en)
    else if wkind s big cur == some 1 then
      match wordRun s big (en + 1) with
      | none => none
      | some (_, e2) => some (st, e2)
    else if wkind s big (en + 1) == some 1 then
      match wordRun s big (en + 1) with
      | none => some (st, en)
      | some (_, e2) => some (st, e2)
    else if st > 0 && wkind s big (st - 1) == some 1 then
      match wordRun s big (st - 1) with
      | none => some (st, en)
      | some (rs, _) => if rs > 0 && s.cls[rs - 1]? != some 4 then some (rs, en) else some (st, en)
    else some (st, en)

/-- The `TextObj::Word` arm of `eval_motion`. -/
def evalTextObjWord (s : WS) (cur : Nat) (big around : Bool) : MK :=
  match textObjWord s cur big around with
  | none => .null
  | some (a, b) => .inclusive a b

end Vicut
