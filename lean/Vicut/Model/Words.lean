/-
L2, word motions (src/linebuf.rs start_of_word_forward, end_of_word_forward, start_of_word_backward,
dispatch_word_motion and the WordMotion arm of eval_motion): w W e E b B as scans over the character
classes of the graphemes. The classes (Unicode alphanumeric / whitespace) are an input: 0 = symbol,
1 = whitespace, 2 = word, 3 = mixed ("Other"). The iterator-based Rust is modelled with explicit
iterator positions (`findUp p it hi` = `Iterator::find` on `it..hi`, `findDown p k` on `(0..k).rev()`).
-/
import Vicut.Model.Verbs

namespace Vicut

structure WS where
  cls : List Nat
  deriving Repr, BEq, DecidableEq

namespace WS
def len (s : WS) : Nat := s.cls.length
def c (s : WS) (i : Nat) : Nat := s.cls[i]?.getD 3
def ws (s : WS) (i : Nat) : Bool := s.c i == 1
/-- `is_other_class_or_is_ws(a, b)` on the classes at `i` and of `cur`. -/
def otherOrWs (s : WS) (i : Nat) (cur : Nat) : Bool := s.c i == 1 || cur == 1 || s.c i != cur
end WS

def findUp (p : Nat → Bool) (it hi : Nat) : Option Nat := (List.range' it (hi - it)).find? p
def findDown (p : Nat → Bool) (k : Nat) : Option Nat := (List.range k).reverse.find? p

/-- `start_of_word_forward(pos, word, include_last_char)` -/
def startFwd (s : WS) (pos : Nat) (big incl : Bool) : Nat :=
  if pos ≥ s.len then s.len
  else if big then
    if s.ws pos then (if incl then pos else (findUp (fun i => !s.ws i) (pos + 1) s.len).getD s.len)
    else match findUp (fun i => s.ws i) pos s.len with
      | none => s.len
      | some w => if incl then w else (findUp (fun i => !s.ws i) (w + 1) s.len).getD s.len
  else
    if !s.ws pos then
      match findUp (fun i => s.otherOrWs i (s.c pos)) pos s.len with
      | none => s.len
      | some o => if !s.ws o || incl then o else (findUp (fun i => !s.ws i) (o + 1) s.len).getD s.len
    else (findUp (fun i => !s.ws i) pos s.len).getD s.len

/-- `end_of_word_forward(pos, word)` -/
def endFwd (s : WS) (pos : Nat) (big : Bool) : Nat :=
  if pos ≥ s.len then s.len
  else if pos + 1 ≥ s.len then s.len
  else
    (fun (onB : Bool) =>
      (fun (p1 it1 : Nat) =>
        if big then
          (fun (it2 : Option Nat) =>
            match it2 with
            | none => s.len
            | some it2 =>
              match findUp (fun i => s.ws i) it2 s.len with
              | none => s.len
              | some w => w - 1)
          (if s.ws p1 then (findUp (fun i => !s.ws i) it1 s.len).map (· + 1) else some it1)
        else
          (fun (st : Option (Nat × Nat)) =>
            match st with
            | none => s.len
            | some (p2, it2) =>
              match findUp (fun i => s.otherOrWs i (s.c p2)) it2 s.len with
              | none => s.len
              | some w => w - 1)
          (if s.ws p1 then (findUp (fun i => !s.ws i) it1 s.len).map (fun j => (j, j + 1)) else some (p1, it1)))
      (if onB then pos + 1 else pos) (if onB then pos + 2 else pos + 1))
    (if big then !s.ws pos && s.ws (pos + 1) else !s.ws pos && s.otherOrWs (pos + 1) (s.c pos))

/-- `start_of_word_backward(pos, word)` -/
def startBwd (s : WS) (pos : Nat) (big : Bool) : Nat :=
  if big then
    (fun (onB : Bool) =>
      (fun (p1 k1 : Nat) =>
        if p1 ≥ s.len then 0
        else
          (fun (k2 : Option Nat) =>
            match k2 with
            | none => 0
            | some k2 =>
              match findDown (fun i => s.ws i) k2 with
              | none => 0
              | some w => if w = s.len then w else w + 1)
          (if s.ws p1 then findDown (fun i => !s.ws i) k1 else some k1))
      (if onB then pos - 1 else pos) (if onB then pos - 1 else pos))
    (pos > 0 && s.ws (pos - 1))
  else
    if pos ≥ s.len then 0
    else
      (fun (onB : Bool) =>
        (fun (p1 k1 : Nat) =>
          (fun (st : Option (Nat × Nat)) =>
            match st with
            | none => 0
            | some (p2, k2) =>
              match findDown (fun i => s.otherOrWs i (s.c p2)) k2 with
              | none => 0
              | some w => if w = 0 then 0 else w + 1)
          (if s.ws p1 then (findDown (fun i => !s.ws i) k1).map (fun j => (j, j)) else some (p1, k1)))
        (if onB then pos - 1 else pos) (if onB then pos - 1 else pos))
      (pos > 0 && !s.ws pos && s.otherOrWs (pos - 1) (s.c pos))

/-- `end_of_word_backward(pos, word, false)` (ge / gE). Its "not found" value is the text length. -/
def endBwd (s : WS) (pos : Nat) (big : Bool) : Nat :=
  if big then
    if pos = 0 then s.len
    else
      (fun (onB : Bool) =>
        (fun (p1 k1 : Nat) =>
          if p1 ≥ s.len then s.len
          else if s.ws p1 then (findDown (fun i => !s.ws i) k1).getD s.len
          else match findDown (fun i => s.ws i) k1 with
            | none => s.len
            | some w => (findDown (fun i => !s.ws i) w).getD s.len)
        (if onB then pos - 1 else pos) (if onB then pos - 1 else pos))
      (s.ws (pos - 1))
  else
    if pos ≥ s.len then s.len
    else if pos = 0 then s.len
    else
      (fun (onB : Bool) =>
        (fun (p1 : Nat) =>
          if !(s.ws pos) && !(s.ws p1) && s.c pos != s.c p1 then p1
          else if !s.ws pos then
            match findDown (fun i => s.otherOrWs i (s.c p1)) pos with
            | none => s.len
            | some o => if !s.ws o then o else (findDown (fun i => !s.ws i) o).getD s.len
          else (findDown (fun i => !s.ws i) pos).getD s.len)
        (if onB then pos - 1 else pos))
      (!s.ws pos && s.otherOrWs (pos - 1) (s.c pos))

inductive WKind where | startFwd | endFwd | startBwd | endBwd
  deriving Repr, BEq, DecidableEq

/-- `dispatch_word_motion` (normal mode: no insert-mode start position): the scan repeated `count` times,
each result clamped to the text; `include_last_char` only on the last round. -/
def dispatchWord (s : WS) (k : WKind) (big incl : Bool) : Nat → Nat → Nat
  | 0, pos => pos
  | n + 1, pos =>
    dispatchWord s k big incl n (min (match k with
      | .startFwd => startFwd s pos big (incl && n == 0)
      | .endFwd => endFwd s pos big
      | .startBwd => startBwd s pos big
      | .endBwd => endBwd s pos big) s.len)

/-- The `WordMotion` arm of `eval_motion`: `change` = the verb is `c` (`cw` keeps the trailing blank);
`selecting` matters for `ge` only (fix 2e48913). -/
def evalWord (s : WS) (cur : Nat) (k : WKind) (big : Bool) (count : Nat) (change : Bool) (selecting : Bool := false) : MK :=
  (fun pos => match k with
    | .endFwd => MK.onto pos
    | .endBwd => if selecting then MK.on pos else MK.inclusive (ordered cur pos).1 (ordered cur pos).2
    | _ => MK.on pos)
  (min (dispatchWord s k big (change && k == .startFwd) count cur) s.len)

/-- `is_word_bound(pos, word, dir)` -/
def isWordBound (s : WS) (pos : Nat) (big fwd : Bool) : Bool :=
  if s.len = 0 then false
  else
    (fun cp =>
      (fun other =>
        if other = cp then true
        else if big then s.ws other else s.otherOrWs other (s.c cp))
      (if fwd then min (cp + 1) (s.len - 1) else cp - 1))
    (min pos (s.len - 1))

/-- `text_obj_word` (iw / aw / iW / aW — inside and around are the same code): the raw (start, end). -/
def textObjWord (s : WS) (cur : Nat) (big : Bool) : Nat × Nat :=
  (if isWordBound s cur big false then cur else startBwd s cur big,
   if isWordBound s cur big true then cur else endFwd s cur big)

/-- The `TextObj::Word` arm of `eval_motion`. -/
def evalTextObjWord (s : WS) (cur : Nat) (big around : Bool) : MK :=
  if around then .exclusive (textObjWord s cur big).1 (textObjWord s cur big).2
  else .inclusive (textObjWord s cur big).1 (textObjWord s cur big).2

end Vicut
