/-
L3: dot repeat (src/exec.rs handle_cmd_repeat, the recording in exec_cmd / handle_mode_transition,
src/vicmd.rs normalize_counts / is_repeatable). A command is its register, verb, motion, counts and
flags; what the verb and motion *do* is opaque (strings): the machine only decides *which* commands
are handed to LineBuf::exec_cmd.
-/
namespace Vicut

inductive VKind where
  | insertMode | change | lineBreak | replaceMode | normalMode | other
  deriving Repr, BEq, DecidableEq

structure RCmd where
  reg : String := ""
  kind : VKind := .other
  verb : Option String := none      -- verb body (without the count it may carry itself)
  vcount : Nat := 1
  payload : Option Nat := none      -- the count r and ~ carry inside the verb
  motion : Option String := none
  mcount : Nat := 1
  flags : Nat := 0
  repeatable : Bool := false        -- Verb::is_repeatable (table extracted from the source)
  deriving Repr, BEq, DecidableEq

/-- `normalize_counts` -/
def RCmd.normalize (c : RCmd) : RCmd :=
  if c.verb.isNone ∨ c.motion.isNone ∨ c.kind == .insertMode then c
  else { c with vcount := 1, mcount := c.vcount * c.mcount }

/-- The count override of `.` on a single command. -/
def RCmd.withCount (c : RCmd) (n : Nat) : RCmd :=
  ({ c with vcount := n, payload := c.payload.map (fun _ => n), mcount := if c.motion.isSome then 1 else c.mcount }).normalize

inductive Replay where
  | single (c : RCmd)
  | mode (cmds : List RCmd) (reps : Nat)
  deriving Repr, BEq, DecidableEq

def opens (c : RCmd) : Bool := c.kind == .insertMode || c.kind == .change || c.kind == .lineBreak || c.kind == .replaceMode
def closes (c : RCmd) : Bool := c.kind == .normalMode

def splitEntry (cmds : List RCmd) : Option RCmd × List RCmd :=
  match cmds with
  | f :: rest => if opens f then (some f, rest) else (none, cmds)
  | [] => (none, [])

def splitExit (rest : List RCmd) : Option RCmd × List RCmd :=
  match rest.getLast? with
  | some l => if closes l then (some l, rest.dropLast) else (none, rest)
  | none => (none, [])

def isChangeEntry (e : Option RCmd) : Bool :=
  match e with
  | some c => c.kind == .change && c.motion.isSome
  | none => false

/-- `line_below_entry`: for a session opened with `o`/`O`, the command that opens the line for the next
repetition of a counted session (always below the line just typed; fix for `3oX`). -/
def belowEntry (e : Option RCmd) : Option RCmd :=
  match e with
  | some c => if c.kind == .lineBreak then some { c with verb := some "InsertModeLineBreak(After)", vcount := 1 } else none
  | none => none

/-- the typed text `k` times; for an `o`/`O` session every repetition after the first on a line of its own -/
def rounds (below : Option RCmd) (typed : List RCmd) (k : Nat) : List RCmd :=
  match below with
  | none => (List.replicate k typed).flatten
  | some b => typed ++ (List.replicate (k - 1) (b :: typed)).flatten

/-- The replay of a session: entry once, the text `k` times, <esc> once. -/
def modeExecs (cmds : List RCmd) (reps n : Nat) : List RCmd :=
  (if decide (n > 1) && isChangeEntry (splitEntry cmds).1
     then (splitEntry cmds).1.map (fun c => c.withCount n) else (splitEntry cmds).1).toList
  ++ rounds (belowEntry (splitEntry cmds).1) (splitExit (splitEntry cmds).2).2
        (max (if decide (n > 1) && !isChangeEntry (splitEntry cmds).1 then n else reps) 1)
  ++ (splitExit (splitEntry cmds).2).1.toList

/-- What `.` with count `n` (1 = none) hands to `LineBuf::exec_cmd`, in order. -/
def dotExecs (rep : Option Replay) (n : Nat) : List RCmd :=
  match rep with
  | none => []
  | some (.single c) =>
    if n > 1 then (if c.verb.isSome then [c.withCount n] else []) else [c]
  | some (.mode cmds reps) => modeExecs cmds reps n

/-- The entry command as `.` with count `n` executes it (the count goes onto the motion of a change). -/
def replayEntry (cmds : List RCmd) (n : Nat) : Option RCmd :=
  if decide (n > 1) && isChangeEntry (splitEntry cmds).1
    then (splitEntry cmds).1.map (fun c => c.withCount n) else (splitEntry cmds).1

def entryFails (fails : RCmd → Bool) : Option RCmd → Bool
  | some e => e.kind == .change && fails e
  | none => false

/-- `change_is_abandoned` seen from the repeat machine (fixes 24a4bde, 8fa59dd): `fails c` is the editor's
verdict that the motion of the change `c` fails where the cursor is. A session replay whose entry is such a
change hands nothing to the editor, exactly like typing it again would. -/
def dotExecsA (fails : RCmd → Bool) (rep : Option Replay) (n : Nat) : List RCmd :=
  match rep with
  | some (.mode cmds reps) =>
    if entryFails fails (replayEntry cmds n) then [] else modeExecs cmds reps n
  | _ => dotExecs rep n

/-- What typing the session executes: entry, the text (`repeat` times when it is closed), <esc>. -/
def sessionExecs (entry : RCmd) (typed : List RCmd) (exit : RCmd) (reps : Nat) : List RCmd :=
  [entry] ++ rounds (belowEntry (some entry)) typed (max reps 1) ++ [exit]

/-- Typing a change: abandoned when its motion fails, else the session as typed. -/
def sessionExecsA (fails : RCmd → Bool) (entry : RCmd) (typed : List RCmd) (exit : RCmd) (reps : Nat) : List RCmd :=
  if entry.kind == .change && fails entry then [] else sessionExecs entry typed exit reps

/-- The recording: a repeatable command executed in normal/visual mode becomes the replay. -/
def recordCmd (rep : Option Replay) (c : RCmd) : Option Replay :=
  if c.repeatable then some (.single c) else rep

/-- The recording since fix aec32a0: a command whose motion failed did nothing and is not what `.` repeats
(`failed` is the editor's verdict). -/
def recordCmdF (rep : Option Replay) (c : RCmd) (failed : Bool) : Option Replay :=
  if c.repeatable && !failed then some (.single c) else rep

/-- Leaving an insert/replace session: entry command, everything typed, the closing <esc>. -/
def recordSession (entry : RCmd) (typed : List RCmd) (exit : RCmd) (reps : Nat) : Option Replay :=
  some (.mode (entry :: typed ++ [exit]) reps)

end Vicut
