/-
L2, simple motions (src/linebuf.rs eval_motion): h l 0 ^ $ gg G | and the whole-buffer range, as
functions from the editor state to the `MotionKind` handed to the verbs. Character classes (Unicode
`is_whitespace`) are an input (`ws`: one flag per grapheme).
-/
import Vicut.Model.Verbs

namespace Vicut

structure MS where
  gs : List Gr
  cur : Nat
  excl : Bool
  selecting : Bool
  ws : List Bool
  deriving Repr, BEq, DecidableEq

def MS.lb (s : MS) : LB := ⟨s.gs, s.cur, s.excl⟩
def MS.max (s : MS) : Nat := s.gs.length
def MS.isNlAt (s : MS) (i : Nat) : Bool := match s.gs[i]? with | some g => isNl g | none => false

/-- `start_of_line()` / `end_of_line()`; `this_line()` unwraps (a cursor inside the text always has a line). -/
def MS.thisLine (s : MS) : Nat × Nat := (Vicut.thisLine s.lb).getD (0, s.max)
def MS.sol (s : MS) : Nat := s.thisLine.1
def MS.eol (s : MS) : Nat := s.thisLine.2

/-- `l` with a count: the position reached, `none` = `MotionKind::Null`. -/
def forwardGo (s : MS) : Nat → Nat → Option Nat
  | 0, t => some t
  | n + 1, t =>
    if !s.selecting && s.excl && s.isNlAt (min (t + 1) s.max) then none
    else if s.selecting && s.isNlAt t then some t
    else forwardGo s n (min (t + 1) s.max)

/-- `h` with a count. -/
def backwardGo (s : MS) : Nat → Nat → Option Nat
  | 0, t => some t
  | n + 1, t => if s.isNlAt (t - 1) then none else backwardGo s n (t - 1)

/-- `select_lines_down(n)` -/
def MS.selectLinesDown (s : MS) (n : Nat) : Option (Nat × Nat) :=
  if s.eol = s.max then none
  else (lineBounds s.gs (cursorLine s.lb + n)).map (fun b => (s.sol, b.2))

/-- First non-blank of the cursor line (scan stops at the terminator). -/
def firstWordGo (s : MS) : Nat → Nat → Option Nat
  | 0, _ => none
  | fuel + 1, i =>
    if i ≥ s.max then none
    else if !(s.ws[i]?.getD false) then some i
    else if s.isNlAt i then none
    else firstWordGo s fuel (i + 1)

inductive SMotion where
  | forwardChar | backwardChar | bol | eol | firstWord | bob | eob | toColumn | wholeBuffer
  deriving Repr, BEq, DecidableEq

def evalSimple (s : MS) (m : SMotion) (count : Nat) (appending : Bool) : MK :=
  match m with
  | .forwardChar => match forwardGo s count s.cur with | some p => .on p | none => .null
  | .backwardChar => match backwardGo s count s.cur with | some p => .on p | none => .null
  | .bol => .on s.sol
  | .eol =>
    -- end_of_line() is exclusive and counts the terminator: step back onto it (fix 1f0fadd)
    (fun pos0 =>
      (fun pos =>
        if !appending && s.isNlAt pos && pos > 0 && !s.isNlAt (pos - 1) then MK.on (pos - 1) else MK.on pos)
      (if pos0 > 0 && s.isNlAt (pos0 - 1) then pos0 - 1 else pos0))
    (if count = 1 then s.eol else match s.selectLinesDown (count - 1) with | some b => b.2 | none => s.eol)
  | .firstWord => match firstWordGo s (s.max + 1) s.sol with | some p => .on p | none => .null
  | .bob => .lineOffset (-(cursorLine s.lb : Int))
  | .eob => .lineOffset ((totalLines s.gs : Int) - (cursorLine s.lb : Int))
  | .toColumn => .on (min (s.sol + (count - 1)) s.max)
  | .wholeBuffer => .exclusive 0 s.max

end Vicut

namespace Vicut

/-- `f F t T` with a count (`CharSearch(direction, dest, ch)`): the cursor keeps its clamp kind while it
scans; `F`/`T` scan everything before the cursor (`(0..pos).rev()`, since fix 602f313; before, the grapheme
next to the cursor was skipped). -/
def charSearchGo (gs : List Gr) (ub : Nat) (fwd before : Bool) (ch : Gr) : Nat → Nat → Option Nat
  | 0, pos => some pos
  | n + 1, pos =>
    if fwd then
      match (List.range' (min (pos + 1) ub) (gs.length - min (pos + 1) ub)).find? (fun i => gs[i]? == some ch) with
      | none => none
      | some i => charSearchGo gs ub fwd before ch n (if before then min i ub - 1 else min i ub)
    else
      match (List.range pos).reverse.find? (fun i => gs[i]? == some ch) with
      | none => none
      | some i => charSearchGo gs ub fwd before ch n (if before then min (min i ub + 1) ub else min i ub)

def evalCharSearch (gs : List Gr) (cur : Nat) (excl fwd before : Bool) (ch : Gr) (count : Nat) : MK :=
  match charSearchGo gs (if excl then gs.length - 1 else gs.length) fwd before ch count cur with
  | some p => .onto p
  | none => .null

end Vicut

namespace Vicut

def clampTo (v len : Nat) (excl : Bool) : Nat := min v (if excl then len - 1 else len)

/-- `move_cursor` for a command without a verb and without an active selection: the cursor value after
applying the `MotionKind`. `savedCol` is the remembered column (only used by line offsets). -/
def moveCursor (s : MS) (mk : MK) (savedCol : Option Nat) : Nat :=
  match mk with
  | .on p | .onto p => clampTo p s.max s.excl
  | .to p => if p > clampTo p s.max s.excl then clampTo p s.max s.excl - 1 else clampTo p s.max s.excl
  | .blockRange ws => match ws.head? with | some w => clampTo w.1 s.max s.excl | none => s.cur
  | .line n | .lineRange n _ => match lineBounds s.gs n with | some b => clampTo b.1 s.max s.excl | none => s.cur
  | .lineOffset k =>
    (fun target =>
      if target > totalLines s.gs then clampTo s.max s.max s.excl
      else match lineBounds s.gs target with
        | some b => clampTo (b.1 + savedCol.getD 0) s.max s.excl
        | none => s.cur)
    (if k < 0 then cursorLine s.lb - k.natAbs else cursorLine s.lb + k.toNat)
  | .inclTarget _ _ col | .exclTarget _ _ col => clampTo (s.sol + min s.eol col) s.max s.excl
  | .inclusive a _ | .exclusive a _ => clampTo a s.max s.excl
  | .lines _ | .null => s.cur

/-- ... followed by the epilogue of `exec_cmd` (text unchanged): step off a line terminator under the
exclusive clamp. -/
def cursorAfterMotion (s : MS) (mk : MK) (savedCol : Option Nat) : Nat :=
  (fun v => if s.excl && s.isNlAt v && v > 0 && !s.isNlAt (v - 1) then v - 1 else v) (moveCursor s mk savedCol)

end Vicut
