/-
L2, simple motions (src/linebuf.rs eval_motion): h l 0 ^ $ gg G | and the whole-buffer range, as
functions from the editor state to the `MotionKind` handed to the verbs. Character classes (Unicode
`is_whitespace`) are an input (`ws`: one flag per grapheme).
-/
import Vicut.Model.Verbs

namespace Vicut

structure MS where
  gs : List Gr
  cur : Nat
  excl : Bool
  selecting : Bool
  ws : List Bool
  deriving Repr, BEq, DecidableEq

def MS.lb (s : MS) : LB := ⟨s.gs, s.cur, s.excl⟩
def MS.max (s : MS) : Nat := s.gs.length
def MS.isNlAt (s : MS) (i : Nat) : Bool := match s.gs[i]? with | some g => isNl g | none => false

/-- `start_of_line()` / `end_of_line()`; `this_line()` unwraps (a cursor inside the text always has a line). -/
def MS.thisLine (s : MS) : Nat × Nat := (Vicut.thisLine s.lb).getD (0, s.max)
def MS.sol (s : MS) : Nat := s.thisLine.1
def MS.eol (s : MS) : Nat := s.thisLine.2

/-- `l` with a count: the position reached. In normal mode (exclusive cursor, no selection) it goes as
far as the line allows: it stops on a terminator, and without an operator it stops on the last character
(fix 5968289; before, a count too large made the motion fail and an operator never got the last character). -/
def forwardGo (s : MS) (hasVerb : Bool) : Nat → Nat → Nat
  | 0, t => t
  | n + 1, t =>
    if !s.selecting && s.excl then
      if s.isNlAt t then t
      else if !hasVerb && s.isNlAt (min (t + 1) s.max) then t
      else forwardGo s hasVerb n (min (t + 1) s.max)
    else if s.selecting && s.isNlAt t then t
    else forwardGo s hasVerb n (min (t + 1) s.max)

/-- `h` with a count: as far as the start of the line (fix 0954d9e; before, a count larger than the column
made the motion fail). -/
def backwardGo (s : MS) : Nat → Nat → Nat
  | 0, t => t
  | n + 1, t => if t = 0 ∨ s.isNlAt (t - 1) then t else backwardGo s n (t - 1)

/-- `select_lines_down(n)`: the cursor line alone for `n = 0` (also on the last line); with lines below,
a count that is too large takes the lines there are; the position after a final newline is no line
(fix 0cdfd90). -/
def MS.selectLinesDown (s : MS) (n : Nat) : Option (Nat × Nat) :=
  if n = 0 then some (s.sol, s.eol)
  else if s.eol = s.max then none
  else (lineBounds s.gs (min (cursorLine s.lb + n) (lastLineNumber s.gs))).map (fun b => (s.sol, b.2))

/-- First non-blank of the cursor line (scan stops at the terminator). -/
def firstWordGo (s : MS) : Nat → Nat → Option Nat
  | 0, _ => none
  | fuel + 1, i =>
    if i ≥ s.max then none
    else if !(s.ws[i]?.getD false) then some i
    else if s.isNlAt i then none
    else firstWordGo s fuel (i + 1)

/-- first non-blank of the line `p ..< e` (stays on the last grapheme of a blank line) -/
def skipBlanks (s : MS) (e : Nat) : Nat → Nat → Nat
  | 0, p => p
  | f + 1, p =>
    if p + 1 < e && (s.ws[p]?.getD false) && !s.isNlAt p && decide (p + 1 < s.max) && !s.isNlAt (p + 1)
    then skipBlanks s e f (p + 1) else p

inductive SMotion where
  | forwardChar | backwardChar | bol | eol | firstWord | bob | eob | toColumn | wholeBuffer
  deriving Repr, BEq, DecidableEq

def evalSimple (s : MS) (m : SMotion) (count : Nat) (hasVerb : Bool) : MK :=
  match m with
  | .forwardChar =>
    (fun p => if !s.selecting && s.excl && p == s.cur then MK.null else MK.on p) (forwardGo s hasVerb count s.cur)
  | .backwardChar => (fun p => if p == s.cur then MK.null else MK.on p) (backwardGo s count s.cur)
  | .bol => .on s.sol
  | .eol =>
    -- end_of_line() is exclusive and counts the terminator: step back onto it (fix 1f0fadd); an operator
    -- works up to the terminator (fix 1f4e5d1); `N$` without that many lines below fails
    match (if count = 1 then some s.eol else (s.selectLinesDown (count - 1)).map (fun b => b.2)) with
    | none => .null
    | some pos0 =>
      -- (in visual mode `$` takes the terminator into the selection, except the buffer's last one: fix 5530bbc)
      (fun pos =>
        if !hasVerb && !(s.selecting && decide (pos + 1 < s.max)) && s.isNlAt pos && pos > 0 && !s.isNlAt (pos - 1)
        then MK.on (pos - 1) else MK.on pos)
      (if pos0 > 0 && s.isNlAt (pos0 - 1) then pos0 - 1 else pos0)
  | .firstWord => match firstWordGo s (s.max + 1) s.sol with | some p => .on p | none => .null
  -- as plain motions `gg`/`G` go to the first non-blank of the first/last line; with an operator or a
  -- selection they are the linewise offset to that line (fix 1a27068: the position after a final newline
  -- is not a line)
  | .bob =>
    if !hasVerb && !s.selecting then
      match lineBounds s.gs 0 with
      | some b => .on (skipBlanks s b.2 (b.2 - b.1) b.1)
      | none => .null
    else .lineOffset (-(cursorLine s.lb : Int))
  | .eob =>
    -- `[N]G` goes to line N (fix 7751e1d; a count of one cannot be told from no count: the last line)
    (fun target =>
      if !hasVerb && !s.selecting then
        match lineBounds s.gs target with
        | some b => MK.on (skipBlanks s b.2 (b.2 - b.1) b.1)
        | none => MK.null
      else MK.lineOffset ((target : Int) - (cursorLine s.lb : Int)))
    (if count > 1 then min (count - 1) (lastLineNumber s.gs) else lastLineNumber s.gs)
  | .toColumn => .on (min (s.sol + (count - 1)) s.max)
  | .wholeBuffer => .exclusive 0 s.max

end Vicut

namespace Vicut

/-- `f F t T` with a count (`CharSearch(direction, dest, ch)`): the occurrence search on the cursor line
(`lo ..< hi` = the line, fix "f F t T crossed line boundaries"); the cursor keeps its clamp kind while it
scans; `F`/`T` scan everything before the cursor on the line (since fix 602f313; before, the grapheme next to
the cursor was skipped). -/
def charSearchGo (gs : List Gr) (ub lo hi : Nat) (fwd : Bool) (ch : Gr) : Nat → Nat → Option Nat
  | 0, pos => some pos
  | n + 1, pos =>
    if fwd then
      match (List.range' (min (pos + 1) ub) (hi - min (pos + 1) ub)).find? (fun i => gs[i]? == some ch) with
      | none => none
      | some i => charSearchGo gs ub lo hi fwd ch n (min i ub)
    else
      match (List.range' lo (pos - lo)).reverse.find? (fun i => gs[i]? == some ch) with
      | none => none
      | some i => charSearchGo gs ub lo hi fwd ch n (min i ub)

/-- `count` occurrences are searched first; `t`/`T` then stop next to the last one (fix f7e2646: the step
used to be taken inside the loop, so `2ta` found the same occurrence twice). -/
def charSearchTarget (s : MS) (fwd before : Bool) (p : Nat) : Nat :=
  if before then (if fwd then p - 1 else min (p + 1) (if s.excl then s.max - 1 else s.max)) else p

/-- With an operator, a forward search that ends on the cursor itself (`dta` with the `a` right after the
cursor) still takes the cursor grapheme (fix 302302f). -/
def evalCharSearch (s : MS) (fwd before : Bool) (ch : Gr) (count : Nat) (hasVerb : Bool := false) : MK :=
  match charSearchGo s.gs (if s.excl then s.max - 1 else s.max) s.sol s.eol fwd ch count s.cur with
  | some p =>
    if hasVerb && fwd && charSearchTarget s fwd before p == s.cur then .inclusive s.cur s.cur
    else .onto (charSearchTarget s fwd before p)
  | none => .null

end Vicut

namespace Vicut

def clampTo (v len : Nat) (excl : Bool) : Nat := min v (if excl then len - 1 else len)

/-- `move_cursor` for a command without a verb and without an active selection: the cursor value after
applying the `MotionKind`. `savedCol` is the remembered column (only used by line offsets). -/
def moveCursor (s : MS) (mk : MK) (savedCol : Option Nat) : Nat :=
  match mk with
  | .on p | .onto p => clampTo p s.max s.excl
  | .to p => if p > clampTo p s.max s.excl then clampTo p s.max s.excl - 1 else clampTo p s.max s.excl
  | .blockRange ws => match ws.head? with | some w => clampTo w.1 s.max s.excl | none => s.cur
  | .line n | .lineRange n _ => match lineBounds s.gs n with | some b => clampTo b.1 s.max s.excl | none => s.cur
  | .lineOffset k =>
    (fun target =>
      if target > totalLines s.gs then clampTo s.max s.max s.excl
      else match lineBounds s.gs target with
        | some b => clampTo (b.1 + savedCol.getD 0) s.max s.excl
        | none => s.cur)
    (if k < 0 then cursorLine s.lb - k.natAbs else cursorLine s.lb + k.toNat)
  | .inclTarget _ _ col | .exclTarget _ _ col => clampTo (s.sol + min s.eol col) s.max s.excl
  | .inclusive a _ | .exclusive a _ => clampTo a s.max s.excl
  | .lines _ | .null => s.cur

/-- ... followed by the epilogue of `exec_cmd` (text unchanged): step off a line terminator under the
exclusive clamp. -/
def cursorAfterMotion (s : MS) (mk : MK) (savedCol : Option Nat) : Nat :=
  (fun v => if s.excl && s.isNlAt v && v > 0 && !s.isNlAt (v - 1) then v - 1 else v) (moveCursor s mk savedCol)

end Vicut

namespace Vicut

/-- a line that is empty (nothing, or just its terminator): what `}` and `{` stop on -/
def lineEmpty (gs : List Gr) (n : Nat) : Bool :=
  match lineBounds gs n with
  | some (st, en) => st == en || (en - st == 1 && isNlAtGs gs st)
  | none => true

/-- One `}` / `{` step over line numbers (the inner `loop` of `paragraph_motion`): walk until an empty
line is met after a non-empty one; at the edge of the buffer stay there, or fail when more steps are
asked for. -/
def paraLoop (gs : List Gr) (last : Nat) (fwd : Bool) (stepsLeft : Nat) : Nat → Nat → Bool → Bool → Option Nat
  | 0, curr, _, _ => some curr
  | f + 1, curr, didSkip, first =>
    if !first && (didSkip || !lineEmpty gs curr) && lineEmpty gs curr then some curr
    else if (fwd && curr == last) || (!fwd && curr == 0) then (if stepsLeft > 0 then none else some curr)
    else paraLoop gs last fwd stepsLeft f (if fwd then curr + 1 else curr - 1) (didSkip || !lineEmpty gs curr) false

def paraGo (gs : List Gr) (last : Nat) (fwd : Bool) : Nat → Nat → Option Nat
  | 0, curr => some curr
  | k + 1, curr =>
    match paraLoop gs last fwd k (last + 2) curr false true with
    | none => none
    | some c => paraGo gs last fwd k c

/-- `}` / `{` as a `MotionKind` (fix 30a6747): the start of the line reached; on the last line going
forward its last character, which an operator takes. -/
def evalParagraph (s : MS) (fwd : Bool) (count : Nat) (hasVerb : Bool) : MK :=
  match paraGo s.gs (lastLineNumber s.gs) fwd count (min (cursorLine s.lb) (lastLineNumber s.gs)) with
  | none => .null
  | some curr =>
    match lineBounds s.gs curr with
    | none => .null
    | some (st, en) =>
      if fwd && curr == lastLineNumber s.gs then
        (fun ce =>
          if ce > st then
            (if hasVerb && ce - 1 == s.cur then MK.inclusive (ce - 1) (ce - 1) else MK.onto (ce - 1))
          else MK.on st)
        (if en > st && s.isNlAt (en - 1) then en - 1 else en)
      else .on st

end Vicut

namespace Vicut

/-- Paragraph objects over lines (fix 377b03c). `blank` has one flag per line: nothing on it but blanks. -/
structure PL where
  blank : List Bool
  deriving Repr, BEq, DecidableEq

def PL.last (p : PL) : Nat := p.blank.length - 1
def PL.b (p : PL) (i : Nat) : Bool := p.blank[i]?.getD true

/-- `while first_line > 0 && blank(first_line - 1) == kind { first_line -= 1 }` -/
def PL.runUp (p : PL) (kind : Bool) : Nat → Nat
  | 0 => 0
  | i + 1 => if p.b i == kind then p.runUp kind i else i + 1

/-- `while last_line < last && blank(last_line + 1) == kind { last_line += 1 }` (fuel = lines below) -/
def PL.runDown (p : PL) (kind : Bool) : Nat → Nat → Nat
  | 0, l => l
  | f + 1, l => if l < p.last && p.b (l + 1) == kind then p.runDown kind f (l + 1) else l

/-- `extend`: one more run of lines of one kind, downwards; `none` at the end of the buffer. -/
def PL.extend (p : PL) (l : Nat) : Option Nat :=
  if l == p.last then none else some (p.runDown (p.b (l + 1)) (p.last - l) (l + 1))

/-- the `count - 1` further steps of `ip` -/
def PL.moreRuns (p : PL) : Nat → Nat → Option Nat
  | 0, l => some l
  | k + 1, l => match p.extend l with | none => none | some l' => p.moreRuns k l'

/-- the `count - 1` further steps of `ap`: a further paragraph with the blank lines after it (on blank
lines: further blank lines with the paragraph after them) -/
def PL.moreParas (p : PL) (onBlank : Bool) : Nat → Nat → Option Nat
  | 0, l => some l
  | k + 1, l =>
    match p.extend l with
    | none => none
    | some l1 =>
      if onBlank then
        (if p.b l1 then (match p.extend l1 with | none => none | some l2 => p.moreParas onBlank k l2)
         else p.moreParas onBlank k l1)
      else if !p.b l1 then p.moreParas onBlank k ((p.extend l1).getD l1)
      else p.moreParas onBlank k l1

/-- `text_obj_paragraph`: first and last line number of `ip` / `ap` with a count. -/
def PL.textObj (p : PL) (cur : Nat) (count : Nat) (around : Bool) : Option (Nat × Nat) :=
  (fun c =>
    (fun first lastl =>
      if !around then (p.moreRuns (count - 1) lastl).map (fun l => (first, l))
      else if p.b c then
        match p.extend lastl with
        | none => none
        | some l1 => (p.moreParas true (count - 1) l1).map (fun l => (first, l))
      else
        match p.extend lastl with
        | some l1 => (p.moreParas false (count - 1) l1).map (fun l => (first, l))
        | none => (p.moreParas false (count - 1) lastl).map (fun l => (p.runUp true first, l)))
    (p.runUp (p.b c) c) (p.runDown (p.b c) (p.last - c) c))
  (min cur p.last)

end Vicut

namespace Vicut

/-- Sentences (fix 819437b), over grapheme kinds: 0 other, 1 blank (space, tab), 2 line terminator,
3 sentence punctuation (`. ! ?`), 4 closer (`) ] " '`). -/
structure SK where
  k : List Nat
  deriving Repr, BEq, DecidableEq

namespace SK
def len (s : SK) : Nat := s.k.length
def at_ (s : SK) (i : Nat) : Option Nat := s.k[i]?
def isK (s : SK) (i v : Nat) : Bool := s.k[i]? == some v
def lineStart (s : SK) (i : Nat) : Bool := i == 0 || s.isK (i - 1) 2

/-- `while kind(i) == v { i += 1 }` -/
def skip (s : SK) (v : Nat) : Nat → Nat → Nat
  | 0, i => i
  | f + 1, i => if s.isK i v then s.skip v f (i + 1) else i

/-- the blanks and line breaks after a sentence end, stopping in front of an empty line -/
def skipWhite (s : SK) : Nat → Nat → Nat
  | 0, i => i
  | f + 1, i =>
    if s.isK i 1 then s.skipWhite f (i + 1)
    else if s.isK i 2 then (if s.isK (i + 1) 2 then i + 1 else s.skipWhite f (i + 1))
    else i

/-- the sentence starts that position `i` contributes (`sentence_starts`, one round of its loop) -/
def contrib (s : SK) (i : Nat) : List Nat :=
  if s.isK i 2 && s.lineStart i then
    (if i == 0 || (decide (i ≥ 2) && !s.isK (i - 2) 2) then [i] else []) ++
    (fun k => if decide (k < s.len) && !s.isK k 2 then [k] else [])
      (s.skip 1 s.len (s.skip 2 s.len i))
  else if s.isK i 3 then
    (fun j =>
      if (match s.at_ j with | none => true | some v => v == 1 || v == 2) then
        (fun k => if k < s.len then [k] else []) (s.skipWhite s.len j)
      else [])
    (s.skip 4 s.len (i + 1))
  else []

def startsList (s : SK) : List Nat :=
  (if s.len > 0 then [0] else []) ++ (List.range s.len).flatMap s.contrib

def isStart (s : SK) (i : Nat) : Bool := s.startsList.contains i

/-- `starts.iter().find(|start| start > pos)` on the sorted, deduplicated list -/
def nextStart (s : SK) (pos : Nat) : Option Nat := (List.range' (pos + 1) (s.len - (pos + 1))).find? s.isStart
/-- `starts.iter().rev().find(|start| start < pos)` -/
def prevStart (s : SK) (pos : Nat) : Option Nat := (List.range pos).reverse.find? s.isStart

/-- `(` with a count: `none` = the motion fails -/
def backGo (s : SK) : Nat → Nat → Option Nat
  | 0, pos => some pos
  | n + 1, pos => match s.prevStart pos with | none => none | some p => s.backGo n p
/-- the last grapheme that is not a line terminator -/
def lastChar (s : SK) : Option Nat := (List.range s.len).reverse.find? (fun i => !s.isK i 2)

/-- scanning back from the last character over blanks and closers (`while q > 0 && … { q -= 1 }`) -/
def backOverClosers (s : SK) : Nat → Nat
  | 0 => 0
  | q + 1 => if s.isK (q + 1) 1 || s.isK (q + 1) 4 then s.backOverClosers q else q + 1

/-- the last sentence is closed by its punctuation: then the end of the buffer is a place `)` goes to like
any other; otherwise running into it is only good for the last step -/
def closed (s : SK) : Bool :=
  match s.lastChar with
  | none => false
  | some last => s.isK (s.backOverClosers last) 3

/-- `)` with a count, as a `MotionKind`: to the next sentence starts; when there is none, on to the last
character of the buffer, which an operator takes. `reached` = the end of the buffer was reached. -/
def fwdGo (s : SK) (cur : Nat) (hasVerb : Bool) : Nat → Nat → Bool → MK
  | 0, pos, reached =>
    if reached then (if pos == cur then (if hasVerb then .inclusive pos pos else .null) else .onto pos)
    else if pos == cur then .null else .on pos
  | n + 1, pos, reached =>
    match s.nextStart pos with
    | some st => s.fwdGo cur hasVerb n st reached
    | none =>
      match s.lastChar with
      | none => .null
      | some last =>
        if reached || (decide (pos ≥ last) && !s.closed) then
          (if decide (n > 0) || (pos == cur && !hasVerb) then .null else s.fwdGo cur hasVerb n last true)
        else if !s.closed && decide (n > 0) then .null
        else s.fwdGo cur hasVerb n last true

/-- The `TextObj::Sentence` arm of `eval_motion`. -/
def evalSentence (s : SK) (cur count : Nat) (fwd hasVerb : Bool) : MK :=
  if fwd then s.fwdGo cur hasVerb count cur false
  else match s.backGo count cur with
    | none => .null
    | some p => if p == cur then .null else .on p
end SK

end Vicut
