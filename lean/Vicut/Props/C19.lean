/-
C19 — a search lands on the next match and nowhere else.
`starts` (where the pattern matches) is an arbitrary ascending list: the statements hold for any
regex engine, any text and any cursor.
-/
import Vicut.Model.Search

namespace Vicut.C19
open Vicut

/-- The specification: least start greater than the cursor, else (wrapping) the least start. -/
def nextStart (starts : List Nat) (cursor : Nat) : Option Nat :=
  match starts.filter (fun s => decide (s > cursor)) with
  | s :: _ => some s
  | [] => starts.head?

/-- Mirror: greatest start smaller than the cursor, else (wrapping) the greatest start. -/
def prevStart (starts : List Nat) (cursor : Nat) : Option Nat :=
  match (starts.filter (fun s => decide (s < cursor))).reverse with
  | s :: _ => some s
  | [] => starts.getLast?

/-- **`/P<CR>` (count 1)**: the first match that starts after the cursor, wrapping to the first match. -/
theorem search_fwd (starts : List Nat) (cursor : Nat) :
    searchTarget starts cursor true 1 = nextStart starts cursor := by
  unfold searchTarget searchOrder nextStart
  simp only [↓reduceIte, Nat.sub_self, Nat.zero_mod]
  cases h : starts.filter (fun s => decide (s > cursor)) with
  | cons s rest => simp
  | nil =>
    have hall : starts.filter (fun s => !decide (s > cursor)) = starts := by
      apply List.filter_eq_self.mpr
      intro a ha
      have : a ∉ starts.filter (fun s => decide (s > cursor)) := by rw [h]; simp
      simpa [List.mem_filter, ha] using this
    simp only [List.nil_append, hall]
    cases starts <;> simp

/-- **`?P<CR>` (count 1)**: the nearest match that starts before the cursor, wrapping to the last. -/
theorem search_bwd (starts : List Nat) (cursor : Nat) :
    searchTarget starts cursor false 1 = prevStart starts cursor := by
  unfold searchTarget searchOrder prevStart
  simp only [Bool.false_eq_true, ↓reduceIte, Nat.sub_self, Nat.zero_mod]
  cases h : (starts.filter (fun s => decide (s < cursor))).reverse with
  | cons s rest => simp
  | nil =>
    have hnil : starts.filter (fun s => decide (s < cursor)) = [] := by simpa using h
    have hall : starts.filter (fun s => !decide (s < cursor)) = starts := by
      apply List.filter_eq_self.mpr
      intro a ha
      have : a ∉ starts.filter (fun s => decide (s < cursor)) := by rw [hnil]; simp
      simpa [List.mem_filter, ha] using this
    simp only [List.nil_append, hall]
    cases hs : starts.reverse with
    | nil =>
      have : starts = [] := by simpa using hs
      simp [this]
    | cons x xs =>
      have : starts.getLast? = some x := by
        rw [List.getLast?_eq_head?_reverse, hs]; rfl
      simp [this]

/-- The landing point is always a place where the pattern matches: a search goes nowhere else. -/
theorem search_lands_on_match (starts : List Nat) (cursor : Nat) (fwd : Bool) (count b : Nat)
    (h : searchTarget starts cursor fwd count = some b) : b ∈ starts := by
  unfold searchTarget at h
  split at h
  · cases h
  · have hm := List.mem_of_getElem? h
    unfold searchOrder at hm
    cases fwd <;> simp [List.mem_filter] at hm <;> rcases hm with ⟨hm, _⟩ | ⟨hm, _⟩ <;> exact hm

/-- **No match: nothing moves.** -/
theorem search_no_match (gs : List Gr) (cursor : Nat) (st : SearchState) (cmd : SearchCmd) :
    (searchStep gs [] cursor st cmd).1 = cursor := by
  simp [searchStep, searchTarget, searchOrder]

theorem length_filter_split {α : Type} (p : α → Bool) (l : List α) :
    (l.filter p).length + (l.filter (fun x => !p x)).length = l.length := by
  induction l with
  | nil => rfl
  | cons x xs ih =>
    cases h : p x <;> simp [List.filter_cons, h] <;> omega

/-- With matches present a search always finds one (it wraps instead of failing). -/
theorem search_finds (starts : List Nat) (cursor : Nat) (fwd : Bool) (count : Nat) (hne : starts ≠ []) :
    ∃ b, searchTarget starts cursor fwd count = some b := by
  unfold searchTarget
  have hlen : (searchOrder starts cursor fwd).1.length = starts.length := by
    unfold searchOrder
    cases fwd
    · simp only [Bool.false_eq_true, ↓reduceIte, List.length_append, List.length_reverse]
      have := length_filter_split (fun s => decide (s < cursor)) starts
      simpa using this
    · simp only [↓reduceIte, List.length_append]
      have := length_filter_split (fun s => decide (s > cursor)) starts
      simpa using this
  have hpos : 0 < starts.length := List.length_pos_iff.mpr hne
  have hne' : (searchOrder starts cursor fwd).1.isEmpty = false := by
    cases ho : (searchOrder starts cursor fwd).1 with
    | nil => rw [ho] at hlen; simp at hlen; omega
    | cons _ _ => rfl
  simp only [hne', Bool.false_eq_true, ↓reduceIte]
  have hlt : (count - 1) % (searchOrder starts cursor fwd).1.length < (searchOrder starts cursor fwd).1.length :=
    Nat.mod_lt _ (by omega)
  exact ⟨_, List.getElem?_eq_getElem hlt⟩

/-- **`n` follows the direction of the last search, `N` goes against it.** -/
theorem n_follows_direction (st : SearchState) (c : Nat) :
    (SearchCmd.next c).forward st = !st.lastRev ∧ (SearchCmd.prev c).forward st = st.lastRev := ⟨rfl, rfl⟩

theorem search_sets_direction (gs : List Gr) (starts : List Nat) (cursor : Nat) (st : SearchState) (f : Bool) (c : Nat) :
    (searchStep gs starts cursor st (.search f c)).2.lastRev = !f := by
  unfold searchStep
  simp only
  split <;> (try split) <;> rfl

/-- After `?P`, `n` searches backwards and `N` forwards (the pre-fix code always went forwards for `n`). -/
theorem n_after_backward_search (gs : List Gr) (starts : List Nat) (cursor : Nat) (st : SearchState) (c k : Nat) :
    (SearchCmd.next k).forward (searchStep gs starts cursor st (.search false c)).2 = false ∧
    (SearchCmd.prev k).forward (searchStep gs starts cursor st (.search false c)).2 = true := by
  have := search_sets_direction gs starts cursor st false c
  simp [SearchCmd.forward, this]

/-- A count selects the count-th match in visiting order, going around the buffer as often as
needed (`count` is taken modulo the number of matches). -/
theorem search_count (starts : List Nat) (cursor : Nat) (fwd : Bool) (count : Nat) (hne : starts ≠ []) :
    searchTarget starts cursor fwd count
      = (searchOrder starts cursor fwd).1[(count - 1) % (searchOrder starts cursor fwd).1.length]? := by
  unfold searchTarget
  obtain ⟨b, hb⟩ := search_finds starts cursor fwd count hne
  unfold searchTarget at hb
  split
  · rename_i h; simp [h] at hb
  · rfl

/-! ## Byte offsets to grapheme indices -/

theorem offsetsFrom_lower (o : Nat) (gs : List Gr) : ∀ x ∈ offsetsFrom o gs, o ≤ x := by
  induction gs generalizing o with
  | nil => simp [offsetsFrom]
  | cons g rest ih =>
    intro x hx
    simp only [offsetsFrom, List.mem_cons] at hx
    rcases hx with rfl | hx
    · exact Nat.le_refl _
    · have := ih _ x hx; omega

theorem sum_pos_of_ne_nil (g : Gr) (h : g ≠ []) : 0 < (g.map Char.utf8Size).sum := by
  cases g with
  | nil => exact absurd rfl h
  | cons c cs =>
    have := Char.utf8Size_pos c
    simp only [List.map_cons, List.sum_cons]; omega

theorem offsetsFrom_length (o : Nat) (gs : List Gr) : (offsetsFrom o gs).length = gs.length := by
  induction gs generalizing o with
  | nil => rfl
  | cons g rest ih => simp [offsetsFrom, ih]

/-- **The conversion is exact**: the byte offset of grapheme `i` is mapped back to `i`, for every
text whose graphemes are non-empty (the pre-fix code returned the offset itself). -/
theorem byte_to_grapheme_exact (gs : List Gr) (hne : ∀ g ∈ gs, g ≠ []) (i : Nat) (hi : i < gs.length) (o : Nat) :
    findIndexForBytePos (offsetsFrom o gs) ((offsetsFrom o gs).getD i 0) = some i := by
  induction gs generalizing o i with
  | nil => simp at hi
  | cons g rest ih =>
    have hg : 0 < (g.map Char.utf8Size).sum := sum_pos_of_ne_nil g (hne g (by simp))
    cases i with
    | zero => simp [findIndexForBytePos, offsetsFrom, List.findIdx_cons]
    | succ i =>
      have hi' : i < rest.length := by simpa using hi
      have ih' := ih (fun x hx => hne x (by simp [hx])) i hi' (o + (g.map Char.utf8Size).sum)
      have hlen := offsetsFrom_length (o + (g.map Char.utf8Size).sum) rest
      have hget : (offsetsFrom (o + (g.map Char.utf8Size).sum) rest).getD i 0
          = (offsetsFrom (o + (g.map Char.utf8Size).sum) rest)[i]'(by omega) := by
        simp [List.getD_eq_getElem?_getD, List.getElem?_eq_getElem (show i < (offsetsFrom (o + (g.map Char.utf8Size).sum) rest).length by omega)]
      have hlow : o + (g.map Char.utf8Size).sum ≤ (offsetsFrom (o + (g.map Char.utf8Size).sum) rest).getD i 0 := by
        rw [hget]; exact offsetsFrom_lower _ _ _ (List.getElem_mem _)
      have hne0 : (o == (offsetsFrom (o + (g.map Char.utf8Size).sum) rest).getD i 0) = false := by
        simp only [beq_eq_false_iff_ne, ne_eq]; omega
      unfold findIndexForBytePos at ih' ⊢
      simp only [offsetsFrom, List.getD_cons_succ, List.findIdx_cons, hne0, cond_false, List.length_cons]
      split at ih'
      · rename_i hlt
        injection ih' with ih'
        have : List.findIdx (fun x => x == (offsetsFrom (o + (g.map Char.utf8Size).sum) rest).getD i 0)
            (offsetsFrom (o + (g.map Char.utf8Size).sum) rest) + 1 < (offsetsFrom (o + (g.map Char.utf8Size).sum) rest).length + 1 := by omega
        rw [ih'] at this ⊢
        simp only [this, ↓reduceIte]
      · cases ih'

/-! ## Non-vacuity -/
example : searchTarget [2, 8, 14] 8 true 1 = some 14 ∧ searchTarget [2, 8, 14] 14 true 1 = some 2 ∧
    searchTarget [2, 8, 14] 8 false 1 = some 2 ∧ searchTarget [2, 8, 14] 0 false 1 = some 14 ∧
    searchTarget [2, 8, 14] 0 true 5 = some 8 := by decide

end Vicut.C19
