/-
C03 — `--linewise` equals running every line alone, in input order.
Everything here is parametric in `exec` (what `execute()` returns for one unit): the statements
hold for every command list, option set and editor.
-/
import Vicut.Model.Linewise

namespace Vicut.C03
open Vicut

/-! ## `get_lines` loses nothing, adds nothing, and cuts exactly after each newline -/

theorem getLinesAux_flatten (s cur : Str) : (getLinesAux s cur).flatten = cur ++ s := by
  induction s generalizing cur with
  | nil => unfold getLinesAux; cases cur <;> simp
  | cons c cs ih =>
    unfold getLinesAux
    split
    · simp [ih]
    · simp [ih]

/-- Concatenating the pieces gives back the input: no line dropped, duplicated, merged or reordered. -/
theorem getLines_flatten (s : Str) : (getLines s).flatten = s := by
  simp [getLines, getLinesAux_flatten]

theorem getLinesAux_ne_nil (s cur : Str) : ∀ l ∈ getLinesAux s cur, l ≠ [] := by
  induction s generalizing cur with
  | nil =>
    unfold getLinesAux
    cases cur <;> simp
  | cons c cs ih =>
    unfold getLinesAux
    split
    · intro l hl
      simp only [List.mem_cons] at hl
      rcases hl with rfl | hl
      · simp
      · exact ih [] l hl
    · exact ih _

/-- No piece is empty. -/
theorem getLines_ne_nil (s : Str) : ∀ l ∈ getLines s, l ≠ [] := getLinesAux_ne_nil s []

/-- A newline can only be the last character of a piece. -/
theorem getLinesAux_newline_last (s cur : Str) (hcur : '\n' ∉ cur) :
    ∀ l ∈ getLinesAux s cur, '\n' ∉ l.dropLast := by
  induction s generalizing cur with
  | nil =>
    unfold getLinesAux
    split
    · simp
    · intro l hl
      simp only [List.mem_singleton] at hl
      subst hl
      intro h
      exact hcur ((List.dropLast_subset _) h)
  | cons c cs ih =>
    unfold getLinesAux
    split
    · intro l hl
      simp only [List.mem_cons] at hl
      rcases hl with rfl | hl
      · simpa using hcur
      · exact ih [] (by simp) l hl
    · rename_i hc
      apply ih
      simp [hcur, Ne.symm hc]

theorem getLines_newline_last (s : Str) : ∀ l ∈ getLines s, '\n' ∉ l.dropLast :=
  getLinesAux_newline_last s [] (by simp)

/-- Every piece except possibly the last one ends with its terminator. -/
theorem getLinesAux_terminated (s cur : Str) :
    ∀ l ∈ (getLinesAux s cur).dropLast, l.getLast? = some '\n' := by
  induction s generalizing cur with
  | nil => unfold getLinesAux; split <;> simp
  | cons c cs ih =>
    unfold getLinesAux
    split
    · intro l hl
      cases hrest : getLinesAux cs [] with
      | nil => simp [hrest] at hl
      | cons x xs =>
        rw [hrest, List.dropLast_cons_cons] at hl
        simp only [List.mem_cons] at hl
        rcases hl with rfl | hl
        · rename_i hc; simp [hc]
        · exact ih [] l (by rw [hrest]; exact hl)
    · exact ih _

theorem getLines_terminated (s : Str) : ∀ l ∈ (getLines s).dropLast, l.getLast? = some '\n' :=
  getLinesAux_terminated s []

/-! ## Any completion order gives the in-order records -/

theorem indexFrom_keys_lt {α : Type} (i : Nat) (xs : List α) :
    (indexFrom i xs).Pairwise (fun a b => a.1 < b.1) ∧ ∀ p ∈ indexFrom i xs, i ≤ p.1 := by
  induction xs generalizing i with
  | nil => simp [indexFrom]
  | cons x xs ih =>
    have h := ih (i + 1)
    refine ⟨?_, ?_⟩
    · simp only [indexFrom, List.pairwise_cons]
      refine ⟨?_, h.1⟩
      intro p hp
      have := h.2 p hp
      simp; omega
    · intro p hp
      simp only [indexFrom, List.mem_cons] at hp
      rcases hp with rfl | hp
      · simp
      · have := h.2 p hp; omega

theorem indexFrom_map_snd {α : Type} (i : Nat) (xs : List α) : (indexFrom i xs).map (·.2) = xs := by
  induction xs generalizing i with
  | nil => simp [indexFrom]
  | cons x xs ih => simp [indexFrom, ih]

theorem key_inj_of_pairwise_lt {α : Type} {l : List (Nat × α)} (h : l.Pairwise (fun a b => a.1 < b.1)) :
    ∀ a b, a ∈ l → b ∈ l → a.1 = b.1 → a = b := by
  induction l with
  | nil => simp
  | cons x xs ih =>
    rw [List.pairwise_cons] at h
    intro a b ha hb hab
    simp only [List.mem_cons] at ha hb
    rcases ha with rfl | ha <;> rcases hb with rfl | hb
    · rfl
    · have := h.1 b hb; omega
    · have := h.1 a ha; omega
    · exact ih h.2 a b ha hb hab

/-- Sorting by index undoes every permutation of an indexed list. -/
theorem mergeSort_perm_indexFrom {α : Type} (xs : List α) (ys : List (Nat × α))
    (hp : ys.Perm (indexFrom 0 xs)) : ys.mergeSort keyLe = indexFrom 0 xs := by
  have hlt := (indexFrom_keys_lt 0 xs).1
  have hle : (indexFrom 0 xs).Pairwise (fun a b => keyLe a b = true) := by
    apply hlt.imp
    intro a b h
    simp [keyLe]; omega
  have hs : (ys.mergeSort keyLe).Pairwise (fun a b => keyLe a b = true) := by
    apply List.pairwise_mergeSort
    · intro a b c; simp [keyLe]; omega
    · intro a b; simp [keyLe]; omega
  have hperm : (ys.mergeSort keyLe).Perm (indexFrom 0 xs) := (List.mergeSort_perm ys keyLe).trans hp
  apply List.Perm.eq_of_pairwise (le := fun a b => keyLe a b = true) _ hs hle hperm
  intro a b ha hb hab hba
  have ha' : a ∈ indexFrom 0 xs := hperm.subset ha
  apply key_inj_of_pairwise_lt hlt a b ha' hb
  simp [keyLe] at hab hba
  omega

/-- **Order independence.** Whatever order the workers finish in, `--linewise` on stdin collects
exactly the records of line 1, then line 2, … — for any `execute`. -/
theorem linewise_records_any_order (exec : Str → Records)
    (sched : List (Nat × Records) → List (Nat × Records)) (hs : ∀ xs, (sched xs).Perm xs) (s : Str) :
    executeLinewise exec sched s = ((getLines s).map exec).flatten := by
  unfold executeLinewise collectSorted
  rw [mergeSort_perm_indexFrom _ _ (hs _), indexFrom_map_snd]

/-- The same for a file processed linewise: its new content is the in-order concatenation of the
formatted per-line outputs, for any completion order. -/
theorem linewise_file_any_order (exec : Str → Records) (fmt : Records → Str)
    (sched : List (Nat × Str) → List (Nat × Str)) (hs : ∀ xs, (sched xs).Perm xs) (content : Str) :
    linewiseFileContent exec fmt sched content = ((getLines content).map (fun l => fmt (exec l))).flatten := by
  unfold linewiseFileContent
  rw [mergeSort_perm_indexFrom _ _ (hs _), indexFrom_map_snd]

/-! ## The renderers commute with concatenation of record lists -/

def stdRec (d : Str) (r : Record) : Str := ensureNl (joinWith d (r.map Prod.snd))

theorem fmtStandard_of_not_sentinel (d : Str) (recs : Records) (h : noFieldsExtracted recs = false) :
    fmtStandard d recs = (recs.map (stdRec d)).flatten := by
  unfold fmtStandard
  split
  · rename_i n v
    have : (n == ['0']) = false := by simpa [noFieldsExtracted] using h
    simp [this, stdRec]
  · rfl

/-- Plain/delimiter rendering of two record lists side by side (neither being the whole-buffer
sentinel, nor their concatenation) is the concatenation of the renderings. -/
theorem fmtStandard_append (d : Str) (a b : Records)
    (ha : noFieldsExtracted a = false) (hb : noFieldsExtracted b = false)
    (hab : noFieldsExtracted (a ++ b) = false) :
    fmtStandard d (a ++ b) = fmtStandard d a ++ fmtStandard d b := by
  rw [fmtStandard_of_not_sentinel d _ hab, fmtStandard_of_not_sentinel d _ ha,
    fmtStandard_of_not_sentinel d _ hb]
  simp

theorem fmtTemplate_append (tpl : Str) (a b : Records) (ra rb : Str)
    (ha : fmtTemplate tpl a = .ok ra) (hb : fmtTemplate tpl b = .ok rb) :
    fmtTemplate tpl (a ++ b) = .ok (ra ++ rb) := by
  induction a generalizing ra with
  | nil => simp [fmtTemplate] at ha; subst ha; simpa using hb
  | cons r rs ih =>
    simp only [List.cons_append, fmtTemplate] at ha ⊢
    cases hl : tplLine tpl r with
    | error e => simp [hl] at ha
    | ok l =>
      simp only [hl] at ha ⊢
      cases hr : fmtTemplate tpl rs with
      | error e => simp [hr] at ha
      | ok rest =>
        simp only [hr] at ha
        injection ha with ha
        subst ha
        simp [ih rest hr]

/-- The records a whole-buffer edit returns for one line: the sentinel. -/
def sentinelRec (b : Str) : Records := [[(['0'], b)]]

/-- **Plain stdout, whole-buffer edits (no `-c`).** For two or more lines the `--linewise` output
is every line's edited text, each with a newline ensured, plus the one framing newline that
`writeln!` adds per process. (Each line alone prints `edit l ++ "\n"`.) -/
theorem linewise_stdout_edits (d : Str) (edit : Str → Str) (input : Str)
    (h2 : 2 ≤ (getLines input).length) :
    stdoutLinewise (fun l => sentinelRec (edit l)) (fmtStandard d) input
      = ((getLines input).map (fun l => ensureNl (edit l))).flatten ++ ['\n'] := by
  unfold stdoutLinewise
  have hns : noFieldsExtracted (((getLines input).map (fun l => sentinelRec (edit l))).flatten) = false := by
    generalize getLines input = ls at h2
    match ls, h2 with
    | a :: b :: rest, _ => simp [sentinelRec, noFieldsExtracted]
  rw [fmtStandard_of_not_sentinel d _ hns]
  congr 1
  generalize getLines input = ls
  induction ls with
  | nil => rfl
  | cons l ls ih =>
    simp only [List.map_cons, List.flatten_cons, List.map_append, List.flatten_append, ih]
    simp [sentinelRec, stdRec, joinWith]

/-- With exactly one line, `--linewise` prints what the plain run prints. -/
theorem linewise_stdout_one (exec : Str → Records) (fmt : Records → Str) (input l : Str)
    (h : getLines input = [l]) :
    stdoutLinewise exec fmt input = stdoutSingle exec fmt l := by
  simp [stdoutLinewise, stdoutSingle, h]

/-- **Plain stdout, field extraction.** When every line yields ordinary records (no sentinel), the
linewise output is the concatenation of the per-line outputs with the per-process framing newline
moved to the end. -/
theorem linewise_stdout_fields (d : Str) (exec : Str → Records) (input : Str)
    (hl : ∀ l ∈ getLines input, noFieldsExtracted (exec l) = false)
    (hall : noFieldsExtracted (((getLines input).map exec).flatten) = false) :
    stdoutLinewise exec (fmtStandard d) input
      = ((getLines input).map (fun l => fmtStandard d (exec l))).flatten ++ ['\n'] := by
  unfold stdoutLinewise
  rw [fmtStandard_of_not_sentinel d _ hall]
  congr 1
  generalize getLines input = ls at hl
  induction ls with
  | nil => rfl
  | cons l ls ih =>
    have h1 := hl l (by simp)
    simp only [List.map_cons, List.flatten_cons, List.map_append, List.flatten_append]
    rw [ih (fun x hx => hl x (by simp [hx])), fmtStandard_of_not_sentinel d _ h1]

/-! ## Non-vacuity -/

example : getLines "a\n\nbé".toList = ["a\n".toList, "\n".toList, "bé".toList] := by decide
example : 2 ≤ (getLines "a\nb\n".toList).length := by decide
example : executeLinewise (fun l => [[(['1'], l)]]) List.reverse "x\ny\n".toList
    = [[(['1'], "x\n".toList)], [(['1'], "y\n".toList)]] := by
  rw [linewise_records_any_order _ _ (fun xs => List.reverse_perm xs)]; decide

end Vicut.C03
