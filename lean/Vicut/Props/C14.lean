/-
C14 — all output formats carry the same records.
-/
import Vicut.Model.JsonSpec
import Vicut.Model.Exec

namespace Vicut.C14
open Vicut

/-! ## Plain / delimiter output -/

/-- With no `-c` at all the final buffer is printed verbatim. -/
theorem sentinel_verbatim (d b : Str) : fmtStandard d [[(['0'], b)]] = b := by
  simp [fmtStandard]

/-- Otherwise: one line per record, the field *values* joined by the delimiter, a newline added
unless the record already ends with one. -/
theorem standard_is_join (d : Str) (recs : Records) (h : noFieldsExtracted recs = false) :
    fmtStandard d recs
      = (recs.map (fun r => ensureNl (joinWith d (r.map Prod.snd)))).flatten := by
  unfold fmtStandard
  split
  · rename_i n v
    have : (n == ['0']) = false := by simpa [noFieldsExtracted] using h
    simp [this]
  · rfl

theorem joinWith_eq_intercalate (d : Str) (xs : List Str) : joinWith d xs = d.intercalate xs := by
  induction xs with
  | nil => simp [joinWith, List.intercalate]
  | cons x xs ih =>
    cases xs with
    | nil => simp [joinWith, List.intercalate]
    | cons y ys =>
      simp only [joinWith, List.intercalate] at ih ⊢
      simp [ih, List.intersperse]

theorem ensureNl_ends (r : Str) : (ensureNl r).getLast? = some '\n' := by
  unfold ensureNl; split <;> simp_all

theorem ensureNl_prefix (r : Str) : ensureNl r = r ∨ ensureNl r = r ++ ['\n'] := by
  unfold ensureNl; split <;> simp

/-- The sentinel can only arise from a record list of exactly that shape: a user can never name a
field "0" (`Opts::parse` rejects it) and numbered fields start at 1. -/
theorem natStr_ne_zero_str (n : Nat) (h : 0 < n) : natStr n ≠ ['0'] := by
  intro heq
  simp only [natStr, Nat.toList_repr] at heq
  have hlen : (Nat.toDigits 10 n).length ≤ 1 := by rw [heq]; simp
  have hlt : n < 10 := by
    simpa using (Nat.length_toDigits_le_iff (b := 10) (n := n) (k := 1) (by omega) (by omega)).mp hlen
  rw [Nat.toDigits_of_lt_base hlt] at heq
  have key : ∀ m : Fin 10, 0 < m.val → Nat.digitChar m.val ≠ '0' := by decide
  exact key ⟨n, hlt⟩ h (by simpa using heq)

/-! ## JSON: strings survive any content -/

theorem unhex_hexDigit : ∀ n : Fin 16, unhex (hexDigit n.val) = some n.val := by decide

theorem unhex_zero : unhex '0' = some 0 := by decide

/-- Decoding undoes the encoding of one character, whatever follows. -/
theorem unescape_escapeChar (c : Char) (rest : Str) :
    jsonUnescape (jsonEscapeChar c ++ rest) = (jsonUnescape rest).map (c :: ·) := by
  unfold jsonEscapeChar
  split
  · rename_i h; subst h; rw [jsonUnescape.eq_def]; simp
  split
  · rename_i h; subst h; rw [jsonUnescape.eq_def]; simp
  split
  · rename_i h; subst h; rw [jsonUnescape.eq_def]; simp
  split
  · rename_i h; subst h; rw [jsonUnescape.eq_def]; simp
  split
  · rename_i h; subst h; rw [jsonUnescape.eq_def]; simp
  split
  · rename_i h
    have : c = Char.ofNat 8 := by rw [← h, Char.ofNat_toNat]
    subst this; rw [jsonUnescape.eq_def]; simp
  split
  · rename_i h
    have : c = Char.ofNat 12 := by rw [← h, Char.ofNat_toNat]
    subst this; rw [jsonUnescape.eq_def]; simp
  split
  · rename_i h1 h2 h3 h4 h5 h6 h7 hlt
    have hd : c.toNat / 16 < 16 := by omega
    have hm : c.toNat % 16 < 16 := by omega
    have e1 := unhex_hexDigit ⟨c.toNat / 16, hd⟩
    have e2 := unhex_hexDigit ⟨c.toNat % 16, hm⟩
    simp only at e1 e2
    rw [jsonUnescape.eq_def]
    simp only [List.cons_append, List.nil_append, unhex_zero, e1, e2, ↓reduceIte]
    have : ((0 * 16 + 0) * 16 + c.toNat / 16) * 16 + c.toNat % 16 = c.toNat := by omega
    rw [this, Char.ofNat_toNat]
  · rename_i h1 h2 h3 h4 h5 h6 h7 hlt
    rw [List.singleton_append, jsonUnescape.eq_def]
    simp [h1, h2, hlt]

/-- **Round trip.** Whatever characters a field contains — quotes, backslashes, controls,
newlines, braces, multi-byte — the JSON string written for it reads back as exactly that field. -/
theorem json_escape_roundtrip (s : Str) : jsonUnescape (jsonEscape s) = some s := by
  induction s with
  | nil => rw [jsonUnescape.eq_def]; simp [jsonEscape]
  | cons c cs ih =>
    have : jsonEscape (c :: cs) = jsonEscapeChar c ++ jsonEscape cs := by simp [jsonEscape]
    rw [this, unescape_escapeChar, ih]; rfl

/-- The encoded text never contains a raw control character, and a `"` only right after a `\`
(so the literal `"…"` around it is terminated exactly where `jsonString` closes it). -/
theorem json_escape_no_control (s : Str) : ∀ c ∈ jsonEscape s, 32 ≤ c.toNat := by
  intro c hc
  simp only [jsonEscape, List.mem_flatten, List.mem_map] at hc
  obtain ⟨l, ⟨x, _, rfl⟩, hcl⟩ := hc
  unfold jsonEscapeChar at hcl
  have hx : ∀ n : Fin 16, 32 ≤ (hexDigit n.val).toNat := by decide
  repeat' split at hcl
  all_goals (try (simp only [List.mem_cons, List.not_mem_nil, or_false] at hcl))
  all_goals (try (rcases hcl with rfl | rfl <;> decide))
  · rename_i hlt
    have h1 := hx ⟨x.toNat / 16, by omega⟩
    have h2 := hx ⟨x.toNat % 16, by omega⟩
    rcases hcl with rfl | rfl | rfl | rfl | rfl | rfl <;> first | decide | assumption
  · subst hcl; omega

/-! ## JSON: an object is the last-wins, key-sorted map of the record's fields -/

theorem strLt_irrefl (a : Str) : strLt a a = false := by
  induction a with
  | nil => rfl
  | cons x xs ih => simp [strLt, ih]

theorem strLt_trans (a b c : Str) (h1 : strLt a b = true) (h2 : strLt b c = true) : strLt a c = true := by
  induction a generalizing b c with
  | nil =>
    cases b with
    | nil => simp [strLt] at h1
    | cons y ys => cases c with
      | nil => simp [strLt] at h2
      | cons z zs => simp [strLt]
  | cons x xs ih =>
    cases b with
    | nil => simp [strLt] at h1
    | cons y ys =>
      cases c with
      | nil => simp [strLt] at h2
      | cons z zs =>
        simp only [strLt] at h1 h2 ⊢
        split at h1
        · split at h2
          · have : x.toNat < z.toNat := by omega
            simp [this]
          · split at h2
            · simp at h2
            · have : x.toNat < z.toNat := by omega
              simp [this]
        · split at h1
          · simp at h1
          · split at h2
            · have : x.toNat < z.toNat := by omega
              simp [this]
            · split at h2
              · simp at h2
              · have e1 : ¬ x.toNat < z.toNat := by omega
                have e2 : ¬ z.toNat < x.toNat := by omega
                simp [e1, e2, ih ys zs h1 h2]

theorem strLt_total (a b : Str) (h1 : (a == b) = false) (h2 : strLt a b = false) : strLt b a = true := by
  induction a generalizing b with
  | nil =>
    cases b with
    | nil => simp at h1
    | cons y ys => simp [strLt] at h2
  | cons x xs ih =>
    cases b with
    | nil => simp [strLt]
    | cons y ys =>
      simp only [strLt] at h2 ⊢
      split at h2
      · simp at h2
      · split at h2
        · rename_i h; simp [h]
        · rename_i ha hb
          have hxy : x.toNat = y.toNat := by omega
          have : x = y := Char.toNat_inj.mp hxy
          subst this
          simp only [Nat.lt_irrefl, ↓reduceIte]
          apply ih ys _ h2
          simpa using h1

def SortedKeys (m : List (Str × Str)) : Prop := m.Pairwise (fun a b => strLt a.1 b.1 = true)

def lookup (m : List (Str × Str)) (k : Str) : Option Str := (m.find? (fun kv => kv.1 == k)).map Prod.snd

theorem mapInsert_keys (k v : Str) (m : List (Str × Str)) :
    ∀ kv ∈ mapInsert k v m, kv.1 = k ∨ kv ∈ m := by
  induction m with
  | nil => simp [mapInsert]
  | cons x xs ih =>
    intro kv hkv
    unfold mapInsert at hkv
    split at hkv
    · simp only [List.mem_cons] at hkv ⊢
      rcases hkv with rfl | h
      · simp
      · exact Or.inr (Or.inr h)
    · split at hkv
      · simp only [List.mem_cons] at hkv ⊢
        rcases hkv with rfl | rfl | h
        · simp
        · simp
        · exact Or.inr (Or.inr h)
      · simp only [List.mem_cons] at hkv ⊢
        rcases hkv with rfl | h
        · simp
        · rcases ih kv h with h | h
          · exact Or.inl h
          · exact Or.inr (Or.inr h)

theorem mapInsert_sorted (k v : Str) (m : List (Str × Str)) (hs : SortedKeys m) :
    SortedKeys (mapInsert k v m) := by
  induction m with
  | nil => simp [mapInsert, SortedKeys]
  | cons x xs ih =>
    unfold SortedKeys at hs ⊢
    rw [List.pairwise_cons] at hs
    unfold mapInsert
    split
    · rename_i heq
      have : k = x.1 := by simpa using heq
      rw [List.pairwise_cons]
      exact ⟨fun b hb => by simpa [this] using hs.1 b hb, hs.2⟩
    · split
      · rename_i hlt
        rw [List.pairwise_cons, List.pairwise_cons]
        refine ⟨?_, hs⟩
        intro b hb
        simp only [List.mem_cons] at hb
        rcases hb with rfl | hb
        · exact hlt
        · exact strLt_trans _ _ _ hlt (hs.1 b hb)
      · rename_i hne hnlt
        rw [List.pairwise_cons]
        refine ⟨?_, ih hs.2⟩
        intro b hb
        rcases mapInsert_keys k v xs b hb with h | h
        · rw [h]
          apply strLt_total
          · simpa using hne
          · simpa using hnlt
        · exact hs.1 b h

theorem lookup_mapInsert (k v : Str) (m : List (Str × Str)) (hs : SortedKeys m) (k' : Str) :
    lookup (mapInsert k v m) k' = if k' = k then some v else lookup m k' := by
  induction m with
  | nil =>
    simp only [mapInsert, lookup, List.find?]
    by_cases h : k' = k
    · simp [h]
    · have : (k == k') = false := by simpa using Ne.symm h
      simp [h, this]
  | cons x xs ih =>
    unfold SortedKeys at hs
    rw [List.pairwise_cons] at hs
    unfold mapInsert
    split
    · rename_i heq
      have hk : k = x.1 := by simpa using heq
      by_cases h : k' = k
      · simp [lookup, List.find?, h]
      · have h1 : (k == k') = false := by simpa using Ne.symm h
        have h2 : (x.1 == k') = false := by rw [← hk]; exact h1
        simp [lookup, List.find?, h, h1, h2]
    · split
      · rename_i hne hlt
        by_cases h : k' = k
        · simp [lookup, List.find?, h]
        · have h1 : (k == k') = false := by simpa using Ne.symm h
          simp [lookup, List.find?, h, h1]
      · rename_i hne hnlt
        by_cases hx : x.1 = k'
        · have hk : ¬ k' = k := by
            intro h; subst h; simp [hx] at hne
          simp [lookup, List.find?, hx, hk]
        · have hx' : (x.1 == k') = false := by simpa using hx
          have := ih hs.2
          simp only [lookup] at this ⊢
          simp only [List.find?, hx']
          exact this

theorem toMap_aux_sorted (r : Record) (m : List (Str × Str)) (hs : SortedKeys m) :
    SortedKeys (r.foldl (fun m f => mapInsert f.1 f.2 m) m) := by
  induction r generalizing m with
  | nil => simpa
  | cons f fs ih => exact ih _ (mapInsert_sorted _ _ _ hs)

/-- Object keys come out strictly increasing (so no key is written twice). -/
theorem toMap_sorted (r : Record) : SortedKeys (toMap r) :=
  toMap_aux_sorted r [] (by simp [SortedKeys])

theorem toMap_aux_lookup (r : Record) (m : List (Str × Str)) (hs : SortedKeys m) (k : Str) :
    lookup (r.foldl (fun m f => mapInsert f.1 f.2 m) m) k
      = match r.reverse.find? (fun f => f.1 == k) with
        | some f => some f.2
        | none => lookup m k := by
  induction r generalizing m with
  | nil => simp
  | cons f fs ih =>
    rw [List.foldl_cons, ih _ (mapInsert_sorted _ _ _ hs), List.reverse_cons, List.find?_append]
    cases hfind : fs.reverse.find? (fun f => f.1 == k) with
    | some g => simp
    | none =>
      rw [lookup_mapInsert _ _ _ hs]
      by_cases h : k = f.1
      · simp [h]
      · have : (f.1 == k) = false := by simpa using Ne.symm h
        simp [h, this]

/-- The value stored under a key is the *last* field of the record with that name; a key is
present iff some field has that name. -/
theorem toMap_lookup (r : Record) (k : Str) :
    lookup (toMap r) k = (r.reverse.find? (fun f => f.1 == k)).map Prod.snd := by
  unfold toMap
  rw [toMap_aux_lookup r [] (by simp [SortedKeys]) k]
  cases r.reverse.find? (fun f => f.1 == k) <;> simp [lookup]

/-- `--json` prints nothing at all when there is no record with a field. -/
theorem fmtJson_empty (recs : Records) (h : recs.all (·.isEmpty) = true) : fmtJson recs = [] := by
  simp [fmtJson, h]

/-- Otherwise it is an array with one object per record, in order. -/
theorem fmtJson_shape (recs : Records) (h : recs.all (·.isEmpty) = false) :
    fmtJson recs = ['[', '\n'] ++ joinWith [',', '\n'] (recs.map (fun r => sp 2 ++ jsonObject 2 (toMap r))) ++ ['\n', ']'] := by
  simp [fmtJson, h]

/-! ## Templates -/

/-- Characters other than `\` and `{` are copied. -/
theorem tpl_plain (r : Record) (t acc : Str) (h : ∀ c ∈ t, c ≠ '\\' ∧ c ≠ '{') :
    tplGo r none t acc = .ok (acc ++ t) := by
  induction t generalizing acc with
  | nil => simp [tplGo]
  | cons c cs ih =>
    have hc := h c (by simp)
    cases cs with
    | nil => simp [tplGo, hc.1]
    | cons d ds =>
      rw [tplGo]
      simp only [hc.1, hc.2, false_and, ↓reduceIte]
      rw [ih _ (fun x hx => h x (by simp [hx]))]
      simp

/-- Inside `{{…}}`, ordinary characters accumulate into the name. -/
theorem tpl_name (r : Record) (name rest nm acc : Str) (h : ∀ c ∈ name, c ≠ '\\' ∧ c ≠ '}') :
    tplGo r (some nm) (name ++ '}' :: '}' :: rest) acc
      = tplGo r (some (nm ++ name)) ('}' :: '}' :: rest) acc := by
  induction name generalizing nm with
  | nil => simp
  | cons c cs ih =>
    have hc := h c (by simp)
    have : (c :: cs) ++ '}' :: '}' :: rest = c :: ((cs ++ '}' :: '}' :: rest)) := rfl
    rw [this]
    cases hcs : cs ++ '}' :: '}' :: rest with
    | nil => simp at hcs
    | cons d ds =>
      rw [tplGo]
      simp only [hc.1, hc.2, false_and, ↓reduceIte]
      rw [← hcs, ih _ (fun x hx => h x (by simp [hx]))]
      simp

/-- **Interpolation.** `{{name}}` is replaced by the first field of that name. -/
theorem template_interpolates (r : Record) (name rest acc f : Str)
    (h : ∀ c ∈ name, c ≠ '\\' ∧ c ≠ '}') (hf : lookupField r name = some f) :
    tplGo r none ('{' :: '{' :: (name ++ '}' :: '}' :: rest)) acc = tplGo r none rest (acc ++ f) := by
  rw [tplGo]
  simp only [Char.reduceEq, and_self, ↓reduceIte]
  rw [tpl_name r name rest [] acc h, tplGo]
  simp [hf]

/-- A placeholder naming no captured field is an error, not silently empty. -/
theorem template_unknown_is_error (r : Record) (name rest acc : Str)
    (h : ∀ c ∈ name, c ≠ '\\' ∧ c ≠ '}') (hf : lookupField r name = none) :
    tplGo r none ('{' :: '{' :: (name ++ '}' :: '}' :: rest)) acc = .error name := by
  rw [tplGo]
  simp only [Char.reduceEq, and_self, ↓reduceIte]
  rw [tpl_name r name rest [] acc h, tplGo]
  simp [hf]

/-- A backslash copies the next character literally (so `\{` and `\\` can be written). -/
theorem template_escape (r : Record) (e : Char) (rest acc : Str) :
    tplGo r none ('\\' :: e :: rest) acc = tplGo r none rest (acc ++ [e]) := by
  rw [tplGo]; simp

/-- An unclosed `{{name` is not an error: the name text is emitted (without the braces). -/
theorem template_unclosed (r : Record) (name acc : Str) (h : ∀ c ∈ name, c ≠ '\\' ∧ c ≠ '}') :
    tplGo r none ('{' :: '{' :: name) acc = .ok (acc ++ name) := by
  rw [tplGo]
  simp only [Char.reduceEq, and_self, ↓reduceIte]
  suffices ∀ nm, tplGo r (some nm) name acc = .ok (acc ++ (nm ++ name)) by simpa using this []
  induction name with
  | nil => intro nm; simp [tplGo]
  | cons c cs ih =>
    intro nm
    have hc := h c (by simp)
    cases cs with
    | nil => simp [tplGo, hc.1]
    | cons d ds =>
      rw [tplGo]
      simp only [hc.1, hc.2, false_and, ↓reduceIte]
      rw [ih (fun x hx => h x (by simp [hx]))]
      simp

/-! ## Field numbering (the `ExecCtx` state machine) -/

variable {σ : Type}

/-- `-n` closes the current record (if it has any field) and restarts numbering at 1. -/
theorem next_restarts (c : Ctx) :
    c.breakGroup.fieldNum = 0 ∧ c.breakGroup.fields = [] ∧
    c.breakGroup.fmtLines = (if c.fields.isEmpty then c.fmtLines else c.fmtLines ++ [c.fields]) := by
  simp [Ctx.breakGroup]

/-- A successful `-c` appends exactly one field, keyed by its given name or by its 1-based position
among the `-c` flags of the current record; its value is what `read_field` returned. -/
theorem cut_pushes (E : Ed σ) (keep : Bool) (name : Option Str) (k : Str) (st : σ × Ctx) (f : Str)
    (h : (E.readField k st.1).2 = .ok f) :
    (execCmd E keep (.cut name k) st).2
      = { st.2 with fieldNum := st.2.fieldNum + 1,
                    fields := st.2.fields ++ [(name.getD (natStr (st.2.fieldNum + 1)), f)] } := by
  simp [execCmd, Ctx.pushField, h]

/-- `-m` never touches the records. -/
theorem move_keeps_ctx (E : Ed σ) (keep : Bool) (k : Str) (st : σ × Ctx) :
    (execCmd E keep (.move k) st).2 = st.2 := by
  simp [execCmd]

theorem afterCmd_ctx (E : Ed σ) (keep : Bool) (st : σ × Ctx) : (afterCmd E keep st).2 = st.2 := by
  unfold afterCmd; split <;> rfl

def keysFrom (i : Nat) : List (Option Str) → List Str
  | [] => []
  | n :: ns => n.getD (natStr (i + 1)) :: keysFrom (i + 1) ns

/-- **Numbering.** A run of `-c` flags whose reads all succeed produces the keys 1..k (names
replacing numbers where given), for every editor. -/
theorem numbering (E : Ed σ) (keep : Bool) (hok : ∀ k s, ∃ f, (E.readField k s).2 = .ok f)
    (cuts : List (Option Str × Str)) (st : σ × Ctx) :
    let out := execSeq E keep (cuts.map (fun x => Cmd.cut x.1 x.2)) st
    out.2.fields.map Prod.fst = st.2.fields.map Prod.fst ++ keysFrom st.2.fieldNum (cuts.map Prod.fst) ∧
    out.2.fieldNum = st.2.fieldNum + cuts.length ∧ out.2.fmtLines = st.2.fmtLines := by
  induction cuts generalizing st with
  | nil => simp [execSeq, keysFrom]
  | cons x xs ih =>
    obtain ⟨f, hf⟩ := hok x.2 st.1
    simp only [List.map_cons, execSeq]
    have hstep := cut_pushes E keep x.1 x.2 st f hf
    have h2 : (afterCmd E keep (execCmd E keep (.cut x.1 x.2) st)).2 = _ := (afterCmd_ctx E keep _).trans hstep
    have := ih (afterCmd E keep (execCmd E keep (.cut x.1 x.2) st))
    simp only [h2] at this
    refine ⟨?_, ?_, ?_⟩
    · simpa [keysFrom] using this.1
    · have := this.2.1; simp only [List.length_cons]; omega
    · exact this.2.2

/-! ## `--trim-fields` -/

theorem trimFields_keeps_names (recs : Records) :
    (trimFields recs).map (·.map Prod.fst) = recs.map (·.map Prod.fst) := by
  simp [trimFields, Function.comp_def]

theorem mem_takeWhile_true {α : Type} (p : α → Bool) (l : List α) : ∀ c ∈ l.takeWhile p, p c = true := by
  induction l with
  | nil => simp
  | cons x xs ih =>
    intro c hc
    simp only [List.takeWhile] at hc
    split at hc
    · simp only [List.mem_cons] at hc
      rcases hc with rfl | hc
      · assumption
      · exact ih c hc
    · simp at hc

theorem trimStart_spec (s : Str) :
    ∃ ws, s = ws ++ trimStart s ∧ (∀ c ∈ ws, isRustWhitespace c = true) ∧
      (∀ c, (trimStart s).head? = some c → isRustWhitespace c = false) := by
  refine ⟨s.takeWhile isRustWhitespace, ?_, ?_, ?_⟩
  · simp [trimStart]
  · exact mem_takeWhile_true _ _
  · intro c hc
    unfold trimStart at hc
    have := List.head?_dropWhile_not isRustWhitespace s
    rw [hc] at this
    simpa using this

/-- Trimming removes only whitespace, only at the two ends. -/
theorem trim_is_trim (s : Str) :
    ∃ l r, s = l ++ trimStr s ++ r ∧ (∀ c ∈ l, isRustWhitespace c = true) ∧ (∀ c ∈ r, isRustWhitespace c = true) := by
  obtain ⟨l, hl, hlw, _⟩ := trimStart_spec s
  obtain ⟨r, hr, hrw, _⟩ := trimStart_spec (trimStart s).reverse
  refine ⟨l, r.reverse, ?_, hlw, ?_⟩
  · have h1 : trimStart s = (trimStart (trimStart s).reverse).reverse ++ r.reverse := by
      have := congrArg List.reverse hr
      simpa using this
    have h2 : trimStr s = (trimStart (trimStart s).reverse).reverse := rfl
    rw [h2, List.append_assoc, ← h1]
    exact hl
  · intro c hc; exact hrw c (by simpa using hc)

/-! ## Non-vacuity -/

example : fmtStandard " ".toList [[("1".toList, "a".toList), ("2".toList, "b".toList)]] = "a b\n".toList := by decide
example : noFieldsExtracted [[("1".toList, "a".toList)]] = false := by decide
example : jsonEscape "a\"\n".toList = "a\\\"\\n".toList := by decide
example : lookupField [("x".toList, "v".toList)] "x".toList = some "v".toList := by decide
example : toMap [("b".toList, "1".toList), ("a".toList, "2".toList), ("b".toList, "3".toList)]
    = [("a".toList, "2".toList), ("b".toList, "3".toList)] := by decide

end Vicut.C14
