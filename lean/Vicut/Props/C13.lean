/-
C13 — `-g` runs on exactly the matching lines, `-v` on exactly the others.
The buffer is taken through its line decomposition: `build bodies t` is the buffer whose lines have
the bodies `bodies` (no newline inside) and whose last line is terminated iff `t`. Every buffer without
CR-LF clusters is of that form (`decompose`). `isMatch` is an arbitrary predicate (any regex engine).
-/
import Vicut.Model.Text
import Vicut.Model.Exec

namespace Vicut.C13
open Vicut

def nl : Gr := ['\n']

/-- The buffer made of these line bodies; all lines but the last are terminated, the last iff `t`. -/
def build : List (List Gr) → Bool → List Gr
  | [], _ => []
  | [b], t => if t then b ++ [nl] else b
  | b :: b' :: rest, t => b ++ [nl] ++ build (b' :: rest) t

/-- A line body: no grapheme containing a newline character. -/
def Body (b : List Gr) : Prop := ∀ g ∈ b, '\n' ∉ g

def off : List (List Gr) → Nat → Nat
  | _, 0 => 0
  | [], _ => 0
  | b :: rest, i + 1 => b.length + 1 + off rest i

theorem isNl_false_of_body {b : List Gr} (hb : Body b) : ∀ g ∈ b, isNl g = false := by
  intro g hg
  have := hb g hg
  simp only [isNl, beq_eq_false_iff_ne, ne_eq]
  intro h; subst h; simp at this

theorem afterNl_body (b : List Gr) (hb : Body b) (rest : List Gr) (pos : Nat) :
    afterNl (b ++ rest) pos = afterNl rest (pos + b.length) := by
  induction b generalizing pos with
  | nil => simp
  | cons g gs ih =>
    have hg := isNl_false_of_body hb g (by simp)
    simp only [List.cons_append, afterNl, hg, Bool.false_eq_true, ↓reduceIte, List.length_cons]
    rw [ih (fun x hx => hb x (by simp [hx]))]
    congr 1; omega

theorem afterNl_line (b : List Gr) (hb : Body b) (rest : List Gr) (pos : Nat) :
    afterNl (b ++ [nl] ++ rest) pos = some (pos + b.length + 1, rest) := by
  rw [List.append_assoc, afterNl_body b hb]
  simp [afterNl, isNl, nl]

theorem build_length_cons (b b' : List Gr) (rest : List (List Gr)) (t : Bool) :
    (build (b :: b' :: rest) t).length = b.length + 1 + (build (b' :: rest) t).length := by
  simp [build, nl]; omega

/-- **`line_bounds` on a decomposed buffer.** Line `i` starts after the `i` earlier lines and extends
over its body and its terminator; asking for the position after a final newline gives the empty range
at the end. -/
theorem lineBoundsAux_build (bodies : List (List Gr)) (t : Bool) (hb : ∀ b ∈ bodies, Body b)
    (i pos max : Nat) (hmax : max = pos + (build bodies t).length) :
    (i < bodies.length →
      lineBoundsAux max i (build bodies t) pos pos
        = (pos + off bodies i,
           pos + off bodies i + (bodies[i]!).length + (if i + 1 < bodies.length ∨ t = true then 1 else 0))) ∧
    (i = bodies.length → t = true → bodies ≠ [] → lineBoundsAux max i (build bodies t) pos pos = (max, max)) := by
  induction bodies generalizing i pos with
  | nil => simp
  | cons b rest ih =>
    have hbb : Body b := hb b (by simp)
    cases rest with
    | nil =>
      -- a single line
      cases t with
      | true =>
        have hlen : (build [b] true).length = b.length + 1 := by simp [build, nl]
        constructor
        · intro hi
          have : i = 0 := by simpa using hi
          subst this
          simp only [build, ↓reduceIte, lineBoundsAux]
          rw [show b ++ [nl] = b ++ [nl] ++ [] by simp, afterNl_line b hbb]
          simp [off]; omega
        · intro hi _ _
          have : i = 1 := by simpa using hi
          subst this
          simp only [build, ↓reduceIte, lineBoundsAux]
          rw [show b ++ [nl] = b ++ [nl] ++ [] by simp, afterNl_line b hbb]
          simp only [lineBoundsAux, afterNl]
          have : min (pos + b.length + 1) max = max := by omega
          simp [this]
      | false =>
        constructor
        · intro hi
          have : i = 0 := by simpa using hi
          subst this
          simp only [build, Bool.false_eq_true, ↓reduceIte, lineBoundsAux]
          rw [show b = b ++ [] by simp, afterNl_body b hbb]
          simp [afterNl, off, build] at hmax ⊢
          omega
        · intro _ ht; cases ht
    | cons b' rest' =>
      have ih' := ih (fun x hx => hb x (by simp [hx]))
      have hlen := build_length_cons b b' rest' t
      constructor
      · intro hi
        cases i with
        | zero =>
          simp only [build, lineBoundsAux]
          rw [afterNl_line b hbb]
          simp [off]; omega
        | succ i =>
          simp only [build, lineBoundsAux]
          rw [afterNl_line b hbb]
          simp only
          have hmin : min (pos + b.length + 1) max = pos + b.length + 1 := by omega
          rw [hmin]
          have := (ih' i (pos + b.length + 1) (by omega)).1 (by simpa using hi)
          rw [this]
          simp only [off, List.length_cons, List.getElem!_cons_succ]
          congr 1
          · omega
          · have h1 : (i + 1 + 1 < rest'.length + 1 + 1 ∨ t = true) ↔ (i + 1 < rest'.length + 1 ∨ t = true) := by
              constructor <;> rintro (h | h) <;> first | (left; omega) | (right; exact h)
            simp only [h1]; omega
      · intro hi ht _
        cases i with
        | zero => simp at hi
        | succ i =>
          simp only [build, lineBoundsAux]
          rw [afterNl_line b hbb]
          simp only
          have hmin : min (pos + b.length + 1) max = pos + b.length + 1 := by omega
          rw [hmin]
          exact (ih' i (pos + b.length + 1) (by omega)).2 (by simpa using hi) ht (by simp)

theorem count_nl_body (b : List Gr) (hb : Body b) : b.flatten.count '\n' = 0 := by
  induction b with
  | nil => simp
  | cons g gs ih =>
    have hg : '\n' ∉ g := hb g (by simp)
    simp only [List.flatten_cons, List.count_append]
    rw [ih (fun x hx => hb x (by simp [hx])), List.count_eq_zero.mpr hg]

theorem totalLines_build (bodies : List (List Gr)) (t : Bool) (hb : ∀ b ∈ bodies, Body b) (hne : bodies ≠ []) :
    totalLines (build bodies t) = bodies.length + (if t then 1 else 0) := by
  unfold totalLines
  induction bodies with
  | nil => exact absurd rfl hne
  | cons b rest ih =>
    have hbb : Body b := hb b (by simp)
    cases rest with
    | nil =>
      cases t <;> simp [build, nl, count_nl_body b hbb]
    | cons b' rest' =>
      have := ih (fun x hx => hb x (by simp [hx])) (by simp)
      simp only [build, List.flatten_append, List.count_append, count_nl_body b hbb, List.length_cons] at this ⊢
      simp [nl] at this ⊢
      omega

/-- The decomposition is canonical: an unterminated last line is not empty. -/
def Canonical (bodies : List (List Gr)) (t : Bool) : Prop :=
  bodies ≠ [] ∧ (t = false → bodies.getLast? ≠ some [])

theorem off_lt_length (bodies : List (List Gr)) (t : Bool) (hc : Canonical bodies t) (i : Nat) (hi : i < bodies.length) :
    off bodies i < (build bodies t).length := by
  induction bodies generalizing i with
  | nil => simp at hi
  | cons b rest ih =>
    cases rest with
    | nil =>
      have : i = 0 := by simpa using hi
      subst this
      cases t with
      | true => simp [off, build, nl]
      | false =>
        have := hc.2 rfl
        simp only [List.getLast?_singleton, ne_eq, Option.some.injEq] at this
        simp [off, build]
        exact List.length_pos_iff.mpr this
    | cons b' rest' =>
      rw [build_length_cons]
      cases i with
      | zero => simp only [off]; omega
      | succ i =>
        have hc' : Canonical (b' :: rest') t := ⟨by simp, fun ht => by simpa [List.getLast?_cons_cons] using hc.2 ht⟩
        have := ih hc' i (by simpa using hi)
        simp only [off]; omega

theorem off_le_length (bodies : List (List Gr)) (t : Bool) (i : Nat) (hi : i < bodies.length) :
    off bodies i + (bodies[i]!).length + (if i + 1 < bodies.length ∨ t = true then 1 else 0)
      ≤ (build bodies t).length := by
  induction bodies generalizing i with
  | nil => simp at hi
  | cons b rest ih =>
    cases rest with
    | nil =>
      have : i = 0 := by simpa using hi
      subst this
      cases t <;> simp [off, build, nl]
    | cons b' rest' =>
      rw [build_length_cons]
      cases i with
      | zero =>
        have h : 0 + 1 < (b :: b' :: rest').length ∨ t = true := Or.inl (by simp)
        simp only [off, h, ↓reduceIte, List.getElem!_cons_zero]; omega
      | succ i =>
        have := ih i (by simpa using hi)
        have h1 : (i + 1 + 1 < rest'.length + 1 + 1 ∨ t = true) ↔ (i + 1 < rest'.length + 1 ∨ t = true) := by
          constructor <;> rintro (h | h) <;> first | (left; omega) | (right; exact h)
        simp only [List.length_cons, h1, List.getElem!_cons_succ, off] at this ⊢
        omega

theorem drop_app {α : Type} (l1 l2 : List α) (k : Nat) : (l1 ++ l2).drop (l1.length + k) = l2.drop k := by
  induction l1 with
  | nil => simp
  | cons x xs ih =>
    have : (x :: xs).length + k = (xs.length + k) + 1 := by simp; omega
    rw [this]; simpa using ih

theorem take_app {α : Type} (l1 l2 : List α) : (l1 ++ l2).take l1.length = l1 := by
  induction l1 with
  | nil => simp
  | cons x xs ih => simpa using ih

def termOf (bodies : List (List Gr)) (t : Bool) (i : Nat) : Nat :=
  if i + 1 < bodies.length ∨ t = true then 1 else 0

theorem extract_build (bodies : List (List Gr)) (t : Bool) (i : Nat) (hi : i < bodies.length) :
    ((build bodies t).drop (off bodies i)).take ((bodies[i]!).length + termOf bodies t i)
      = bodies[i]! ++ (if i + 1 < bodies.length ∨ t = true then [nl] else []) := by
  induction bodies generalizing i with
  | nil => simp at hi
  | cons b rest ih =>
    cases rest with
    | nil =>
      have : i = 0 := by simpa using hi
      subst this
      cases t with
      | true =>
        simp only [off, build, ↓reduceIte, List.drop_zero, termOf, or_true, List.getElem!_cons_zero]
        have := take_app (b ++ [nl]) []
        simpa using this
      | false => simp [off, build, termOf]
    | cons b' rest' =>
      cases i with
      | zero =>
        simp only [off, build, List.drop_zero, termOf, List.length_cons, List.getElem!_cons_zero]
        have h : 0 + 1 < rest'.length + 1 + 1 ∨ t = true := Or.inl (by omega)
        simp only [h, ↓reduceIte]
        have := take_app (b ++ [nl]) (build (b' :: rest') t)
        simpa using this
      | succ i =>
        have := ih i (by simpa using hi)
        have h1 : (i + 1 + 1 < rest'.length + 1 + 1 ∨ t = true) ↔ (i + 1 < rest'.length + 1 ∨ t = true) := by
          constructor <;> rintro (h | h) <;> first | (left; omega) | (right; exact h)
        simp only [List.length_cons, h1, List.getElem!_cons_succ, off, termOf] at this ⊢
        rw [← this]
        simp only [build]
        have hd := drop_app (b ++ [nl]) (build (b' :: rest') t) (off (b' :: rest') i)
        have hl : (b ++ [nl]).length = b.length + 1 := by simp
        rw [hl] at hd
        rw [hd]

theorem stripNl_body (b : List Gr) (hb : Body b) (term : Bool) :
    stripNl ((b ++ (if term then [nl] else [])).flatten) = b.flatten := by
  have hnl : '\n' ∉ b.flatten := by
    simp only [List.mem_flatten, not_exists, not_and]
    intro g hg; exact hb g hg
  cases term with
  | true =>
    simp only [↓reduceIte, List.flatten_append, List.flatten_cons, List.flatten_nil, List.append_nil, nl]
    simp [stripNl]
  | false =>
    simp only [Bool.false_eq_true, ↓reduceIte, List.append_nil]
    unfold stripNl
    split
    · rename_i h
      exact absurd (List.mem_of_getLast? h) hnl
    · rfl

/-- **`-g` / `-v` visit exactly the lines whose text matches / does not match, bottom-up.**
For every decomposed buffer, every match predicate and both polarities. -/
theorem global_lines (isMatch : Str → Bool) (pol : Bool) (bodies : List (List Gr)) (t : Bool)
    (hb : ∀ b ∈ bodies, Body b) (hc : Canonical bodies t) :
    globalLines isMatch pol (build bodies t)
      = ((List.range bodies.length).filter (fun i => isMatch ((bodies[i]!).flatten) == pol)).reverse := by
  unfold globalLines
  congr 1
  rw [totalLines_build bodies t hb hc.1]
  have hfilter : ∀ i, i < bodies.length →
      globalKeep isMatch pol (build bodies t) i = (isMatch ((bodies[i]!).flatten) == pol) := by
    intro i hi
    unfold globalKeep
    have htl : ¬ i > totalLines (build bodies t) := by
      rw [totalLines_build bodies t hb hc.1]; omega
    have hlb := (lineBoundsAux_build bodies t hb i 0 (build bodies t).length (by simp)).1 hi
    simp only [lineBounds, htl, ↓reduceIte, hlb, Nat.zero_add]
    have hlt := off_lt_length bodies t hc i hi
    have hnot : ¬ (i > 0 ∧ off bodies i ≥ (build bodies t).length) := by omega
    simp only [hnot, ↓reduceIte]
    have hext := extract_build bodies t i hi
    have hle := off_le_length bodies t i hi
    have hsub : off bodies i + (bodies[i]!).length + (if i + 1 < bodies.length ∨ t = true then 1 else 0) - off bodies i
        = (bodies[i]!).length + termOf bodies t i := by
      unfold termOf; omega
    simp only [sliceText, hlt, hle, and_self, ↓reduceIte, Option.getD_some, hsub, hext]
    have hbi : Body (bodies[i]!) := by
      have : bodies[i]! ∈ bodies := by
        rw [List.getElem!_eq_getElem?_getD, List.getElem?_eq_getElem hi]; simp
      exact hb _ this
    by_cases hterm : i + 1 < bodies.length ∨ t = true
    · simp only [hterm, ↓reduceIte]
      have := stripNl_body (bodies[i]!) hbi true
      simp only [↓reduceIte] at this
      rw [this]
    · simp only [hterm, ↓reduceIte]
      have := stripNl_body (bodies[i]!) hbi false
      simp only [Bool.false_eq_true, ↓reduceIte] at this
      rw [this]
  cases t with
  | false =>
    simp only [Bool.false_eq_true, ↓reduceIte, Nat.add_zero]
    apply List.filter_congr
    intro i hi
    exact hfilter i (by simpa using hi)
  | true =>
    simp only [↓reduceIte]
    have hph : globalKeep isMatch pol (build bodies true) bodies.length = false := by
      unfold globalKeep
      have htl : ¬ bodies.length > totalLines (build bodies true) := by
        rw [totalLines_build bodies true hb hc.1]; simp
      have hlb := (lineBoundsAux_build bodies true hb bodies.length 0 (build bodies true).length (by simp)).2 rfl rfl hc.1
      have hpos : bodies.length > 0 := List.length_pos_iff.mpr hc.1
      simp [lineBounds, htl, hlb, hpos]
    rw [List.range_succ, List.filter_append]
    simp only [List.filter_cons, hph, Bool.false_eq_true, ↓reduceIte, List.filter_nil, List.append_nil]
    apply List.filter_congr
    intro i hi
    exact hfilter i (by simpa using hi)

/-- On an empty buffer there is one (empty) line. -/
theorem global_lines_empty (isMatch : Str → Bool) (pol : Bool) :
    globalLines isMatch pol [] = if isMatch [] == pol then [0] else [] := by
  have hk : globalKeep isMatch pol [] 0 = (isMatch [] == pol) := by
    simp [globalKeep, lineBounds, totalLines, lineBoundsAux, afterNl, sliceText, stripNl]
  simp only [globalLines, totalLines, List.flatten_nil, List.count_nil, Nat.zero_add, List.range_succ,
    List.range_zero, List.nil_append, List.filter_cons, hk, List.filter_nil]
  split <;> simp_all

/-- **`-v` is the complement of `-g`** over the lines of the buffer. -/
theorem v_is_complement (isMatch : Str → Bool) (bodies : List (List Gr)) (t : Bool)
    (hb : ∀ b ∈ bodies, Body b) (hc : Canonical bodies t) (i : Nat) :
    i ∈ globalLines isMatch false (build bodies t) ↔
      (i < bodies.length ∧ i ∉ globalLines isMatch true (build bodies t)) := by
  rw [global_lines isMatch false bodies t hb hc, global_lines isMatch true bodies t hb hc]
  simp only [List.mem_reverse, List.mem_filter, List.mem_range, beq_false, Bool.not_eq_eq_eq_not,
    Bool.not_true, beq_true, not_and, Bool.not_eq_true]
  constructor
  · intro ⟨h1, h2⟩; exact ⟨h1, fun _ => h2⟩
  · intro ⟨h1, h2⟩; exact ⟨h1, h2 h1⟩

/-- Each line is visited at most once. -/
theorem global_lines_nodup (isMatch : Str → Bool) (pol : Bool) (bodies : List (List Gr)) (t : Bool)
    (hb : ∀ b ∈ bodies, Body b) (hc : Canonical bodies t) :
    (globalLines isMatch pol (build bodies t)).Nodup := by
  rw [global_lines isMatch pol bodies t hb hc]
  apply ((List.reverse_perm _).nodup_iff).mpr
  exact (List.filter_sublist).nodup List.nodup_range

/-- The cursor is put on the line's first character: line `i` starts right after the `i` lines
before it (their bodies and terminators). -/
theorem visit_starts_at_line_start (bodies : List (List Gr)) (t : Bool) (hb : ∀ b ∈ bodies, Body b)
    (hc : Canonical bodies t) (i : Nat) (hi : i < bodies.length) :
    (lineBounds (build bodies t) i).map Prod.fst = some (off bodies i) := by
  have htl : ¬ i > totalLines (build bodies t) := by
    rw [totalLines_build bodies t hb hc.1]; omega
  have hlb := (lineBoundsAux_build bodies t hb i 0 (build bodies t).length (by simp)).1 hi
  simp [lineBounds, htl, hlb]

/-- **`--else` runs once iff no line was selected** (and then the scope's commands do not run). -/
theorem else_iff_empty {σ : Type} (E : Ed σ) (keep : Bool) (pat : Str) (pol : Bool) (thn els : List Cmd)
    (st : σ × Ctx) :
    execCmd E keep (.glob pat pol thn true els) st
      = if (E.globalLines pat pol st.1).isEmpty then execSeq E keep els st
        else (E.globalLines pat pol st.1).foldl (fun s ln =>
          match E.gotoLine ln s.1 with
          | none => s
          | some e => execSeq E keep thn (e, s.2)) st := by
  rw [execCmd]
  rfl

/-- Every buffer whose newline characters are stand-alone graphemes has a canonical decomposition. -/
theorem decompose (gs : List Gr) (h : ∀ g ∈ gs, '\n' ∈ g → g = nl) (hne : gs ≠ []) :
    ∃ bodies t, (∀ b ∈ bodies, Body b) ∧ Canonical bodies t ∧ gs = build bodies t := by
  induction gs with
  | nil => exact absurd rfl hne
  | cons g rest ih =>
    have hrest : ∀ x ∈ rest, '\n' ∈ x → x = nl := fun x hx => h x (by simp [hx])
    by_cases hg : '\n' ∈ g
    · have hgnl : g = nl := h g (by simp) hg
      subst hgnl
      cases rest with
      | nil => exact ⟨[[]], true, by simp [Body], ⟨by simp, by simp⟩, by simp [build]⟩
      | cons r rs =>
        obtain ⟨bodies, t, hb, hc, heq⟩ := ih hrest (by simp)
        refine ⟨[] :: bodies, t, ?_, ?_, ?_⟩
        · intro b hb'
          simp only [List.mem_cons] at hb'
          rcases hb' with rfl | hb'
          · simp [Body]
          · exact hb b hb'
        · refine ⟨by simp, fun ht => ?_⟩
          cases bodies with
          | nil => exact absurd rfl hc.1
          | cons b bs => simpa [List.getLast?_cons_cons] using hc.2 ht
        · cases bodies with
          | nil => exact absurd rfl hc.1
          | cons b bs => rw [heq]; simp [build]
    · cases rest with
      | nil => exact ⟨[[g]], false, by simp [Body, hg], ⟨by simp, by simp⟩, by simp [build]⟩
      | cons r rs =>
        obtain ⟨bodies, t, hb, hc, heq⟩ := ih hrest (by simp)
        cases bodies with
        | nil => exact absurd rfl hc.1
        | cons b bs =>
          refine ⟨(g :: b) :: bs, t, ?_, ?_, ?_⟩
          · intro x hx
            simp only [List.mem_cons] at hx
            rcases hx with rfl | hx
            · intro y hy
              simp only [List.mem_cons] at hy
              rcases hy with rfl | hy
              · exact hg
              · exact hb b (by simp) y hy
            · exact hb x (by simp [hx])
          · refine ⟨by simp, fun ht => ?_⟩
            have := hc.2 ht
            cases bs with
            | nil => simp
            | cons b2 bs2 => simpa [List.getLast?_cons_cons] using this
          · rw [heq]
            cases bs with
            | nil => cases t <;> simp [build]
            | cons b2 bs2 => simp [build]

/-! ## Non-vacuity -/
example : build [[['a'], ['x']], [], [['b']]] false = [['a'], ['x'], nl, nl, ['b']] := by decide
example : globalLines (fun s => s.contains 'x') true [['a'], ['x'], nl, nl, ['b'], nl] = [0] := by decide
example : globalLines (fun s => s.contains 'x') false [['a'], ['x'], nl, nl, ['b'], nl] = [2, 1] := by decide

end Vicut.C13
