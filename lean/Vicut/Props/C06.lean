/-
C06 — in-place editing is all-or-nothing across files.
`proc` (what reading + executing + rendering one file yields, or that it aborts) is arbitrary: the
statements hold for every command list, every mode-specific renderer and every fault pattern.
-/
import Vicut.Model.Files

namespace Vicut.C06
open Vicut

/-- **All or nothing.** If the run exits unsuccessfully, the file system is exactly what it was:
every named file has its original content and no backup exists that did not exist before. -/
theorem all_or_nothing (proc : Process) (backup : Option Str) (files : List Path) (fs : FS)
    (h : (runInplace proc backup files fs).exit ≠ 0) :
    (runInplace proc backup files fs).fs = fs := by
  unfold runInplace at *
  cases hp : processAll proc fs files with
  | none => rfl
  | some outs => simp [hp] at h

theorem processAll_none_iff (proc : Process) (fs : FS) (files : List Path) :
    processAll proc fs files = none ↔
      ∃ p ∈ files, fs.get p = none ∨ ∃ c, fs.get p = some c ∧ proc p c = none := by
  induction files with
  | nil => simp [processAll]
  | cons p ps ih =>
    cases hg : fs.get p with
    | none =>
      simp only [processAll, hg, true_iff]
      exact ⟨p, by simp, Or.inl hg⟩
    | some c =>
      cases hc : proc p c with
      | none =>
        simp only [processAll, hg, hc, true_iff]
        exact ⟨p, by simp, Or.inr ⟨c, hg, hc⟩⟩
      | some out =>
        cases hr : processAll proc fs ps with
        | none =>
          simp only [processAll, hg, hc, hr, true_iff]
          obtain ⟨q, hq, hf⟩ := ih.mp hr
          exact ⟨q, by simp [hq], hf⟩
        | some rest =>
          simp only [processAll, hg, hc, hr, reduceCtorEq, false_iff]
          intro ⟨q, hq, hf⟩
          simp only [List.mem_cons] at hq
          rcases hq with rfl | hq
          · rcases hf with hf | ⟨c', hc1, hc2⟩
            · rw [hg] at hf; cases hf
            · rw [hg] at hc1; injection hc1 with hc1; subst hc1; rw [hc] at hc2; cases hc2
          · have : processAll proc fs ps = none := ih.mpr ⟨q, hq, hf⟩
            rw [hr] at this; cases this

/-- The run fails iff some named file cannot be read or its processing aborts. -/
theorem exit_nonzero_iff_fault (proc : Process) (backup : Option Str) (files : List Path) (fs : FS) :
    (runInplace proc backup files fs).exit ≠ 0 ↔
      ∃ p ∈ files, fs.get p = none ∨ ∃ c, fs.get p = some c ∧ proc p c = none := by
  rw [← processAll_none_iff]
  unfold runInplace
  cases processAll proc fs files <;> simp

/-- In particular no backup is left half-done: on failure every backup path holds what it held. -/
theorem no_half_backup (proc : Process) (bak : Str) (files : List Path) (fs : FS)
    (h : (runInplace proc (some bak) files fs).exit ≠ 0) (p : Path) :
    (runInplace proc (some bak) files fs).fs.get (backupPath bak p) = fs.get (backupPath bak p) := by
  rw [all_or_nothing proc (some bak) files fs h]

/-- Position and number of faulty files do not matter: one fault anywhere is enough. -/
theorem any_fault_aborts (proc : Process) (backup : Option Str) (pre post : List Path) (p : Path) (fs : FS)
    (hf : fs.get p = none ∨ ∃ c, fs.get p = some c ∧ proc p c = none) :
    runInplace proc backup (pre ++ p :: post) fs = ⟨fs, 1⟩ := by
  have : processAll proc fs (pre ++ p :: post) = none :=
    (processAll_none_iff proc fs _).mpr ⟨p, by simp, hf⟩
  simp [runInplace, this]

/-- The serial drivers before the fix did not have the property: file 1 is rewritten although file 2
aborts (kept as a kernel-checked regression witness). -/
theorem serial_legacy_counterexample :
    let fs : FS := [(['a'], ['x']), (['b'], ['y'])]
    let proc : Process := fun p c => if p == ['b'] then none else some (c ++ ['!'])
    (runInplaceSerialLegacy proc none [['a'], ['b']] fs).exit = 1 ∧
    (runInplaceSerialLegacy proc none [['a'], ['b']] fs).fs ≠ fs := by
  decide

/-! ## Non-vacuity -/
example : (runInplace (fun _ c => some (c ++ ['!'])) (some ['b','a','k']) [['a']] [(['a'], ['x'])])
    = ⟨[(['a'], ['x', '!']), (['a', '.', '.', 'b', 'a', 'k'], ['x'])], 0⟩ := by decide
example : (runInplace (fun p c => if p == ['b'] then none else some c) none [['a'], ['b']] [(['a'], ['x']), (['b'], ['y'])]).exit ≠ 0 := by decide

end Vicut.C06
