/-
C05 — `-i` writes back exactly the edited buffer.
-/
import Vicut.Model.Files
import Vicut.Model.Exec
import Vicut.Props.C06

namespace Vicut.C05
open Vicut

/-! ## What `execute()` returns does not depend on `-i` -/

variable {σ : Type}

/-- The records (hence the rendered text) are the same with and without `-i` / file arguments:
the write-back gets exactly what the twin invocation prints. -/
theorem execute_ignores_inplace (E : Ed σ) (buf : σ → Str) (fl : Flags) (cmds : List Cmd) (s0 : σ) (b c : Bool) :
    execute E buf { fl with editInplace := b, hasFiles := c } cmds s0 = execute E buf fl cmds s0 := by
  rfl

/-! ## File-system lemmas -/

theorem get_set_same (fs : FS) (p : Path) (c : Str) : (fs.set p c).get p = some c := by
  induction fs with
  | nil => simp [FS.set, FS.get]
  | cons e rest ih =>
    obtain ⟨q, d⟩ := e
    unfold FS.set
    by_cases h : q = p
    · simp [h, FS.get]
    · have : (q == p) = false := by simpa using h
      simp only [this, Bool.false_eq_true, ↓reduceIte]
      unfold FS.get at ih ⊢
      simp only [List.find?, this]
      exact ih

theorem get_set_other (fs : FS) (p q : Path) (c : Str) (h : p ≠ q) : (fs.set p c).get q = fs.get q := by
  induction fs with
  | nil =>
    have : (p == q) = false := by simpa using h
    simp [FS.set, FS.get, this]
  | cons e rest ih =>
    obtain ⟨r, d⟩ := e
    unfold FS.set
    by_cases hr : r = p
    · subst hr
      have : (r == q) = false := by simpa using h
      simp [FS.get, this]
    · have hrp : (r == p) = false := by simpa using hr
      simp only [hrp, Bool.false_eq_true, ↓reduceIte]
      unfold FS.get at ih ⊢
      by_cases hrq : r = q
      · simp [hrq]
      · have : (r == q) = false := by simpa using hrq
        simp only [List.find?, this]
        exact ih

/-- The paths a write-back of `outs` can touch. -/
def touched (backup : Option Str) (outs : List (Path × Str)) (q : Path) : Prop :=
  ∃ e ∈ outs, e.1 = q ∨ ∃ bak, backup = some bak ∧ backupPath bak e.1 = q

theorem writeBack_frame (backup : Option Str) (outs : List (Path × Str)) (fs : FS) (q : Path)
    (h : ¬ touched backup outs q) : (writeBack backup fs outs).get q = fs.get q := by
  induction outs generalizing fs with
  | nil => rfl
  | cons e rest ih =>
    obtain ⟨p, out⟩ := e
    have hrest : ¬ touched backup rest q := fun ⟨e, he, hq⟩ => h ⟨e, by simp [he], hq⟩
    have hp : p ≠ q := fun hpq => h ⟨(p, out), by simp, Or.inl hpq⟩
    unfold writeBack
    rw [ih _ hrest, get_set_other _ _ _ _ hp]
    cases hb : backup with
    | none => rfl
    | some bak =>
      cases hg : fs.get p with
      | none => rfl
      | some orig =>
        simp only
        apply get_set_other
        intro hbq
        exact h ⟨(p, out), by simp, Or.inr ⟨bak, hb, hbq⟩⟩

/-! ## The property -/

/-- **No other file is created or modified**: a path whose content differs after the run is a named
file or (with `--backup`) the backup sibling of one. -/
theorem touches_only (proc : Process) (backup : Option Str) (files : List Path) (fs : FS) (q : Path)
    (h : (runInplace proc backup files fs).fs.get q ≠ fs.get q) :
    q ∈ files ∨ ∃ bak, backup = some bak ∧ ∃ p ∈ files, backupPath bak p = q := by
  unfold runInplace at h
  cases hp : processAll proc fs files with
  | none => simp [hp] at h
  | some outs =>
    simp only [hp] at h
    have houts : ∀ e ∈ outs, e.1 ∈ files := by
      clear h
      induction files generalizing outs with
      | nil => simp [processAll] at hp; subst hp; simp
      | cons f fsx ih =>
        unfold processAll at hp
        cases hg : fs.get f with
        | none => simp [hg] at hp
        | some c =>
          cases hc : proc f c with
          | none => simp [hg, hc] at hp
          | some out =>
            cases hr : processAll proc fs fsx with
            | none => simp [hg, hc, hr] at hp
            | some rest =>
              simp only [hg, hc, hr, Option.some.injEq] at hp
              subst hp
              intro e he
              simp only [List.mem_cons] at he ⊢
              rcases he with rfl | he
              · left; rfl
              · right; exact ih rest hr e he
    by_cases ht : touched backup outs q
    · obtain ⟨e, he, hq⟩ := ht
      rcases hq with hq | ⟨bak, hb, hq⟩
      · left; rw [← hq]; exact houts e he
      · right; exact ⟨bak, hb, e.1, houts e he, hq⟩
    · exact absurd (writeBack_frame backup outs fs q ht) h

/-- Named files are distinct and no backup path collides with a named file or another backup. -/
structure Separate (backup : Option Str) (paths : List Path) : Prop where
  nodup : paths.Nodup
  noClash : ∀ bak, backup = some bak → ∀ p ∈ paths, ∀ q ∈ paths, backupPath bak p ≠ q
  bakInj : ∀ bak, backup = some bak → ∀ p ∈ paths, ∀ q ∈ paths, backupPath bak p = backupPath bak q → p = q

theorem separate_tail {backup : Option Str} {p : Path} {ps : List Path} (h : Separate backup (p :: ps)) :
    Separate backup ps :=
  ⟨(List.nodup_cons.mp h.nodup).2,
   fun bak hb a ha b hb' => h.noClash bak hb a (by simp [ha]) b (by simp [hb']),
   fun bak hb a ha b hb' => h.bakInj bak hb a (by simp [ha]) b (by simp [hb'])⟩

theorem fst_mem_cons {e x : Path × Str} {rest : List (Path × Str)} (he : e ∈ rest) :
    e.1 ∈ (x :: rest).map Prod.fst :=
  List.mem_map_of_mem (f := Prod.fst) (List.mem_cons_of_mem x he)

theorem fst_mem {e : Path × Str} {rest : List (Path × Str)} (he : e ∈ rest) : e.1 ∈ rest.map Prod.fst :=
  List.mem_map_of_mem (f := Prod.fst) he

theorem writeBack_file (backup : Option Str) (outs : List (Path × Str)) (fs : FS)
    (hs : Separate backup (outs.map Prod.fst)) :
    ∀ e ∈ outs, (writeBack backup fs outs).get e.1 = some e.2 := by
  induction outs generalizing fs with
  | nil => simp
  | cons e rest ih =>
    obtain ⟨p, out⟩ := e
    have hs' : Separate backup (rest.map Prod.fst) := separate_tail (by simpa using hs)
    intro e he
    simp only [List.mem_cons] at he
    unfold writeBack
    rcases he with rfl | he
    · have hnt : ¬ touched backup rest p := by
        rintro ⟨e, he, hq | ⟨bak, hb, hq⟩⟩
        · have := (List.nodup_cons.mp hs.nodup).1
          exact this (by rw [← hq]; exact fst_mem (e := e) he)
        · exact hs.noClash bak hb e.1 (fst_mem_cons he) p (by simp) hq
      rw [writeBack_frame backup rest _ p hnt, get_set_same]
    · exact ih _ hs' e he

/-- **Write-back = what the twin prints.** After a successful run every named file holds exactly
the output computed for it (`proc` = execute + render of the same invocation without `-i`). -/
theorem inplace_eq_printed (proc : Process) (backup : Option Str) (files : List Path) (fs : FS)
    (hs : Separate backup files) (hok : (runInplace proc backup files fs).exit = 0) :
    ∀ p ∈ files, ∃ c, fs.get p = some c ∧ (runInplace proc backup files fs).fs.get p = proc p c := by
  unfold runInplace at *
  cases hp : processAll proc fs files with
  | none => simp [hp] at hok
  | some outs =>
    simp only [hp]
    have hshape : outs.map Prod.fst = files ∧ ∀ e ∈ outs, ∃ c, fs.get e.1 = some c ∧ proc e.1 c = some e.2 := by
      clear hok hs
      induction files generalizing outs with
      | nil => simp [processAll] at hp; subst hp; simp
      | cons f fsx ih =>
        unfold processAll at hp
        cases hg : fs.get f with
        | none => simp [hg] at hp
        | some c =>
          cases hc : proc f c with
          | none => simp [hg, hc] at hp
          | some out =>
            cases hr : processAll proc fs fsx with
            | none => simp [hg, hc, hr] at hp
            | some rest =>
              simp only [hg, hc, hr, Option.some.injEq] at hp
              subst hp
              have := ih rest hr
              refine ⟨by simp [this.1], ?_⟩
              intro e he
              simp only [List.mem_cons] at he
              rcases he with rfl | he
              · exact ⟨c, hg, hc⟩
              · exact this.2 e he
    intro p hpf
    rw [← hshape.1] at hpf hs
    obtain ⟨e, he, rfl⟩ := List.mem_map.mp hpf
    obtain ⟨c, hg, hc⟩ := hshape.2 e he
    exact ⟨c, hg, by rw [writeBack_file backup outs fs hs e he, hc]⟩

/-- **Cursor-only commands leave every file byte-identical**: if processing a file renders its own
content (which `execute_passive` below shows for motion-only lists), the file is unchanged. -/
theorem passive_identity (proc : Process) (backup : Option Str) (files : List Path) (fs : FS)
    (hs : Separate backup files) (hid : ∀ p c, proc p c = some c) :
    ∀ p ∈ files, (∃ c, fs.get p = some c) → (∀ q ∈ files, ∃ c, fs.get q = some c) →
      (runInplace proc backup files fs).fs.get p = fs.get p := by
  intro p hp _ hall
  have hexit : (runInplace proc backup files fs).exit = 0 := by
    apply Decidable.byContradiction
    intro hne
    obtain ⟨q, hq, hf⟩ := (C06.exit_nonzero_iff_fault proc backup files fs).mp hne
    obtain ⟨c, hc⟩ := hall q hq
    rcases hf with hf | ⟨c', _, hc2⟩
    · rw [hc] at hf; cases hf
    · rw [hid] at hc2; cases hc2
  obtain ⟨c, hg, hr⟩ := inplace_eq_printed proc backup files fs hs hexit p hp
  rw [hr, hid, hg]

/-- **`--backup` keeps the original bytes** in the sibling `backupPath`. -/
theorem backup_holds_original (bak : Str) (outs : List (Path × Str)) (fs : FS)
    (hs : Separate (some bak) (outs.map Prod.fst)) :
    ∀ e ∈ outs, ∀ orig, fs.get e.1 = some orig →
      (writeBack (some bak) fs outs).get (backupPath bak e.1) = some orig := by
  induction outs generalizing fs with
  | nil => simp
  | cons e rest ih =>
    obtain ⟨p, out⟩ := e
    have hs' : Separate (some bak) (rest.map Prod.fst) := separate_tail (by simpa using hs)
    intro e he orig horig
    simp only [List.mem_cons] at he
    unfold writeBack
    rcases he with rfl | he
    · have hnt : ¬ touched (some bak) rest (backupPath bak p) := by
        rintro ⟨e, he, hq | ⟨bak', hb, hq⟩⟩
        · exact hs.noClash bak rfl p (by simp) e.1 (fst_mem_cons he) hq.symm
        · injection hb with hb; subst hb
          have hpe := hs.bakInj bak rfl e.1 (fst_mem_cons he) p (by simp) hq
          have := (List.nodup_cons.mp hs.nodup).1
          exact this (by rw [← hpe]; exact fst_mem (e := e) he)
      rw [writeBack_frame _ rest _ _ hnt]
      simp only [horig]
      have hne : p ≠ backupPath bak p := fun h => hs.noClash bak rfl p (by simp) p (by simp) h.symm
      rw [get_set_other _ _ _ _ hne, get_set_same]
    · apply ih _ hs' e he orig
      -- the head's writes do not touch e.1
      have hpe : p ≠ e.1 := by
        intro h
        have := (List.nodup_cons.mp hs.nodup).1
        exact this (by rw [h]; exact fst_mem (e := e) he)
      rw [get_set_other _ _ _ _ hpe]
      cases hg : fs.get p with
      | none => exact horig
      | some o =>
        simp only
        rw [get_set_other _ _ _ _ (hs.noClash bak rfl p (by simp) e.1 (fst_mem_cons he))]
        exact horig

/-! ## Backup path = `Path::with_extension` on the file name -/

example : backupPath "bak".toList "a.txt".toList = "a.txt.bak".toList := by decide
example : backupPath "bak".toList "b".toList = "b..bak".toList := by decide
example : backupPath "bak".toList "d/.hid".toList = "d/.hid..bak".toList := by decide
example : backupPath "bak".toList "c.tar.gz".toList = "c.tar.gz.bak".toList := by decide

/-! ## Non-vacuity -/
example : Separate (some "bak".toList) ["a.txt".toList, "b".toList] :=
  ⟨by decide, by intro bak h; injection h with h; subst h; decide,
   by intro bak h; injection h with h; subst h; decide⟩

end Vicut.C05
