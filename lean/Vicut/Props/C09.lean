/-
C09 — the editor's position always agrees with its text.
The verb/motion of a command is arbitrary; what is proved is that the bookkeeping around it (clamp
operations, exec_cmd epilogue, return to normal mode, charwise selection update, table lookups, line
geometry of the cursor line) re-establishes and uses the invariants for every text and every cursor.
-/
import Vicut.Model.Pos

namespace Vicut.C09
open Vicut

/-! ## The clamp -/

theorem set_ok (c : Clamp) (v : Nat) : (c.set v).Ok := by
  show min v c.ub ≤ c.ub
  exact Nat.min_le_right _ _

theorem new_ok (v m : Nat) (e : Bool) : (Clamp.new v m e).Ok := set_ok _ _

theorem add_ok (c : Clamp) (v : Nat) : (c.add v).Ok := by
  show min (c.value + v) c.ub ≤ c.ub
  exact Nat.min_le_right _ _

theorem sub_ok (c : Clamp) (v : Nat) (h : c.Ok) : (c.sub v).Ok := by
  show c.value - v ≤ c.ub
  have : c.value ≤ c.ub := h
  omega

theorem inc_ok (c : Clamp) (h : c.Ok) : c.inc.1.Ok := by
  unfold Clamp.inc; split
  · exact h
  · exact add_ok c 1

theorem dec_ok (c : Clamp) (h : c.Ok) : c.dec.1.Ok := by
  unfold Clamp.dec; split
  · exact h
  · exact sub_ok c 1 h

theorem setMax_ok (c : Clamp) (m : Nat) : (c.setMax m).Ok := set_ok _ _
theorem setExcl_ok (c : Clamp) (b : Bool) : (c.setExcl b).Ok := set_ok _ _

theorem retAdd_le (c : Clamp) (v : Nat) : c.retAdd v ≤ c.ub := Nat.min_le_right _ _

/-- **Every sequence of cursor operations keeps the cursor under its bound.** -/
theorem clamp_ops_ok (ops : List ClampOp) (c : Clamp) (h : c.Ok) : (ops.foldl Clamp.apply c).Ok := by
  induction ops generalizing c with
  | nil => exact h
  | cons op rest ih =>
    apply ih
    cases op with
    | set v => exact set_ok c v
    | add v => exact add_ok c v
    | sub v => exact sub_ok c v h
    | inc => exact inc_ok c h
    | dec => exact dec_ok c h
    | setMax m => exact setMax_ok c m
    | setExcl b => exact setExcl_ok c b

/-- Before the fix the clamp kind was switched without enforcing it: insert mode at the end of the text,
then normal mode, leaves the cursor past the last character. -/
theorem setExclLegacy_breaks : ¬ ((Clamp.mk 3 3 false).setExclLegacy true).Ok := by decide

/-- Under an exclusive clamp on a non-empty text the cursor is on a character. -/
theorem excl_on_char (c : Clamp) (h : c.Ok) (he : c.excl = true) (hm : 0 < c.max) : c.value < c.max := by
  simp only [Clamp.Ok, Clamp.ub, he, ↓reduceIte] at h; omega

/-! ## The epilogue of exec_cmd and the return to normal mode -/

theorem refresh_wf (s : EdPos) : s.refresh.WF := by
  refine ⟨?_, setMax_ok _ _, Or.inr rfl⟩
  simp [EdPos.refresh, Clamp.setMax, Clamp.set]

theorem onTerminator_pred (gs : List Gr) (v : Nat) (h : onTerminator gs v = true) :
    0 < v ∧ onTerminator gs (v - 1) = false := by
  unfold onTerminator at h
  split at h
  · rename_i g hg
    have hv : v ≠ 0 := by
      intro h0; simp [h0] at h
    refine ⟨by omega, ?_⟩
    cases hp : gs[v - 1]? with
    | none => simp [onTerminator, hp]
    | some p =>
      have hnp : isNl p = false := by simp [hp] at h; exact h.2
      simp [onTerminator, hp, hnp]
  · exact absurd h (by simp)

theorem pushOff_wf (s : EdPos) (h : s.WF) : (pushOff s).WF := by
  unfold pushOff
  split
  · obtain ⟨a, b, c⟩ := h
    exact ⟨a, sub_ok _ _ b, c⟩
  · exact h

theorem pushOff_off (s : EdPos) (he : s.cur.excl = true) : onTerminator (pushOff s).gs (pushOff s).cur.value = false := by
  unfold pushOff
  split
  · rename_i hc
    simp only [Bool.and_eq_true] at hc
    exact (onTerminator_pred _ _ hc.1).2
  · rename_i hc
    simp only [he, Bool.and_true] at hc
    simpa using hc

theorem pushOff_gs (s : EdPos) : (pushOff s).gs = s.gs := by
  unfold pushOff; split <;> rfl

theorem pushOff_value_le (s : EdPos) : (pushOff s).cur.value ≤ s.cur.value := by
  unfold pushOff; split
  · show s.cur.value - 1 ≤ s.cur.value; omega
  · exact Nat.le_refl _

/-- **Whatever the verb did**, if it changed the text — or left a well-formed table — the state after
`exec_cmd` is well-formed again: the cursor bound is the grapheme count of the *current* text, the
cursor is under it, and the table is absent or describes the current text. -/
theorem epilogue_wf (changed : Bool) (s : EdPos) (h : changed = true ∨ s.WF) : (epilogue changed s).WF := by
  apply pushOff_wf
  cases changed with
  | true => exact refresh_wf s
  | false => rcases h with h | h; exact absurd h (by simp); exact h

/-- ... and under the normal-mode clamp the cursor is never left on the terminator of a non-empty line. -/
theorem epilogue_off_terminator (changed : Bool) (s : EdPos) (he : s.cur.excl = true) :
    onTerminator (epilogue changed s).gs (epilogue changed s).cur.value = false := by
  apply pushOff_off
  cases changed <;> simp [EdPos.refresh, Clamp.setMax, Clamp.set, he]

theorem epilogue_keeps_text (changed : Bool) (s : EdPos) : (epilogue changed s).gs = s.gs := by
  unfold epilogue; rw [pushOff_gs]; cases changed <;> rfl

/-- **Returning to normal mode** (after the fix) puts the cursor on a character, off any terminator. -/
theorem enterNormal_ok (s : EdPos) (hm : s.cur.max = s.gs.length) : (enterNormal s).NormalOk ∧ (enterNormal s).cur.Ok := by
  have hok : (s.cur.setExcl true).Ok := setExcl_ok _ _
  have hex : (s.cur.setExcl true).excl = true := by simp [Clamp.setExcl, Clamp.set]
  have hmx : (s.cur.setExcl true).max = s.gs.length := by simp [Clamp.setExcl, Clamp.set, hm]
  have hwf : ({ s with cur := s.cur.setExcl true } : EdPos).cur.Ok := hok
  refine ⟨⟨fun hne => ?_, pushOff_off _ hex⟩, ?_⟩
  · have hne' : s.gs ≠ [] := by
      unfold enterNormal at hne; rw [pushOff_gs] at hne; exact hne
    have h1 := excl_on_char _ hok hex (by rw [hmx]; exact List.length_pos_iff.mpr hne')
    have h2 := pushOff_value_le { s with cur := s.cur.setExcl true }
    unfold enterNormal
    rw [pushOff_gs]
    rw [hmx] at h1
    exact Nat.lt_of_le_of_lt h2 h1
  · unfold enterNormal pushOff
    split
    · exact sub_ok _ _ hok
    · exact hok

/-- `enforce_cursor_clamp` (run after every mode transition): the cursor is under its bound again and,
under the exclusive clamp, off any line terminator. -/
theorem enforce_ok (s : EdPos) :
    (enforce s).cur.Ok ∧ (s.cur.excl = true → onTerminator (enforce s).gs (enforce s).cur.value = false) := by
  have hok : (s.cur.set s.cur.value).Ok := set_ok _ _
  refine ⟨?_, fun he => pushOff_off _ (by simpa [Clamp.set] using he)⟩
  unfold enforce pushOff
  split
  · exact sub_ok _ _ hok
  · exact hok

theorem stepBack_max (s : EdPos) : (stepBack s).cur.max = s.cur.max ∧ (stepBack s).gs = s.gs := by
  unfold stepBack; split
  · split <;> exact ⟨rfl, rfl⟩
  · exact ⟨rfl, rfl⟩

/-- `set_normal_mode` from any mode: the cursor ends on a character, off any terminator, under its bound. -/
theorem setNormalMode_ok (wasInsert : Bool) (s : EdPos) (hm : s.cur.max = s.gs.length) :
    (setNormalMode wasInsert s).NormalOk ∧ (setNormalMode wasInsert s).cur.Ok := by
  unfold setNormalMode
  apply enterNormal_ok
  cases wasInsert
  · exact hm
  · have := stepBack_max s
    simp only [↓reduceIte]; rw [this.1, this.2]; exact hm

/-! ## What the table reports -/

theorem byteLen_append (a b : Str) : byteLen (a ++ b) = byteLen a + byteLen b := by
  simp [byteLen]

theorem offsetsFrom_get (o : Nat) (gs : List Gr) (i : Nat) (hi : i < gs.length) :
    (offsetsFrom o gs)[i]? = some (o + byteLen (gs.take i).flatten) := by
  induction gs generalizing o i with
  | nil => simp at hi
  | cons g rest ih =>
    cases i with
    | zero => simp [offsetsFrom, byteLen]
    | succ j =>
      have hj : j < rest.length := by simpa using hi
      simp only [offsetsFrom, List.getElem?_cons_succ, List.take_succ_cons, List.flatten_cons]
      rw [ih _ j hj, byteLen_append]
      simp only [byteLen]; congr 1; omega

theorem offsetsFrom_none (o : Nat) (gs : List Gr) (i : Nat) (hi : gs.length ≤ i) : (offsetsFrom o gs)[i]? = none := by
  induction gs generalizing o i with
  | nil => simp [offsetsFrom]
  | cons g rest ih =>
    cases i with
    | zero => simp at hi
    | succ j => simp only [offsetsFrom, List.getElem?_cons_succ]; exact ih _ j (by simpa using hi)

/-- **The byte offset the editor reports for a grapheme index is the byte length of the printed text
before it** — for every index, inside the text or at/after its end — as long as the table is well-formed. -/
theorem reported_pos (s : EdPos) (h : s.WF) (i : Nat) :
    s.indexBytePos i = byteLen (s.gs.take i).flatten := by
  have ht : s.table = offsets s.gs := by
    rcases h.2.2 with hc | hc <;> simp [EdPos.table, hc]
  simp only [EdPos.indexBytePos, ht, offsets]
  by_cases hi : i < s.gs.length
  · simp [offsetsFrom_get 0 s.gs i hi]
  · rw [offsetsFrom_none 0 s.gs i (by omega), List.take_of_length_le (by omega)]; rfl

/-- Hence every byte offset the editor cuts at is a grapheme boundary of the current text. -/
theorem cuts_at_boundaries (s : EdPos) (h : s.WF) (i : Nat) :
    ∃ k, k ≤ s.gs.length ∧ s.indexBytePos i = byteLen (s.gs.take k).flatten := by
  refine ⟨min i s.gs.length, Nat.min_le_right _ _, ?_⟩
  rw [reported_pos s h i]
  by_cases hi : i ≤ s.gs.length
  · rw [Nat.min_eq_left hi]
  · rw [Nat.min_eq_right (by omega), List.take_of_length_le (by omega), List.take_of_length_le (Nat.le_refl _)]

/-- A stale table reports a position inside a character: the table of "ab" used on "éb". -/
theorem stale_table_cuts_inside_a_character :
    let s : EdPos := ⟨[['é'], ['b']], Clamp.new 1 2 true, some (offsets [['a'], ['b']])⟩
    s.indexBytePos 1 = 1 ∧ byteLen (s.gs.take 1).flatten = 2 := by decide

/-! ## Line and column of the cursor -/

theorem afterNl_none {gs : List Gr} {pos : Nat} (h : afterNl gs pos = none) : ∀ g ∈ gs, isNl g = false := by
  induction gs generalizing pos with
  | nil => simp
  | cons g rest ih =>
    unfold afterNl at h
    split at h
    · exact absurd h (by simp)
    · rename_i hg
      intro x hx
      rcases List.mem_cons.mp hx with rfl | hx
      · simpa using hg
      · exact ih h x hx

theorem afterNl_some {gs : List Gr} {pos e : Nat} {rest : List Gr} (h : afterNl gs pos = some (e, rest)) :
    ∃ j, j < gs.length ∧ e = pos + j + 1 ∧ rest = gs.drop (j + 1) ∧ isNl (gs[j]?.getD []) = true ∧
      ∀ i, i < j → isNl (gs[i]?.getD []) = false := by
  induction gs generalizing pos with
  | nil => simp [afterNl] at h
  | cons g tl ih =>
    unfold afterNl at h
    split at h
    · rename_i hg
      simp only [Option.some.injEq, Prod.mk.injEq] at h
      exact ⟨0, by simp, by omega, by simp [h.2], by simpa using hg, fun i hi => absurd hi (by omega)⟩
    · rename_i hg
      obtain ⟨j, hj, he, hr, hn, hb⟩ := ih h
      refine ⟨j + 1, by simpa using hj, by omega, by simpa using hr, by simpa using hn, ?_⟩
      intro i hi
      cases i with
      | zero => simpa using hg
      | succ k => simpa using hb k (by omega)

theorem countNl_take_zero_of_all {gs : List Gr} (h : ∀ g ∈ gs, isNl g = false) (k : Nat) : countNl (gs.take k) = 0 := by
  simp only [countNl, List.countP_eq_zero]
  intro g hg
  simpa using h g (List.mem_of_mem_take hg)

theorem lineBoundsAux_start_ge (max n : Nat) (gs : List Gr) (pos start : Nat) (hs : start ≤ pos)
    (hmax : pos + gs.length ≤ max) : start ≤ (lineBoundsAux max n gs pos start).1 := by
  induction n generalizing gs pos start with
  | zero =>
    cases ha : afterNl gs pos <;> simp only [lineBoundsAux, ha] <;> exact Nat.le_refl _
  | succ m ih =>
    cases ha : afterNl gs pos with
    | none => simp only [lineBoundsAux, ha]; exact Nat.le_refl _
    | some p =>
      obtain ⟨e, rest⟩ := p
      simp only [lineBoundsAux, ha]
      obtain ⟨j, hj, he, hr, _, _⟩ := afterNl_some ha
      have hrl : rest.length = gs.length - (j + 1) := by rw [hr]; simp
      have hemax : min e max = e := by omega
      rw [hemax]
      have := ih rest e e (Nat.le_refl _) (by omega)
      omega

/-- The cursor line found by `line_bounds(cursor_line_number())`: for a cursor at `k` (relative to the
part of the text still to scan) preceded by `n` newline graphemes, the bounds returned contain the
cursor, stay inside the text, start at the passed-in start when `n = 0` and after a newline otherwise,
and no newline lies between the start and the cursor. -/
theorem lineBoundsAux_cursor (max n : Nat) (gs : List Gr) (pos start k : Nat)
    (hk : k ≤ gs.length) (hmax : max = pos + gs.length) (hs : start ≤ pos) (hn : countNl (gs.take k) = n) :
    let r := lineBoundsAux max n gs pos start
    r.1 ≤ pos + k ∧ pos + k ≤ r.2 ∧ r.2 ≤ max ∧
    (n = 0 → r.1 = start) ∧
    (∀ i, r.1 ≤ pos + i → i < k → isNl (gs[i]?.getD []) = false) := by
  induction n generalizing gs pos start k with
  | zero =>
    have hno : ∀ i, i < k → isNl (gs[i]?.getD []) = false := by
      intro i hi
      have hlt : i < gs.length := by omega
      have hmem : gs[i] ∈ gs.take k := by
        rw [List.mem_take_iff_getElem]; exact ⟨i, by omega, rfl⟩
      have : ¬ isNl gs[i] = true := by
        have h0 : countNl (gs.take k) = 0 := hn
        simp only [countNl, List.countP_eq_zero] at h0
        exact h0 _ hmem
      simpa [hlt] using this
    cases ha : afterNl gs pos with
    | none =>
      simp only [lineBoundsAux, ha]
      exact ⟨by omega, by omega, by omega, fun _ => trivial, fun i _ hi => hno i hi⟩
    | some p =>
      obtain ⟨e, rest⟩ := p
      simp only [lineBoundsAux, ha]
      obtain ⟨j, hj, he, _, hnl, _⟩ := afterNl_some ha
      have hjk : k ≤ j := by
        apply Decidable.byContradiction; intro hc
        have := hno j (by omega)
        rw [this] at hnl; exact absurd hnl (by simp)
      exact ⟨by omega, by omega, by omega, fun _ => trivial, fun i _ hi => hno i hi⟩
  | succ m ih =>
    cases ha : afterNl gs pos with
    | none =>
      have := countNl_take_zero_of_all (afterNl_none ha) k
      omega
    | some p =>
      obtain ⟨e, rest⟩ := p
      simp only [lineBoundsAux, ha]
      obtain ⟨j, hj, he, hr, hnl, hbefore⟩ := afterNl_some ha
      -- the first newline is before the cursor, else the count would be 0
      have hjk : j < k := by
        apply Decidable.byContradiction; intro hc
        have h0 : countNl (gs.take k) = 0 := by
          simp only [countNl, List.countP_eq_zero]
          intro g hg
          rw [List.mem_take_iff_getElem] at hg
          obtain ⟨i, hi, rfl⟩ := hg
          have hlt : i < gs.length := by omega
          have := hbefore i (by omega)
          simpa [hlt] using this
        omega
      have hjl : j < gs.length := hj
      have hsplit : gs.take k = gs.take (j + 1) ++ (gs.drop (j + 1)).take (k - (j + 1)) := by
        rw [← List.take_append_drop (j + 1) (gs.take k)]
        congr 1
        · rw [List.take_take, Nat.min_eq_left (by omega)]
        · rw [List.drop_take]
      have hfirst : countNl (gs.take (j + 1)) = 1 := by
        rw [List.take_succ, countNl, List.countP_append]
        have h0 : List.countP isNl (gs.take j) = 0 := by
          simp only [List.countP_eq_zero]
          intro g hg
          rw [List.mem_take_iff_getElem] at hg
          obtain ⟨i, hi, rfl⟩ := hg
          have hlt : i < gs.length := by omega
          have := hbefore i (by omega)
          simpa [hlt] using this
        have h1 : List.countP isNl gs[j]?.toList = 1 := by
          simp only [hjl, List.getElem?_eq_getElem, Option.toList_some, List.countP_singleton]
          have : isNl gs[j] = true := by simpa [hjl] using hnl
          simp [this]
        omega
      have hcount : countNl (rest.take (k - (j + 1))) = m := by
        have : countNl (gs.take k) = countNl (gs.take (j + 1)) + countNl ((gs.drop (j + 1)).take (k - (j + 1))) := by
          rw [hsplit, countNl, List.countP_append]; rfl
        rw [hr]; omega
      have hrl : rest.length = gs.length - (j + 1) := by rw [hr]; simp
      have hemax : min e max = e := by omega
      have := ih rest e (min e max) (k - (j + 1)) (by omega) (by omega) (by omega) hcount
      simp only at this
      obtain ⟨a, b, c, d, f⟩ := this
      refine ⟨by omega, by omega, c, fun h => absurd h (by omega), ?_⟩
      intro i hi hik
      have hge : j + 1 ≤ i := by
        -- r.1 ≥ start' = e = pos + j + 1 is what the recursion guarantees through `a`/`d`; use f on i-(j+1)
        apply Decidable.byContradiction; intro hc
        -- r.1 ≥ e: shown below
        have hr1 : e ≤ (lineBoundsAux max m rest e (min e max)).1 := by
          rw [hemax]
          exact lineBoundsAux_start_ge max m rest e e (Nat.le_refl _) (by omega)
        omega
      have := f (i - (j + 1)) (by omega) (by omega)
      rw [hr, List.getElem?_drop] at this
      rwa [show j + 1 + (i - (j + 1)) = i by omega] at this

/-- Newline characters only occur as stand-alone graphemes (no CR LF pairs, which segment as one grapheme). -/
def NlAlone (gs : List Gr) : Prop := ∀ g ∈ gs, '\n' ∈ g → g = ['\n']

theorem count_nl_gr (g : Gr) (h : '\n' ∈ g → g = ['\n']) : g.count '\n' = if isNl g then 1 else 0 := by
  by_cases hm : '\n' ∈ g
  · have := h hm; subst this; simp [isNl]
  · have hne : isNl g = false := by
      simp only [isNl, beq_eq_false_iff_ne, ne_eq]
      intro hg; subst hg; exact hm (by simp)
    simp [hne, List.count_eq_zero.mpr hm]

theorem flatten_count_nl (gs : List Gr) (h : NlAlone gs) : gs.flatten.count '\n' = countNl gs := by
  induction gs with
  | nil => rfl
  | cons g rest ih =>
    have hr : NlAlone rest := fun x hx => h x (by simp [hx])
    rw [List.flatten_cons, List.count_append, ih hr, count_nl_gr g (h g (by simp))]
    simp only [countNl, List.countP_cons]
    split <;> omega

/-- The line number the editor reports (newline *characters* before the cursor) is the number of line
terminators (newline *graphemes*) before it — on texts without CR LF pairs. -/
theorem cursorLine_eq (lb : LB) (h : NlAlone lb.gs) : cursorLine lb = countNl (lb.gs.take lb.cur) := by
  unfold cursorLine
  exact flatten_count_nl _ (fun g hg => h g (List.mem_of_mem_take hg))

theorem countNl_le_flatten (gs : List Gr) : countNl gs ≤ gs.flatten.count '\n' := by
  induction gs with
  | nil => simp [countNl]
  | cons g rest ih =>
    rw [List.flatten_cons, List.count_append, countNl, List.countP_cons]
    simp only [countNl] at ih
    by_cases hg : isNl g = true
    · have : g = ['\n'] := by simpa [isNl] using hg
      subst this
      have h1 : isNl ['\n'] = true := rfl
      simp only [h1, ↓reduceIte]
      have h2 : List.count '\n' ['\n'] = 1 := rfl
      omega
    · simp [hg]; omega

theorem countNl_take_le (gs : List Gr) (k : Nat) : countNl (gs.take k) ≤ countNl gs := by
  have : gs = gs.take k ++ gs.drop k := (List.take_append_drop k gs).symm
  conv => rhs; rw [this]
  simp only [countNl, List.countP_append]; omega

/-- **`this_line()` never fails and contains the cursor**: for every text and every cursor inside
`0..len`, the bounds of the cursor line exist, lie inside the text, contain the cursor, and there is no
line terminator between the line start and the cursor. So the reported column `cursor - start` cannot
underflow and counts the graphemes since the line start. -/
theorem this_line_contains_cursor (gs : List Gr) (cur : Nat) (hc : cur ≤ gs.length) :
    ∃ s e, lineBounds gs (countNl (gs.take cur)) = some (s, e) ∧ s ≤ cur ∧ cur ≤ e ∧ e ≤ gs.length ∧
      ∀ i, s ≤ i → i < cur → isNl (gs[i]?.getD []) = false := by
  have hle : ¬ countNl (gs.take cur) > totalLines gs := by
    have h1 := countNl_take_le gs cur
    have h2 := countNl_le_flatten gs
    unfold totalLines; omega
  have := lineBoundsAux_cursor gs.length (countNl (gs.take cur)) gs 0 0 cur hc (by simp) (Nat.le_refl _) rfl
  simp only [Nat.zero_add] at this
  obtain ⟨a, b, c, _, f⟩ := this
  refine ⟨_, _, by simp only [lineBounds, hle, ↓reduceIte], a, b, c, ?_⟩
  intro i hi hik
  exact f i hi hik

/-- When the cursor is inside the text the column never underflows. -/
theorem cursorCol_defined (gs : List Gr) (cur : Nat) (hc : cur ≤ gs.length) (h : NlAlone gs) :
    ∃ c, cursorCol gs cur = some c ∧ c ≤ cur := by
  obtain ⟨s, e, hb, hs, _, _, _⟩ := this_line_contains_cursor gs cur hc
  have hcl : (gs.take cur).flatten.count '\n' = countNl (gs.take cur) :=
    flatten_count_nl _ (fun g hg => h g (List.mem_of_mem_take hg))
  refine ⟨cur - s, ?_, by omega⟩
  simp [cursorCol, hcl, hb, hs]

/-- With CR LF in the text the two notions of line differ and the column underflows (the real editor
reports column 2^64-7 there): the line number counts the `\n` character inside the `\r\n` grapheme, but
`line_bounds` does not see a terminator. -/
theorem crlf_breaks_column :
    let lb : LB := ⟨[['\r', '\n'], ['a'], ['\n'], ['b']], 1, true⟩
    cursorLine lb = 1 ∧ countNl (lb.gs.take lb.cur) = 0 ∧ lineBounds lb.gs (cursorLine lb) = some (3, 4) := by decide

/-! ## Charwise selection -/

/-- **The charwise selection always contains the cursor** and is ordered; it stays inside whatever bound
the old range and the cursor respect. -/
theorem char_selection_contains_cursor (a : Bool) (s e cur : Nat) :
    (updateCharSel a s e cur).2.1 ≤ (updateCharSel a s e cur).2.2 ∧
    ((updateCharSel a s e cur).2.1 = cur ∨ (updateCharSel a s e cur).2.2 = cur) := by
  unfold updateCharSel
  cases a <;> simp only [Bool.false_eq_true, ↓reduceIte] <;> split <;> simp <;> omega

theorem char_selection_inside (a : Bool) (s e cur m : Nat) (hs : s ≤ m) (he : e ≤ m) (hc : cur ≤ m) :
    (updateCharSel a s e cur).2.2 ≤ m := by
  unfold updateCharSel
  cases a <;> simp only [Bool.false_eq_true, ↓reduceIte] <;> split <;> simp <;> omega

/-! ## Non-vacuity -/
example : (⟨[['a'], ['\n'], ['b']], Clamp.new 1 3 true, none⟩ : EdPos).WF := by decide
example : (epilogue true ⟨[['a'], ['\n'], ['b']], ⟨9, 7, true⟩, some [0, 5]⟩) = ⟨[['a'], ['\n'], ['b']], ⟨2, 3, true⟩, some [0, 1, 2]⟩ := by decide
example : (epilogue true ⟨[['a'], ['\n'], ['b']], ⟨1, 7, true⟩, some [0, 5]⟩).cur.value = 0 := by decide
example : (enterNormal ⟨[['a'], ['b'], ['\n']], ⟨3, 3, false⟩, none⟩).cur.value = 1 := by decide


end Vicut.C09
