/-
C11 — splitting keys at command boundaries changes nothing; flags start in Normal mode.
Parametric in the key engine: the theorems hold for any per-key transition, any end-of-argument
flush and any reset, given only what "complete command" means (it leaves nothing open).
-/
import Vicut.Model.Session

namespace Vicut.C11
open Vicut

variable {σ κ : Type}

theorem keys_append (S : KeySys σ κ) (s : σ) (a b : List κ) : S.keys s (a ++ b) = S.keys (S.keys s a) b := by
  simp [KeySys.keys, List.foldl_append]

/-- Keys of several complete commands in a row keep the state settled. -/
theorem complete_flatten (S : KeySys σ κ) (cmds : List (List κ)) (hc : ∀ c ∈ cmds, S.Complete c) (s : σ) (hs : S.Settled s) :
    S.Settled (S.keys s cmds.flatten) := by
  induction cmds generalizing s with
  | nil => simpa [KeySys.keys] using hs
  | cons c rest ih =>
    rw [List.flatten_cons, keys_append]
    exact ih (fun c' hc' => hc c' (by simp [hc'])) _ (hc c (by simp) s hs)

/-- One argument made of complete commands behaves like its bare keys (the housekeeping is a no-op). -/
theorem runArg_complete (S : KeySys σ κ) (keep : Bool) (cmds : List (List κ)) (hc : ∀ c ∈ cmds, S.Complete c)
    (s : σ) (hs : S.Settled s) : S.runArg keep s cmds.flatten = S.keys s cmds.flatten := by
  have h := complete_flatten S cmds hc s hs
  unfold KeySys.runArg
  cases keep
  · simp only [Bool.false_eq_true, ↓reduceIte]; rw [h.1, h.2]
  · simp only [↓reduceIte]; rw [h.1]

/-- **Split invariance**: however a sequence of complete commands is grouped into arguments, the result
is the state reached by typing all keys in one go. `groups` is the grouping: each group is the list of
commands given in one argument. Holds with and without `--keep-mode`. -/
theorem split_invariance (S : KeySys σ κ) (keep : Bool) (groups : List (List (List κ)))
    (hc : ∀ g ∈ groups, ∀ c ∈ g, S.Complete c) (s : σ) (hs : S.Settled s) :
    S.runArgs keep s (groups.map List.flatten) = S.keys s groups.flatten.flatten ∧
    S.Settled (S.runArgs keep s (groups.map List.flatten)) := by
  induction groups generalizing s with
  | nil => exact ⟨rfl, hs⟩
  | cons g rest ih =>
    have hg : ∀ c ∈ g, S.Complete c := hc g (by simp)
    have h1 := runArg_complete S keep g hg s hs
    have h2 := complete_flatten S g hg s hs
    have := ih (fun g' hg' => hc g' (by simp [hg'])) (S.keys s g.flatten) h2
    simp only [KeySys.runArgs, List.map_cons, List.foldl_cons, List.flatten_cons, List.flatten_append] at *
    rw [h1, keys_append]
    exact this

/-- Any two ways of splitting the same command sequence give the same state. -/
theorem all_splits_agree (S : KeySys σ κ) (k1 k2 : Bool) (g1 g2 : List (List (List κ)))
    (h : g1.flatten = g2.flatten) (hc : ∀ c ∈ g1.flatten, S.Complete c) (s : σ) (hs : S.Settled s) :
    S.runArgs k1 s (g1.map List.flatten) = S.runArgs k2 s (g2.map List.flatten) := by
  have hc1 : ∀ g ∈ g1, ∀ c ∈ g, S.Complete c := fun g hg c hcg => hc c (List.mem_flatten.mpr ⟨g, hg, hcg⟩)
  have hc2 : ∀ g ∈ g2, ∀ c ∈ g, S.Complete c := fun g hg c hcg => hc c (h ▸ List.mem_flatten.mpr ⟨g, hg, hcg⟩)
  rw [(split_invariance S k1 g1 hc1 s hs).1, (split_invariance S k2 g2 hc2 s hs).1, h]

/-- Later arguments (fields) see the same state too: appending any further arguments to two splittings. -/
theorem later_fields_agree (S : KeySys σ κ) (keep : Bool) (g1 g2 : List (List (List κ))) (later : List (List κ))
    (h : g1.flatten = g2.flatten) (hc : ∀ c ∈ g1.flatten, S.Complete c) (s : σ) (hs : S.Settled s) :
    S.runArgs keep s (g1.map List.flatten ++ later) = S.runArgs keep s (g2.map List.flatten ++ later) := by
  simp only [KeySys.runArgs, List.foldl_append]
  have := all_splits_agree S keep keep g1 g2 h hc s hs
  simp only [KeySys.runArgs] at this
  rw [this]

/-! ## What an unfinished argument leaves behind -/

/-- States of an editor with a mode component; `reset` installs the fresh normal mode and may adjust the
editor part (cursor step-back, clamp) depending on the mode it leaves. -/
structure ModeSys (ε μ κ : Type) where
  step : ε × μ → κ → ε × μ
  flush : ε × μ → ε × μ
  leave : μ → ε → ε          -- what leaving mode `m` does to the editor (set_normal_mode's editor part)
  fresh : μ                   -- `ViNormal::new()`

def ModeSys.toKeySys {ε μ κ : Type} (M : ModeSys ε μ κ) : KeySys (ε × μ) κ :=
  { step := M.step, flush := M.flush, reset := fun s => (M.leave s.2 s.1, M.fresh) }

/-- **Without --keep-mode every argument starts in the fresh normal mode**: whatever the previous
argument left open (pending count, register, operator, Insert/Visual/Ex mode), the mode component after
it is `ViNormal::new()`. -/
theorem arg_starts_fresh {ε μ κ : Type} (M : ModeSys ε μ κ) (s : ε × μ) (ks : List κ) :
    (M.toKeySys.runArg false s ks).2 = M.fresh := rfl

/-- Hence the next argument depends on the previous one only through the editor part it left. -/
theorem next_arg_sees_only_editor {ε μ κ : Type} (M : ModeSys ε μ κ) (s1 s2 : ε × μ) (k1 k2 next : List κ)
    (h : (M.toKeySys.runArg false s1 k1).1 = (M.toKeySys.runArg false s2 k2).1) :
    M.toKeySys.runArg false (M.toKeySys.runArg false s1 k1) next
      = M.toKeySys.runArg false (M.toKeySys.runArg false s2 k2) next := by
  have e1 : M.toKeySys.runArg false s1 k1 = ((M.toKeySys.runArg false s1 k1).1, M.fresh) := rfl
  have e2 : M.toKeySys.runArg false s2 k2 = ((M.toKeySys.runArg false s2 k2).1, M.fresh) := rfl
  rw [e1, e2, h]

/-- With --keep-mode nothing is reset: an argument is just its keys followed by the flush. -/
theorem keep_mode_is_concatenation {ε μ κ : Type} (M : ModeSys ε μ κ) (s : ε × μ) (a b : List κ)
    (hf : M.flush (M.toKeySys.keys s a) = M.toKeySys.keys s a) :
    M.toKeySys.runArgs true s [a, b] = M.toKeySys.runArg true s (a ++ b) := by
  simp only [KeySys.runArgs, List.foldl_cons, List.foldl_nil, KeySys.runArg, ↓reduceIte, keys_append]
  show M.flush (M.toKeySys.keys (M.flush (M.toKeySys.keys s a)) b) = _
  rw [hf]
  rfl

/-! ## Non-vacuity: a small key system with a pending count -/

/-- Editor = a counter, mode = pending count; key `some d` is a digit, `none` is "add". -/
def toy : ModeSys Nat (Option Nat) (Option Nat) :=
  { step := fun s k => match k with
      | some d => (s.1, some d)
      | none => (s.1 + s.2.getD 1, none),
    flush := id, leave := fun _ e => e, fresh := none }

example : toy.toKeySys.Complete [some 3, none] := by
  intro s hs
  simp [KeySys.Settled, KeySys.keys, ModeSys.toKeySys, toy] at *
example : toy.toKeySys.Settled (5, none) := by simp [KeySys.Settled, ModeSys.toKeySys, toy]
/-- the pending count of an unfinished argument is dropped: "3" then "add" adds 1, not 3 -/
example : toy.toKeySys.runArgs false (0, none) [[some 3], [none]] = (1, none) := by rfl
example : toy.toKeySys.runArgs true (0, none) [[some 3], [none]] = (3, none) := by rfl

end Vicut.C11
