/-
C12 — `-r N R` is exactly the unrolled command list.
Parser side: `-r N R` replaces the last N commands of the list it sits in (top level, `then` or
`else` list of the innermost open scope) by `Repeat{those commands, R+1}`; a closed `-g … --end`
is one command. Execution side: a `Repeat` runs like its body written out, at any nesting depth and
inside scopes — for every editor.
-/
import Vicut.Model.Args

namespace Vicut.C12
open Vicut

variable {σ : Type}

/-! ## Parsing -/

/-- At top level, `-r N R` turns the last N commands into `Repeat{…, R+1}` (all of them if there are
fewer than N) and parsing goes on with the remaining arguments. -/
theorem parse_repeat_top (fileOk : Str → Bool) (N R : Str) (n r : Nat) (rest : List Str) (o : POpts)
    (hN : parseUsize N = some n) (hR : parseUsize R = some r) :
    parseArgs fileOk (lit "-r" :: N :: R :: rest) { opts := o, stack := [] }
      = parseArgs fileOk rest { opts := { o with cmds := applyRepeat o.cmds n r }, stack := [] } := by
  rw [parseArgs]
  simp [lit, repeatOperands, hN, hR, PState.repeatLast, PState.peekBreak]

/-- The long spelling is the same arm. -/
theorem parse_repeat_top_long (fileOk : Str → Bool) (N R : Str) (n r : Nat) (rest : List Str) (o : POpts)
    (hN : parseUsize N = some n) (hR : parseUsize R = some r) :
    parseArgs fileOk (lit "--repeat" :: N :: R :: rest) { opts := o, stack := [] }
      = parseArgs fileOk rest { opts := { o with cmds := applyRepeat o.cmds n r }, stack := [] } := by
  rw [parseArgs]
  simp [lit, repeatOperands, hN, hR, PState.repeatLast, PState.peekBreak]

/-- Inside an open scope the same thing happens to the list being filled (`then`, or `else` after
`--else`), in the same order and with the same count `R+1`. -/
theorem parse_repeat_scope (fileOk : Str → Bool) (N R : Str) (n r : Nat) (rest : List Str)
    (o : POpts) (f : Frame) (fs : List Frame)
    (hN : parseUsize N = some n) (hR : parseUsize R = some r) :
    parseArgs fileOk (lit "-r" :: N :: R :: rest) { opts := o, stack := f :: fs }
      = parseArgs fileOk rest
          (({ opts := o, stack := f.setActive (applyRepeat f.active n r) :: fs } : PState).peekBreak rest) := by
  rw [parseArgs]
  simp [lit, repeatOperands, hN, hR, PState.repeatLast]

/-- The body of the `Repeat` is the last N commands *in their original order*. -/
theorem applyRepeat_body (cs : List Cmd) (n r : Nat) (h : n ≤ cs.length) :
    ∃ pre body, cs = pre ++ body ∧ body.length = n ∧ applyRepeat cs n r = pre ++ [Cmd.rep body (r + 1)] := by
  refine ⟨cs.take (cs.length - n), cs.drop (cs.length - n), ?_, ?_, rfl⟩
  · simp
  · simp; omega

/-- N larger than what is there takes everything (and does not crash). -/
theorem applyRepeat_clamps (cs : List Cmd) (n r : Nat) (h : cs.length ≤ n) :
    applyRepeat cs n r = [Cmd.rep cs (r + 1)] := by
  have : cs.length - n = 0 := by omega
  simp [applyRepeat, this]

/-- `--end` makes the whole scope one command of the enclosing list — which is what a later `-r`
counts. -/
theorem end_is_one_command (o : POpts) (f : Frame) :
    (({ opts := o, stack := [f] } : PState).closeOne).opts.cmds = o.cmds ++ [f.close] ∧
    (({ opts := o, stack := [f] } : PState).closeOne).stack = [] := by
  simp [PState.closeOne, PState.pushCmd]

/-! ## Execution -/

variable (E : Ed σ) (keep : Bool)

theorem execSeq_append (a b : List Cmd) (st : σ × Ctx) :
    execSeq E keep (a ++ b) st = execSeq E keep b (execSeq E keep a st) := by
  induction a generalizing st with
  | nil => simp [execSeq]
  | cons c cs ih => simp [execSeq, ih]

/-- `st` is as `set_normal_mode()` leaves it (or `--keep-mode` is on). -/
def Norm (st : σ × Ctx) : Prop := afterCmd E keep st = st

/-- `set_normal_mode` twice is `set_normal_mode` once. -/
def IdemNormal : Prop := ∀ s, E.setNormal (E.setNormal s) = E.setNormal s

variable {E keep}

theorem norm_afterCmd (hI : IdemNormal E) (st : σ × Ctx) : Norm E keep (afterCmd E keep st) := by
  unfold Norm afterCmd
  cases keep <;> simp [hI st.1]

theorem norm_execSeq (hI : IdemNormal E) (cs : List Cmd) (st : σ × Ctx) (h : Norm E keep st) :
    Norm E keep (execSeq E keep cs st) := by
  induction cs generalizing st with
  | nil => simpa [execSeq]
  | cons c cs ih => simp only [execSeq]; exact ih _ (norm_afterCmd hI _)

theorem norm_iter (hI : IdemNormal E) (body : List Cmd) (k : Nat) (st : σ × Ctx) (h : Norm E keep st) :
    Norm E keep (iter (fun s => execSeq E keep body s) k st) := by
  induction k generalizing st with
  | zero => simpa [iter]
  | succ k ih => simp only [iter]; exact ih _ (norm_execSeq hI body st h)

theorem execSeq_replicate (body : List Cmd) (k : Nat) (st : σ × Ctx) :
    execSeq E keep (List.replicate k body).flatten st = iter (fun s => execSeq E keep body s) k st := by
  induction k generalizing st with
  | zero => simp [execSeq, iter]
  | succ k ih => simp [List.replicate_succ, execSeq_append, iter, ih]

/-- One `Repeat` command is its body written `k` times. -/
theorem repeat_single (hI : IdemNormal E) (body : List Cmd) (k : Nat) (st : σ × Ctx) (h : Norm E keep st) :
    execSeq E keep [Cmd.rep body k] st = execSeq E keep (List.replicate k body).flatten st := by
  rw [execSeq_replicate]
  simp only [execSeq, execCmd]
  exact norm_iter hI body k st h

/-- **`-r N R` is the unrolled list** (top level): with `body` the N preceding commands,
`pre ++ body ++ -r N R ++ post` runs exactly like `pre ++ body ++ body^R ++ post`. Also covers vic's
`repeat k { B }` (`k` arbitrary, including 0). -/
theorem r_is_unrolled (hI : IdemNormal E) (pre body post : List Cmd) (k : Nat) (st : σ × Ctx)
    (h : Norm E keep st) :
    execSeq E keep (pre ++ [Cmd.rep body k] ++ post) st
      = execSeq E keep (pre ++ (List.replicate k body).flatten ++ post) st := by
  simp only [execSeq_append]
  rw [repeat_single hI body k _ (norm_execSeq hI pre st h)]

theorem r_is_unrolled_flags (hI : IdemNormal E) (pre body post : List Cmd) (r : Nat) (st : σ × Ctx)
    (h : Norm E keep st) :
    execSeq E keep (pre ++ [Cmd.rep body (r + 1)] ++ post) st
      = execSeq E keep (pre ++ body ++ (List.replicate r body).flatten ++ post) st := by
  rw [r_is_unrolled hI pre body post (r + 1) st h]
  simp [List.replicate_succ, List.append_assoc]

/-! ### Any nesting depth, inside scopes: unrolling every `Repeat` of a command tree -/

mutual
def unroll : Cmd → List Cmd
  | .rep body k => (List.replicate k (unrollList body)).flatten
  | .glob p pol thn he els => [.glob p pol (unrollList thn) he (unrollList els)]
  | .next => [.next]
  | .move k => [.move k]
  | .cut n k => [.cut n k]
def unrollList : List Cmd → List Cmd
  | [] => []
  | c :: cs => unroll c ++ unrollList cs
end

/-- Moving the cursor to a line start does not leave Normal mode. -/
def GotoKeepsNormal (E : Ed σ) : Prop :=
  ∀ ln s e, E.gotoLine ln s = some e → E.setNormal s = s → E.setNormal e = e

theorem norm_goto (hG : GotoKeepsNormal E) (ln : Nat) (s : σ × Ctx) (e : σ)
    (hg : E.gotoLine ln s.1 = some e) (h : Norm E keep s) : Norm E keep (e, s.2) := by
  unfold Norm afterCmd at *
  cases keep with
  | true => simp
  | false =>
    simp only [Bool.false_eq_true, ↓reduceIte] at *
    have : E.setNormal s.1 = s.1 := by
      have := congrArg Prod.fst h; simpa using this
    rw [hG ln s.1 e hg this]

theorem iter_congr (body body' : List Cmd) (hI : IdemNormal E)
    (hb : ∀ st, Norm E keep st → execSeq E keep body' st = execSeq E keep body st)
    (k : Nat) (st : σ × Ctx) (h : Norm E keep st) :
    iter (fun s => execSeq E keep body' s) k st = iter (fun s => execSeq E keep body s) k st := by
  induction k generalizing st with
  | zero => rfl
  | succ k ih =>
    simp only [iter]
    rw [hb st h]
    exact ih _ (norm_execSeq hI body st h)

theorem fold_congr (hI : IdemNormal E) (hG : GotoKeepsNormal E) (thn thn' : List Cmd)
    (hb : ∀ st, Norm E keep st → execSeq E keep thn' st = execSeq E keep thn st)
    (lines : List Nat) (st : σ × Ctx) (h : Norm E keep st) :
    (lines.foldl (fun s ln => match E.gotoLine ln s.1 with
        | none => s
        | some e => execSeq E keep thn' (e, s.2)) st
      = lines.foldl (fun s ln => match E.gotoLine ln s.1 with
        | none => s
        | some e => execSeq E keep thn (e, s.2)) st) ∧
    Norm E keep (lines.foldl (fun s ln => match E.gotoLine ln s.1 with
        | none => s
        | some e => execSeq E keep thn (e, s.2)) st) := by
  induction lines generalizing st with
  | nil => exact ⟨rfl, h⟩
  | cons ln lns ih =>
    simp only [List.foldl_cons]
    cases hg : E.gotoLine ln st.1 with
    | none => simpa using ih st h
    | some e =>
      simp only
      have hn := norm_goto hG ln st e hg h
      rw [hb _ hn]
      exact ih _ (norm_execSeq hI thn _ hn)

mutual
theorem unroll_ok (hI : IdemNormal E) (hG : GotoKeepsNormal E) :
    (c : Cmd) → (st : σ × Ctx) → Norm E keep st →
      execSeq E keep (unroll c) st = execSeq E keep [c] st
  | .next, st, _ => by simp [unroll]
  | .move k, st, _ => by simp [unroll]
  | .cut n k, st, _ => by simp [unroll]
  | .rep body k, st, h => by
    simp only [unroll]
    rw [repeat_single hI body k st h, execSeq_replicate, execSeq_replicate]
    exact iter_congr body (unrollList body) hI (fun s hs => unrollList_ok hI hG body s hs) k st h
  | .glob p pol thn he els, st, h => by
    simp only [unroll, execSeq, execCmd]
    congr 1
    split
    · cases he with
      | false => rfl
      | true => simp only [↓reduceIte]; exact unrollList_ok hI hG els st h
    · exact (fold_congr hI hG thn (unrollList thn) (fun s hs => unrollList_ok hI hG thn s hs) _ st h).1
theorem unrollList_ok (hI : IdemNormal E) (hG : GotoKeepsNormal E) :
    (cs : List Cmd) → (st : σ × Ctx) → Norm E keep st →
      execSeq E keep (unrollList cs) st = execSeq E keep cs st
  | [], st, _ => by simp [unrollList]
  | c :: cs, st, h => by
    simp only [unrollList, execSeq_append]
    rw [unroll_ok hI hG c st h]
    have hn : Norm E keep (execSeq E keep [c] st) := norm_execSeq hI [c] st h
    rw [unrollList_ok hI hG cs _ hn]
    simp [execSeq]
end

/-- **Full statement.** Replacing every `Repeat`, at any depth and inside any `-g`/`-v`/`--else`
scope, by its body written out `count` times does not change what the command list does —
for every editor whose `set_normal_mode` is idempotent and whose line jump keeps Normal mode. -/
theorem unrolled_everywhere (hI : IdemNormal E) (hG : GotoKeepsNormal E) (cs : List Cmd) (st : σ × Ctx)
    (h : Norm E keep st) : execSeq E keep (unrollList cs) st = execSeq E keep cs st :=
  unrollList_ok hI hG cs st h

/-! After unrolling no `Repeat` is left anywhere. -/
mutual
def noRep : Cmd → Bool
  | .rep _ _ => false
  | .glob _ _ thn _ els => noRepList thn && noRepList els
  | _ => true
def noRepList : List Cmd → Bool
  | [] => true
  | c :: cs => noRep c && noRepList cs
end

theorem noRepList_append (a b : List Cmd) : noRepList (a ++ b) = (noRepList a && noRepList b) := by
  induction a with
  | nil => simp [noRepList]
  | cons c cs ih => simp [noRepList, ih, Bool.and_assoc]

theorem noRepList_replicate (k : Nat) (l : List Cmd) (h : noRepList l = true) :
    noRepList (List.replicate k l).flatten = true := by
  induction k with
  | zero => simp [noRepList]
  | succ k ih => simp [List.replicate_succ, noRepList_append, h, ih]

mutual
theorem unroll_noRep : (c : Cmd) → noRepList (unroll c) = true
  | .next => by simp [unroll, noRepList, noRep]
  | .move _ => by simp [unroll, noRepList, noRep]
  | .cut _ _ => by simp [unroll, noRepList, noRep]
  | .rep body k => by
    simp only [unroll]
    exact noRepList_replicate k _ (unrollList_noRep body)
  | .glob p pol thn he els => by
    simp [unroll, noRepList, noRep, unrollList_noRep thn, unrollList_noRep els]
theorem unrollList_noRep : (cs : List Cmd) → noRepList (unrollList cs) = true
  | [] => by simp [unrollList, noRepList]
  | c :: cs => by simp [unrollList, noRepList_append, unroll_noRep c, unrollList_noRep cs]
end

/-! ### The tail of `execute()` does not see the difference either -/

/-! Every `Repeat` in the tree runs at least once (always true for flags: the count is `R+1`). -/
mutual
def posCounts : Cmd → Bool
  | .rep body k => decide (0 < k) && posCountsL body
  | .glob _ _ thn _ els => posCountsL thn && posCountsL els
  | _ => true
def posCountsL : List Cmd → Bool
  | [] => true
  | c :: cs => posCounts c && posCountsL cs
end

theorem extractsFieldL_append (a b : List Cmd) :
    extractsFieldL (a ++ b) = (extractsFieldL a || extractsFieldL b) := by
  induction a with
  | nil => simp [extractsFieldL]
  | cons c cs ih => simp [extractsFieldL, ih, Bool.or_assoc]

theorem hasPatternSearch_append (a b : List Cmd) :
    hasPatternSearch (a ++ b) = (hasPatternSearch a || hasPatternSearch b) := by
  induction a with
  | nil => simp [hasPatternSearch]
  | cons c cs ih => simp [hasPatternSearch, ih, Bool.or_assoc]

theorem extractsFieldL_replicate (k : Nat) (hk : 0 < k) (l : List Cmd) :
    extractsFieldL (List.replicate k l).flatten = extractsFieldL l := by
  induction k with
  | zero => omega
  | succ k ih =>
    cases k with
    | zero => simp
    | succ k =>
      have ih' := ih (by omega)
      rw [List.replicate_succ, List.flatten_cons, extractsFieldL_append, ih', Bool.or_self]

theorem hasPatternSearch_replicate (k : Nat) (hk : 0 < k) (l : List Cmd) :
    hasPatternSearch (List.replicate k l).flatten = hasPatternSearch l := by
  induction k with
  | zero => omega
  | succ k ih =>
    cases k with
    | zero => simp
    | succ k =>
      have ih' := ih (by omega)
      rw [List.replicate_succ, List.flatten_cons, hasPatternSearch_append, ih', Bool.or_self]

mutual
theorem extractsField_unroll : (c : Cmd) → posCounts c = true → extractsFieldL (unroll c) = extractsField c
  | .next, _ => by simp [unroll, extractsFieldL, extractsField]
  | .move _, _ => by simp [unroll, extractsFieldL, extractsField]
  | .cut _ _, _ => by simp [unroll, extractsFieldL, extractsField]
  | .glob _ _ _ _ _, _ => by simp [unroll, extractsFieldL, extractsField]
  | .rep body k, h => by
    simp only [posCounts, Bool.and_eq_true, decide_eq_true_eq] at h
    simp only [unroll, extractsField]
    rw [extractsFieldL_replicate k h.1, extractsFieldL_unroll body h.2]
theorem extractsFieldL_unroll : (cs : List Cmd) → posCountsL cs = true →
    extractsFieldL (unrollList cs) = extractsFieldL cs
  | [], _ => by simp [unrollList]
  | c :: cs, h => by
    simp only [posCountsL, Bool.and_eq_true] at h
    simp [unrollList, extractsFieldL_append, extractsFieldL, extractsField_unroll c h.1,
      extractsFieldL_unroll cs h.2]
end

mutual
theorem hasPatternSearch1_unroll : (c : Cmd) → posCounts c = true →
    hasPatternSearch (unroll c) = hasPatternSearch1 c
  | .next, _ => by simp [unroll, hasPatternSearch, hasPatternSearch1]
  | .move _, _ => by simp [unroll, hasPatternSearch, hasPatternSearch1]
  | .cut _ _, _ => by simp [unroll, hasPatternSearch, hasPatternSearch1]
  | .glob _ _ thn _ _, h => by
    simp only [posCounts, Bool.and_eq_true] at h
    simp [unroll, hasPatternSearch, hasPatternSearch1, extractsFieldL_unroll thn h.1]
  | .rep body k, h => by
    simp only [posCounts, Bool.and_eq_true, decide_eq_true_eq] at h
    simp only [unroll, hasPatternSearch1]
    rw [hasPatternSearch_replicate k h.1, hasPatternSearch_unroll body h.2]
theorem hasPatternSearch_unroll : (cs : List Cmd) → posCountsL cs = true →
    hasPatternSearch (unrollList cs) = hasPatternSearch cs
  | [], _ => by simp [unrollList]
  | c :: cs, h => by
    simp only [posCountsL, Bool.and_eq_true] at h
    simp [unrollList, hasPatternSearch_append, hasPatternSearch, hasPatternSearch1_unroll c h.1,
      hasPatternSearch_unroll cs h.2]
end

/-- **End to end.** `execute()` — commands, the whole-buffer fallback, trimming — returns the same
records for a command list and for the same list with every `-r` written out. -/
theorem execute_unrolled (hI : IdemNormal E) (hG : GotoKeepsNormal E) (buf : σ → Str) (fl : Flags)
    (cs : List Cmd) (hp : posCountsL cs = true) (s0 : σ)
    (h : Norm E fl.keepMode (s0, ({} : Ctx))) :
    execute E buf fl (unrollList cs) s0 = execute E buf fl cs s0 := by
  unfold execute shouldPrintEntireBuffer
  rw [unrolled_everywhere hI hG cs _ h, hasPatternSearch_unroll cs hp]

/-! ## Non-vacuity -/

example : parseUsize (lit "2") = some 2 ∧ parseUsize (lit "+7") = some 7 ∧ parseUsize (lit "x") = none := by decide
example : applyRepeat [.cut none ['e'], .move ['w']] 2 1 = [.rep [.cut none ['e'], .move ['w']] 2] := by
  simp [applyRepeat]
example : unrollList [.cut none ['e'], .rep [.move ['w'], .rep [.next] 2] 2]
    = [.cut none ['e'], .move ['w'], .next, .next, .move ['w'], .next, .next] := by
  simp [unrollList, unroll, List.replicate]

end Vicut.C12
