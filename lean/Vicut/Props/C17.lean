/-
C17 — vic programs compute what their source says.
The reference interpreter (Model/Vic.lean) *is* the specification of the core; the run compares the
real `vicut '<script>'` with it on generated programs. The theorems below are about the interpreter:
operators are applied left to right, and block scoping — whatever a block body does (declarations,
assignments, loops, calls, returns), after the block the visible variables are exactly those from
before it.
-/
import Vicut.Model.Vic

namespace Vicut.C17
open Vicut.Vic

/-! ## Left-to-right arithmetic and boolean chains -/

/-- The tree the parser builds for `a op₁ b op₂ c …`: a left fold (`Expr::from_rule`, bin_expr arm). -/
def mkChain (a : AExpr) (rest : List (BinOp × AExpr)) : AExpr :=
  rest.foldl (fun acc p => .bin p.1 acc p.2) a

/-- Applying the operators strictly left to right to already evaluated operands. -/
def applyChain (a : Int) : List (BinOp × Int) → Except String Int
  | [] => .ok a
  | (op, b) :: rest =>
    match binOp op a b with
    | .error e => .error e
    | .ok r => applyChain r rest

/-- **Integer arithmetic is evaluated left to right, without precedence**: for operands that evaluate
(each `(op, e, v)` with `e` evaluating to `v`), the value of the parsed chain is the left-to-right
application of the operators. -/
theorem arith_left_to_right (env : Env) (a : AExpr) (va : Int) (rest : List (BinOp × AExpr × Int))
    (ha : evalA env a = .ok va) (hv : ∀ t ∈ rest, evalA env t.2.1 = .ok t.2.2) :
    evalA env (mkChain a (rest.map (fun t => (t.1, t.2.1)))) = applyChain va (rest.map (fun t => (t.1, t.2.2))) := by
  induction rest generalizing a va with
  | nil => simpa [mkChain, applyChain] using ha
  | cons p rest ih =>
    have h0 : evalA env p.2.1 = .ok p.2.2 := hv p (by simp)
    simp only [mkChain, List.map_cons, List.foldl_cons, applyChain]
    cases hb : binOp p.1 va p.2.2 with
    | error e =>
      have : ∀ (rest : List (BinOp × AExpr)) (x : AExpr), evalA env x = .error e →
          evalA env (rest.foldl (fun acc p => AExpr.bin p.1 acc p.2) x) = .error e := by
        intro rest
        induction rest with
        | nil => intro x hx; simpa using hx
        | cons q rest ih2 =>
          intro x hx
          simp only [List.foldl_cons]
          apply ih2
          simp [evalA, hx]
      apply this
      simp [evalA, ha, h0, hb]
    | ok r =>
      have hr : evalA env (.bin p.1 a p.2.1) = .ok r := by simp [evalA, ha, h0, hb]
      have := ih (.bin p.1 a p.2.1) r hr (fun t ht => hv t (by simp [ht]))
      simpa [mkChain] using this

/-- `1 + 2 * 3` is 9, not 7. -/
example : evalA {} (mkChain (.int 1) [(.add, .int 2), (.mul, .int 3)]) = .ok 9 := by rfl

/-! ## Block scoping -/

def keys (f : Frame) : List String := f.map Prod.fst

/-- Same visible variable names, frame by frame. -/
def Same (a b : Env) : Prop := a.frames.map keys = b.frames.map keys

/-- Only the innermost frame may have gained names. -/
def Tail (a b : Env) : Prop := a.frames.length = b.frames.length ∧ a.frames.tail.map keys = b.frames.tail.map keys

theorem Same.refl (a : Env) : Same a a := rfl
theorem Same.trans {a b c : Env} (h1 : Same a b) (h2 : Same b c) : Same a c := Eq.trans h1 h2
theorem Same.tail {a b : Env} (h : Same a b) : Tail a b := by
  unfold Same at h
  refine ⟨?_, ?_⟩
  · have := congrArg List.length h; simpa using this
  · have := congrArg List.tail h; simpa [List.map_tail] using this
theorem Tail.refl (a : Env) : Tail a a := ⟨rfl, rfl⟩
theorem Tail.trans {a b c : Env} (h1 : Tail a b) (h2 : Tail b c) : Tail a c :=
  ⟨h1.1.trans h2.1, h1.2.trans h2.2⟩

theorem frameSet_keys (f : Frame) (x : String) (v : Val) : keys (frameSet f x v) = keys f := by
  simp only [keys, frameSet, List.map_map]
  congr 1; funext p; simp only [Function.comp]; split <;> rfl

theorem assignFrames_keys (fr : List Frame) (x : String) (v : Val) (fr' : List Frame)
    (h : assignFrames fr x v = some fr') : fr'.map keys = fr.map keys := by
  induction fr generalizing fr' with
  | nil => simp [assignFrames] at h
  | cons f rest ih =>
    unfold assignFrames at h
    split at h
    · cases h; simp [frameSet_keys]
    · cases hr : assignFrames rest x v with
      | none => simp [hr] at h
      | some r => simp [hr] at h; cases h; simp [ih r hr]

theorem declare_tail (fr : List Frame) (x : String) (v : Val) (hne : fr ≠ []) :
    (declare fr x v).length = fr.length ∧ (declare fr x v).tail = fr.tail := by
  cases fr with
  | nil => exact absurd rfl hne
  | cons f rest => simp [declare]

/-- Popping the frame a block pushed, when the body only touched names of that frame, restores the
visible names of before. -/
theorem pop_of_tail (env env1 : Env) (extra : Frame) (h : Tail { env with frames := extra :: env.frames } env1) :
    Same env env1.pop := by
  unfold Same Env.pop
  have := h.2
  simp only [List.tail_cons] at this
  simpa [List.map_tail] using this

/-- The combined invariant, one clause per function of the interpreter. -/
def Inv (fuel : Nat) : Prop :=
  (∀ env e v env', evalExpr fuel env e = .ok (v, env') → Same env env') ∧
  (∀ env args vs env', evalArgs fuel env args = .ok (vs, env') → Same env env') ∧
  (∀ env f vs v env', callFn fuel env f vs = .ok (v, env') → Same env env') ∧
  (∀ env s env' r, execStmt fuel env s = .ok (env', r) → env.frames ≠ [] → Tail env env') ∧
  (∀ env ss env' r, execBlock fuel env ss = .ok (env', r) → env.frames ≠ [] → Tail env env') ∧
  (∀ env ss env' r, execScoped fuel env ss = .ok (env', r) → Same env env') ∧
  (∀ env cs els env' r, execIf fuel env cs els = .ok (env', r) → Same env env') ∧
  (∀ env neg c b env' r, execWhile fuel env neg c b = .ok (env', r) → Same env env') ∧
  (∀ env x items b env' r, execFor fuel env x items b = .ok (env', r) → Same env env')

theorem same_of_frames_eq {a b : Env} (h : b.frames = a.frames) : Same a b := by unfold Same; rw [h]

theorem same_assign {env : Env} {x : String} {v : Val} {fr : List Frame} (h : assignFrames env.frames x v = some fr)
    (env' : Env) (he : env'.frames = fr) : Same env env' := by
  unfold Same; rw [he, assignFrames_keys _ _ _ _ h]

theorem tail_ne {a b : Env} (h : Tail a b) (hne : a.frames ≠ []) : b.frames ≠ [] := by
  intro hb; have := h.1; rw [hb] at this; simp at this; exact hne this

theorem inv_zero : Inv 0 := by
  refine ⟨?_, ?_, ?_, ?_, ?_, ?_, ?_, ?_, ?_⟩ <;> intros <;> simp_all [evalExpr, evalArgs, callFn, execStmt, execBlock, execScoped, execIf, execWhile, execFor]

section step
variable {n : Nat} (ih : Inv n)
include ih

theorem step_scoped (env : Env) (ss : List Stmt) (env' : Env) (r : Option Val)
    (h : execScoped (n + 1) env ss = .ok (env', r)) : Same env env' := by
  simp only [execScoped] at h
  split at h
  · exact absurd h (by simp)
  · rename_i env1 r1 hb
    cases h
    have := ih.2.2.2.2.1 env.push ss env1 _ hb (by simp [Env.push])
    exact pop_of_tail env env1 [] this

theorem step_if (env : Env) (cs : List (BExpr × List Stmt)) (els : Option (List Stmt)) (env' : Env) (r : Option Val)
    (h : execIf (n + 1) env cs els = .ok (env', r)) : Same env env' := by
  simp only [execIf] at h
  split at h
  · split at h
    · cases h; exact Same.refl _
    · exact ih.2.2.2.2.2.1 _ _ _ _ h
  · split at h
    · exact absurd h (by simp)
    · exact ih.2.2.2.2.2.1 _ _ _ _ h
    · exact ih.2.2.2.2.2.2.1 _ _ _ _ _ h

theorem step_while (env : Env) (neg : Bool) (c : BExpr) (b : List Stmt) (env' : Env) (r : Option Val)
    (h : execWhile (n + 1) env neg c b = .ok (env', r)) : Same env env' := by
  simp only [execWhile] at h
  split at h
  · exact absurd h (by simp)
  · split at h
    · split at h
      · exact absurd h (by simp)
      · rename_i env1 r1 hs
        cases h
        exact ih.2.2.2.2.2.1 _ _ _ _ hs
      · rename_i env1 hs
        exact (ih.2.2.2.2.2.1 _ _ _ _ hs).trans (ih.2.2.2.2.2.2.2.1 _ _ _ _ _ _ h)
    · cases h; exact Same.refl _

theorem step_for (env : Env) (x : String) (items : List Val) (b : List Stmt) (env' : Env) (r : Option Val)
    (h : execFor (n + 1) env x items b = .ok (env', r)) : Same env env' := by
  simp only [execFor] at h
  split at h
  · cases h; exact Same.refl _
  · rename_i it rest
    split at h
    · exact absurd h (by simp)
    · rename_i env1 r1 hb
      cases h
      exact pop_of_tail env env1 _ (ih.2.2.2.2.1 _ _ _ _ hb (by simp))
    · rename_i env1 hb
      have h1 := pop_of_tail env env1 _ (ih.2.2.2.2.1 _ _ _ _ hb (by simp))
      exact h1.trans (ih.2.2.2.2.2.2.2.2 _ _ _ _ _ _ h)

theorem step_block (env : Env) (ss : List Stmt) (env' : Env) (r : Option Val)
    (h : execBlock (n + 1) env ss = .ok (env', r)) (hne : env.frames ≠ []) : Tail env env' := by
  simp only [execBlock] at h
  split at h
  · cases h; exact Tail.refl _
  · split at h
    · exact absurd h (by simp)
    · rename_i env1 v hs
      cases h
      exact ih.2.2.2.1 _ _ _ _ hs hne
    · rename_i env1 hs
      have t1 := ih.2.2.2.1 _ _ _ _ hs hne
      exact t1.trans (ih.2.2.2.2.1 _ _ _ _ h (tail_ne t1 hne))

theorem step_args (env : Env) (args : List Expr) (vs : List Val) (env' : Env)
    (h : evalArgs (n + 1) env args = .ok (vs, env')) : Same env env' := by
  simp only [evalArgs] at h
  split at h
  · cases h; exact Same.refl _
  · split at h
    · exact absurd h (by simp)
    · rename_i v env1 he
      split at h
      · exact absurd h (by simp)
      · rename_i vs2 env2 ha
        cases h
        exact (ih.1 _ _ _ _ he).trans (ih.2.1 _ _ _ _ ha)

theorem step_call (env : Env) (f : String) (vs : List Val) (v : Val) (env' : Env)
    (h : callFn (n + 1) env f vs = .ok (v, env')) : Same env env' := by
  simp only [callFn] at h
  split at h
  · exact absurd h (by simp)
  · split at h
    · exact absurd h (by simp)
    · split at h
      · exact absurd h (by simp)
      · rename_i env1 r hb
        cases h
        exact pop_of_tail env env1 _ (ih.2.2.2.2.1 _ _ _ _ hb (by simp))

theorem step_expr (env : Env) (e : Expr) (v : Val) (env' : Env)
    (h : evalExpr (n + 1) env e = .ok (v, env')) : Same env env' := by
  cases e with
  | arith a =>
    simp only [evalExpr] at h
    cases ha : evalA env a <;> simp [ha, Except.map] at h
    exact same_of_frames_eq (by rw [← h.2])
  | lit parts => simp only [evalExpr] at h; cases h; exact Same.refl _
  | arr es =>
    simp only [evalExpr] at h
    cases ha : evalAs env es <;> simp [ha, Except.map] at h
    exact same_of_frames_eq (by rw [← h.2])
  | var x =>
    simp only [evalExpr] at h
    split at h
    · cases h; exact Same.refl _
    · exact absurd h (by simp)
  | index x i =>
    simp only [evalExpr] at h
    split at h
    · exact absurd h (by simp)
    · split at h
      · exact absurd h (by simp)
      · split at h
        · cases h; exact Same.refl _
        · exact absurd h (by simp)
    · exact absurd h (by simp)
  | pop x =>
    simp only [evalExpr] at h
    split at h
    · split at h
      · cases h; exact Same.refl _
      · split at h
        · rename_i fr hf
          cases h
          exact same_assign hf _ rfl
        · exact absurd h (by simp)
    · exact absurd h (by simp)
  | boolE b =>
    simp only [evalExpr] at h
    cases hb : evalB env b <;> simp [hb, Except.map] at h
    exact same_of_frames_eq (by rw [← h.2])
  | range a b incl =>
    simp only [evalExpr] at h
    split at h
    · cases h; exact Same.refl _
    · exact absurd h (by simp)
    · exact absurd h (by simp)
  | call f args =>
    simp only [evalExpr] at h
    split at h
    · exact absurd h (by simp)
    · rename_i vs env1 ha
      exact (ih.2.1 _ _ _ _ ha).trans (ih.2.2.1 _ _ _ _ _ h)

theorem step_stmt (env : Env) (s : Stmt) (env' : Env) (r : Option Val)
    (h : execStmt (n + 1) env s = .ok (env', r)) (hne : env.frames ≠ []) : Tail env env' := by
  cases s with
  | let_ x e =>
    simp only [execStmt] at h
    split at h
    · exact absurd h (by simp)
    · rename_i v env1 he
      cases h
      have s1 := ih.1 _ _ _ _ he
      have hd := declare_tail env1.frames x v (tail_ne s1.tail hne)
      exact s1.tail.trans ⟨hd.1.symm, by simp [hd.2]⟩
  | assign x e =>
    simp only [execStmt] at h
    split at h
    · exact absurd h (by simp)
    · rename_i v env1 he
      split at h
      · rename_i fr hf
        cases h
        exact ((ih.1 _ _ _ _ he).trans (same_assign hf _ rfl)).tail
      · exact absurd h (by simp)
  | opAssign x op a =>
    simp only [execStmt] at h
    split at h
    · split at h
      · exact absurd h (by simp)
      · split at h
        · rename_i fr hf
          cases h
          exact (same_assign hf _ rfl).tail
        · exact absurd h (by simp)
    · exact absurd h (by simp)
    · exact absurd h (by simp)
  | setIndex x i e =>
    simp only [execStmt] at h
    split at h
    · exact absurd h (by simp)
    · rename_i v env1 he
      split at h
      · split at h
        · exact absurd h (by simp)
        · split at h
          · rename_i fr hf
            cases h
            exact ((ih.1 _ _ _ _ he).trans (same_assign hf _ rfl)).tail
          · exact absurd h (by simp)
      · exact absurd h (by simp)
      · exact absurd h (by simp)
  | echo es =>
    simp only [execStmt] at h
    split at h
    · exact absurd h (by simp)
    · rename_i vs env1 ha
      cases h
      exact ((ih.2.1 _ _ _ _ ha).trans (same_of_frames_eq rfl)).tail
  | ifs conds els =>
    simp only [execStmt] at h
    exact (ih.2.2.2.2.2.2.1 _ _ _ _ _ h).tail
  | while_ neg c body =>
    simp only [execStmt] at h
    exact (ih.2.2.2.2.2.2.2.1 _ _ _ _ _ _ h).tail
  | for_ x e body =>
    simp only [execStmt] at h
    split at h
    · exact absurd h (by simp)
    · rename_i v env1 he
      split at h
      · exact absurd h (by simp)
      · exact ((ih.1 _ _ _ _ he).trans (ih.2.2.2.2.2.2.2.2 _ _ _ _ _ _ h)).tail
  | push x e =>
    simp only [execStmt] at h
    split at h
    · exact absurd h (by simp)
    · rename_i v env1 he
      split at h
      · split at h
        · rename_i fr hf
          cases h
          exact ((ih.1 _ _ _ _ he).trans (same_assign hf _ rfl)).tail
        · exact absurd h (by simp)
      · split at h
        · rename_i fr hf
          cases h
          exact ((ih.1 _ _ _ _ he).trans (same_assign hf _ rfl)).tail
        · exact absurd h (by simp)
      · exact absurd h (by simp)
  | popS x =>
    simp only [execStmt] at h
    split at h
    · exact absurd h (by simp)
    · rename_i v env1 he
      cases h
      exact (ih.1 _ _ _ _ he).tail
  | def_ f params body =>
    simp only [execStmt] at h
    cases h
    exact (same_of_frames_eq rfl).tail
  | callS f args =>
    simp only [execStmt] at h
    split at h
    · exact absurd h (by simp)
    · rename_i v env1 he
      cases h
      exact (ih.1 _ _ _ _ he).tail
  | ret e =>
    simp only [execStmt] at h
    split at h
    · exact absurd h (by simp)
    · rename_i v env1 he
      cases h
      exact (ih.1 _ _ _ _ he).tail

end step

theorem inv_all (fuel : Nat) : Inv fuel := by
  induction fuel with
  | zero => exact inv_zero
  | succ n ih =>
    exact ⟨step_expr ih, step_args ih, step_call ih, step_stmt ih, step_block ih, step_scoped ih, step_if ih, step_while ih, step_for ih⟩

/-- **Block scoping**: after an `if` / `elif` / `else`, `while`, `until` or `for` statement — whatever
its bodies declare, assign, loop over, call or return — the visible variable names are, frame by frame,
exactly those from before it: a variable declared inside a block is not visible after it, and an outer
variable shadowed inside is the outer one again. -/
theorem block_scoping (fuel : Nat) (env env' : Env) (r : Option Val) :
    (∀ cs els, execIf fuel env cs els = .ok (env', r) → Same env env') ∧
    (∀ neg c b, execWhile fuel env neg c b = .ok (env', r) → Same env env') ∧
    (∀ x items b, execFor fuel env x items b = .ok (env', r) → Same env env') :=
  ⟨fun cs els h => (inv_all fuel).2.2.2.2.2.2.1 _ _ _ _ _ h,
   fun neg c b h => (inv_all fuel).2.2.2.2.2.2.2.1 _ _ _ _ _ _ h,
   fun x items b h => (inv_all fuel).2.2.2.2.2.2.2.2 _ _ _ _ _ _ h⟩

/-- A function call leaves the caller's variables in place (parameters and locals of the callee are gone). -/
theorem call_scoping (fuel : Nat) (env : Env) (f : String) (vs : List Val) (v : Val) (env' : Env)
    (h : callFn fuel env f vs = .ok (v, env')) : Same env env' := (inv_all fuel).2.2.1 _ _ _ _ _ h

/-- A name that is not visible before a block statement is not visible after it. -/
theorem not_visible_after (env env' : Env) (h : Same env env') (x : String)
    (hx : ∀ f ∈ env.frames, x ∉ keys f) : ∀ f ∈ env'.frames, x ∉ keys f := by
  intro f hf
  unfold Same at h
  have : keys f ∈ env'.frames.map keys := List.mem_map.mpr ⟨f, hf, rfl⟩
  rw [← h] at this
  obtain ⟨g, hg, hk⟩ := List.mem_map.mp this
  rw [← hk]; exact hx g hg

/-! ## Non-vacuity -/
example : runProgram 100 [.let_ "x" (.arith (.int 1)),
    .ifs [(.cmp .lt (.var "x") (.int 2), [.let_ "y" (.arith (.int 5)), .assign "x" (.arith (.var "y"))])] none,
    .echo [.var "x"]] = .ok ["5"] := by rfl
example : (runProgram 100 [.ifs [(.lit true, [.let_ "y" (.arith (.int 5))])] none, .echo [.var "y"]]) = .error "Variable y not found" := by rfl

end Vicut.C17
