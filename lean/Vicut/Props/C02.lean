/-
C02 — supported Vim commands do what Vim does.
The oracle for this property is real Vim: a recorded corpus (corpus/vim_corpus.json.gz, 212 078 cases)
that every run replays on vicut. What is *proved* here concerns VimSpec, the documented behaviour of the
single-line fragment {h l 0 $ x X} with counts, which the run validates against the same corpus: the
normal-mode cursor invariant, that motions never touch the text, what `x`/`X` remove, and when a count
equals repetition.
-/
import Vicut.Model.VimSpec

namespace Vicut.C02
open Vicut.VimSpec

/-- Every command keeps the cursor on a character. -/
theorem step_wf (s : VS) (c : VCmd) (s' : VS) (hs : s.WF) (h : step s c = some s') : s'.WF := by
  unfold VS.WF at *
  cases c <;> simp only [step] at h
  · split at h <;> simp at h; subst h; simp only; omega
  · split at h <;> simp at h; subst h; simp only; omega
  · simp at h; subst h; simp
  · simp at h; subst h; simp
  · split at h <;> simp at h; subst h; simp only [clamp]; exact Nat.min_le_right _ _
  · split at h <;> simp at h; subst h; simp; omega

theorem run_wf (s : VS) (cs : List VCmd) (hs : s.WF) : (run s cs).WF := by
  induction cs generalizing s with
  | nil => exact hs
  | cons c rest ih =>
    simp only [run]
    split
    · rename_i s' h; exact ih s' (step_wf s c s' hs h)
    · exact hs

/-- Motions never change the text. -/
theorem motions_keep_text (s : VS) (c : VCmd) (s' : VS) (hm : c = .zero ∨ c = .dollar ∨ (∃ n, c = .h n) ∨ (∃ n, c = .l n))
    (h : step s c = some s') : s'.line = s.line := by
  rcases hm with rfl | rfl | ⟨n, rfl⟩ | ⟨n, rfl⟩ <;> simp only [step] at h
  · simp at h; subst h; rfl
  · simp at h; subst h; rfl
  · split at h <;> simp at h; subst h; rfl
  · split at h <;> simp at h; subst h; rfl

/-- `[n]x` removes exactly the `n` characters from the cursor on (fewer at the end of the line), nothing
else, and the text before the cursor is untouched. -/
theorem x_removes (s : VS) (n : Nat) (s' : VS) (h : step s (.x n) = some s') :
    s'.line = s.line.take s.cur ++ s.line.drop (s.cur + n) ∧
    s'.line.length = s.line.length - min n (s.line.length - s.cur) := by
  simp only [step] at h
  split at h <;> simp at h
  subst h
  refine ⟨rfl, ?_⟩
  simp only [clamp, List.length_append, List.length_take, List.length_drop]
  omega

/-- `[n]X` removes exactly the `n` characters before the cursor (fewer at the start of the line) and
moves the cursor onto the character it was on. -/
theorem X_removes (s : VS) (n : Nat) (s' : VS) (h : step s (.X n) = some s') :
    s'.line = s.line.take (s.cur - n) ++ s.line.drop s.cur ∧ s'.cur = s.cur - n := by
  simp only [step] at h
  split at h <;> simp at h
  subst h
  exact ⟨rfl, rfl⟩

/-- **A count on `x` equals repetition** as long as enough characters remain to the right:
`(n+1)x = x` followed by `nx`. (At the end of the line it does not: after the last character is gone
the cursor steps left and a further `x` eats a character that `2x` leaves alone.) -/
theorem x_count_is_repetition (s : VS) (n : Nat) (hs : s.cur + n + 1 < s.line.length) :
    (step s (.x 1)).bind (fun s1 => step s1 (.x n)) = step s (.x (n + 1)) := by
  have hne : s.line ≠ [] := by intro h; simp [h] at hs
  have hlen : (s.line.take s.cur ++ s.line.drop (s.cur + 1)).length = s.line.length - 1 := by
    simp only [List.length_append, List.length_take, List.length_drop]; omega
  have hne1 : s.line.take s.cur ++ s.line.drop (s.cur + 1) ≠ [] := by
    intro h; rw [h] at hlen; simp at hlen; omega
  have hc1 : min s.cur ((s.line.take s.cur ++ s.line.drop (s.cur + 1)).length - 1) = s.cur := by
    rw [hlen]; omega
  have hl : (s.line.take s.cur).length = s.cur := by simp; omega
  have ht : (s.line.take s.cur ++ s.line.drop (s.cur + 1)).take s.cur = s.line.take s.cur := by
    rw [List.take_append_of_le_length (by omega), List.take_take]; simp
  have hd : (s.line.take s.cur ++ s.line.drop (s.cur + 1)).drop (s.cur + n) = s.line.drop (s.cur + (n + 1)) := by
    rw [List.drop_append, hl]
    have : (s.line.take s.cur).drop (s.cur + n) = [] := by apply List.drop_of_length_le; omega
    rw [this, List.nil_append, List.drop_drop]
    congr 1; omega
  simp only [step, hne, ↓reduceIte, Option.bind_some, clamp, hc1, hne1, ht, hd]

/-- The counter-example at the end of the line (what Vim does: `x` twice on "abc" at `c` gives "a",
`2x` gives "ab"). -/
example : run ⟨['a', 'b', 'c'], 2⟩ [.x 1, .x 1] = ⟨['a'], 0⟩ ∧ run ⟨['a', 'b', 'c'], 2⟩ [.x 2] = ⟨['a', 'b'], 1⟩ := by decide

/-- `0` and `$` are idempotent; `$` then `l` fails (and abandons the rest of the keys). -/
theorem zero_idem (s : VS) : run s [.zero, .zero] = run s [.zero] := rfl
theorem dollar_idem (s : VS) : run s [.dollar, .dollar] = run s [.dollar] := by simp [run, step]
theorem l_at_end_fails (s : VS) (n : Nat) (rest : List VCmd) : run s (.dollar :: .l n :: rest) = run s [.dollar] := by
  simp only [run, step]
  have : ¬ (s.line.length - 1 + 1 < s.line.length) := by omega
  simp [Nat.not_lt.mp this]

end Vicut.C02
