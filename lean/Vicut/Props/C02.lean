/-
C02 — supported Vim commands do what Vim does.
The oracle for this property is real Vim: a recorded corpus (corpus/vim_corpus.json.gz) that every run replays on
vicut. What is *proved* here: (1) about VimSpec, the documented behaviour of the single-line fragment
{h l 0 $ x X} with counts, which the run validates against the same corpus: the normal-mode cursor invariant,
that motions never touch the text, what `x`/`X` remove, and when a count equals repetition; (2) conformance
of the vicut model with VimSpec (namespace Conform at the end): on every one-line buffer, cursor and count the
C08 motion/operator model — the one the correspondence check ties to the real `eval_motion`/`exec_verb` —
computes exactly VimSpec's result for `[n]h`, `[n]l` (same failure, same column), `0` and `$`, and leaves exactly
VimSpec's text for `[n]x` and `[n]X`: the whole fragment.
-/
import Vicut.Model.VimSpec
import Vicut.Model.Motions
import Vicut.Props.C08

namespace Vicut.C02
open Vicut.VimSpec

/-- Every command keeps the cursor on a character. -/
theorem step_wf (s : VS) (c : VCmd) (s' : VS) (hs : s.WF) (h : step s c = some s') : s'.WF := by
  unfold VS.WF at *
  cases c <;> simp only [step] at h
  · split at h <;> simp at h; subst h; simp only; omega
  · split at h <;> simp at h; subst h; simp only; omega
  · simp at h; subst h; simp
  · simp at h; subst h; simp
  · split at h <;> simp at h; subst h; simp only [clamp]; exact Nat.min_le_right _ _
  · split at h <;> simp at h; subst h; simp; omega

theorem run_wf (s : VS) (cs : List VCmd) (hs : s.WF) : (run s cs).WF := by
  induction cs generalizing s with
  | nil => exact hs
  | cons c rest ih =>
    simp only [run]
    split
    · rename_i s' h; exact ih s' (step_wf s c s' hs h)
    · exact hs

/-- Motions never change the text. -/
theorem motions_keep_text (s : VS) (c : VCmd) (s' : VS) (hm : c = .zero ∨ c = .dollar ∨ (∃ n, c = .h n) ∨ (∃ n, c = .l n))
    (h : step s c = some s') : s'.line = s.line := by
  rcases hm with rfl | rfl | ⟨n, rfl⟩ | ⟨n, rfl⟩ <;> simp only [step] at h
  · simp at h; subst h; rfl
  · simp at h; subst h; rfl
  · split at h <;> simp at h; subst h; rfl
  · split at h <;> simp at h; subst h; rfl

/-- `[n]x` removes exactly the `n` characters from the cursor on (fewer at the end of the line), nothing
else, and the text before the cursor is untouched. -/
theorem x_removes (s : VS) (n : Nat) (s' : VS) (h : step s (.x n) = some s') :
    s'.line = s.line.take s.cur ++ s.line.drop (s.cur + n) ∧
    s'.line.length = s.line.length - min n (s.line.length - s.cur) := by
  simp only [step] at h
  split at h <;> simp at h
  subst h
  refine ⟨rfl, ?_⟩
  simp only [clamp, List.length_append, List.length_take, List.length_drop]
  omega

/-- `[n]X` removes exactly the `n` characters before the cursor (fewer at the start of the line) and
moves the cursor onto the character it was on. -/
theorem X_removes (s : VS) (n : Nat) (s' : VS) (h : step s (.X n) = some s') :
    s'.line = s.line.take (s.cur - n) ++ s.line.drop s.cur ∧ s'.cur = s.cur - n := by
  simp only [step] at h
  split at h <;> simp at h
  subst h
  exact ⟨rfl, rfl⟩

/-- **A count on `x` equals repetition** as long as enough characters remain to the right:
`(n+1)x = x` followed by `nx`. (At the end of the line it does not: after the last character is gone
the cursor steps left and a further `x` eats a character that `2x` leaves alone.) -/
theorem x_count_is_repetition (s : VS) (n : Nat) (hs : s.cur + n + 1 < s.line.length) :
    (step s (.x 1)).bind (fun s1 => step s1 (.x n)) = step s (.x (n + 1)) := by
  have hne : s.line ≠ [] := by intro h; simp [h] at hs
  have hlen : (s.line.take s.cur ++ s.line.drop (s.cur + 1)).length = s.line.length - 1 := by
    simp only [List.length_append, List.length_take, List.length_drop]; omega
  have hne1 : s.line.take s.cur ++ s.line.drop (s.cur + 1) ≠ [] := by
    intro h; rw [h] at hlen; simp at hlen; omega
  have hc1 : min s.cur ((s.line.take s.cur ++ s.line.drop (s.cur + 1)).length - 1) = s.cur := by
    rw [hlen]; omega
  have hl : (s.line.take s.cur).length = s.cur := by simp; omega
  have ht : (s.line.take s.cur ++ s.line.drop (s.cur + 1)).take s.cur = s.line.take s.cur := by
    rw [List.take_append_of_le_length (by omega), List.take_take]; simp
  have hd : (s.line.take s.cur ++ s.line.drop (s.cur + 1)).drop (s.cur + n) = s.line.drop (s.cur + (n + 1)) := by
    rw [List.drop_append, hl]
    have : (s.line.take s.cur).drop (s.cur + n) = [] := by apply List.drop_of_length_le; omega
    rw [this, List.nil_append, List.drop_drop]
    congr 1; omega
  simp only [step, hne, ↓reduceIte, Option.bind_some, clamp, hc1, hne1, ht, hd]

/-- The counter-example at the end of the line (what Vim does: `x` twice on "abc" at `c` gives "a",
`2x` gives "ab"). -/
example : run ⟨['a', 'b', 'c'], 2⟩ [.x 1, .x 1] = ⟨['a'], 0⟩ ∧ run ⟨['a', 'b', 'c'], 2⟩ [.x 2] = ⟨['a', 'b'], 1⟩ := by decide

/-- `0` and `$` are idempotent; `$` then `l` fails (and abandons the rest of the keys). -/
theorem zero_idem (s : VS) : run s [.zero, .zero] = run s [.zero] := rfl
theorem dollar_idem (s : VS) : run s [.dollar, .dollar] = run s [.dollar] := by simp [run, step]
theorem l_at_end_fails (s : VS) (n : Nat) (rest : List VCmd) : run s (.dollar :: .l n :: rest) = run s [.dollar] := by
  simp only [run, step]
  have : ¬ (s.line.length - 1 + 1 < s.line.length) := by omega
  simp [Nat.not_lt.mp this]

end Vicut.C02

/-! # Conformance of the vicut model with VimSpec on `h` and `l`
The C08 motion model (`Motions.evalSimple`, tied to the real `eval_motion` by the correspondence check) computes,
on every one-line buffer, at every normal-mode cursor and for every count, exactly what VimSpec (tied to the
recorded Vim by the corpus) says `h` and `l` do: the same failure, the same column. -/
namespace Vicut.Conform
open Vicut Vicut.VimSpec

/-- the buffer vicut holds for the line: one grapheme per character and the terminator -/
def bufOf (line : List Char) : List Gr := line.map (fun c => [c]) ++ [['\n']]

def msOf (line : List Char) (cur : Nat) : MS := ⟨bufOf line, cur, true, false, []⟩

theorem bufOf_length (line : List Char) : (bufOf line).length = line.length + 1 := by simp [bufOf]

theorem isNlAt_bufOf (line : List Char) (cur : Nat) (hn : ∀ c ∈ line, c ≠ '\n') (i : Nat) :
    (msOf line cur).isNlAt i = decide (i = line.length) := by
  unfold MS.isNlAt msOf bufOf
  simp only
  by_cases hlt : i < line.length
  · have h1 : (line.map (fun c => [c]) ++ [['\n']])[i]? = some [line[i]] := by
      rw [List.getElem?_append_left (by simpa using hlt)]
      simp [hlt]
    have hne : line[i] ≠ '\n' := hn _ (List.getElem_mem hlt)
    have hd : ¬ i = line.length := by omega
    simp [h1, isNl, hne, hd]
  · by_cases heq : i = line.length
    · subst heq
      have h1 : (line.map (fun c => [c]) ++ [['\n']])[line.length]? = some ['\n'] := by
        rw [List.getElem?_append_right (by simp)]
        simp
      simp [h1, isNl]
    · have h1 : (line.map (fun c => [c]) ++ [['\n']])[i]? = none := by
        apply List.getElem?_eq_none
        simp; omega
      simp [h1, heq]

theorem isNlAtGs_bufOf (line : List Char) (hn : ∀ c ∈ line, c ≠ '\n') (i : Nat) :
    isNlAtGs (bufOf line) i = decide (i = line.length) := by
  unfold isNlAtGs bufOf
  by_cases hlt : i < line.length
  · have h1 : (line.map (fun c => [c]) ++ [['\n']])[i]? = some [line[i]] := by
      rw [List.getElem?_append_left (by simpa using hlt)]
      simp [hlt]
    have hne : line[i] ≠ '\n' := hn _ (List.getElem_mem hlt)
    have hd : ¬ i = line.length := by omega
    simp [h1, isNl, hne, hd]
  · by_cases heq : i = line.length
    · subst heq
      have h1 : (line.map (fun c => [c]) ++ [['\n']])[line.length]? = some ['\n'] := by
        rw [List.getElem?_append_right (by simp)]
        simp
      simp [h1, isNl]
    · have h1 : (line.map (fun c => [c]) ++ [['\n']])[i]? = none := by
        apply List.getElem?_eq_none
        simp; omega
      simp [h1, heq]

theorem max_bufOf (line : List Char) (cur : Nat) : (msOf line cur).max = line.length + 1 := by
  simp [MS.max, msOf, bufOf_length]

/-- `l` in the vicut model on a one-line buffer: `n` steps right, stopping on the last character. -/
theorem forwardGo_line (line : List Char) (cur : Nat) (hn : ∀ c ∈ line, c ≠ '\n') (n t : Nat) (ht : t + 1 ≤ line.length) :
    forwardGo (msOf line cur) false n t = min (t + n) (line.length - 1) := by
  induction n generalizing t with
  | zero => simp [forwardGo]; omega
  | succ n ih =>
    have hmax := max_bufOf line cur
    have e1 : (msOf line cur).selecting = false := rfl
    have e2 : (msOf line cur).excl = true := rfl
    simp only [forwardGo, e1, e2, Bool.not_false, Bool.true_and, ↓reduceIte, hmax]
    have hnl_t : (msOf line cur).isNlAt t = false := by rw [isNlAt_bufOf line cur hn]; simp; omega
    simp only [hnl_t, Bool.false_eq_true, ↓reduceIte]
    have hmin : min (t + 1) (line.length + 1) = t + 1 := by omega
    rw [hmin, isNlAt_bufOf line cur hn]
    by_cases hlast : t + 1 = line.length
    · simp [hlast]; omega
    · simp only [hlast, decide_false, Bool.false_eq_true, ↓reduceIte]
      rw [ih (t + 1) (by omega)]
      omega

/-- **`[n]l` conforms**: the model fails exactly when VimSpec does, and otherwise lands on VimSpec's column. -/
theorem l_conforms (line : List Char) (cur n : Nat) (hn : ∀ c ∈ line, c ≠ '\n') (hwf : (VS.mk line cur).WF) (hl : line ≠ [])
    (hcount : n ≥ 1) :
    (step ⟨line, cur⟩ (.l n) = none ∧ evalSimple (msOf line cur) .forwardChar n false = .null) ∨
    (∃ s', step ⟨line, cur⟩ (.l n) = some s' ∧ evalSimple (msOf line cur) .forwardChar n false = .on s'.cur) := by
  have hlen : line.length ≥ 1 := by cases line with | nil => exact absurd rfl hl | cons _ _ => simp
  have hc : cur + 1 ≤ line.length := by simp only [VS.WF] at hwf; omega
  have hgo := forwardGo_line line cur hn n cur hc
  have e1 : (msOf line cur).selecting = false := rfl
  have e2 : (msOf line cur).excl = true := rfl
  have e3 : (msOf line cur).cur = cur := rfl
  simp only [evalSimple, hgo, e1, e2, e3, Bool.not_false, Bool.true_and, step]
  by_cases hend : cur + 1 ≥ line.length
  · left
    have : min (cur + n) (line.length - 1) = cur := by omega
    simp [hend, this]
  · right
    have hne : min (cur + n) (line.length - 1) ≠ cur := by omega
    refine ⟨⟨line, min (cur + n) (line.length - 1)⟩, by simp [hend], ?_⟩
    simp [hne]

/-- `h` in the vicut model on a one-line buffer: `n` steps left, stopping in the first column. -/
theorem backwardGo_line (line : List Char) (cur : Nat) (hn : ∀ c ∈ line, c ≠ '\n') (n t : Nat) (ht : t + 1 ≤ line.length) :
    backwardGo (msOf line cur) n t = t - n := by
  induction n generalizing t with
  | zero => simp [backwardGo]
  | succ n ih =>
    simp only [backwardGo]
    by_cases h0 : t = 0
    · simp [h0]
    · have hnl : (msOf line cur).isNlAt (t - 1) = false := by rw [isNlAt_bufOf line cur hn]; simp; omega
      simp only [h0, hnl, false_or, Bool.false_eq_true, ↓reduceIte]
      rw [ih (t - 1) (by omega)]
      omega

/-- **`[n]h` conforms.** -/
theorem h_conforms (line : List Char) (cur n : Nat) (hn : ∀ c ∈ line, c ≠ '\n') (hwf : (VS.mk line cur).WF) (hl : line ≠ [])
    (hcount : n ≥ 1) :
    (step ⟨line, cur⟩ (.h n) = none ∧ evalSimple (msOf line cur) .backwardChar n false = .null) ∨
    (∃ s', step ⟨line, cur⟩ (.h n) = some s' ∧ evalSimple (msOf line cur) .backwardChar n false = .on s'.cur) := by
  have hlen : line.length ≥ 1 := by cases line with | nil => exact absurd rfl hl | cons _ _ => simp
  have hc : cur + 1 ≤ line.length := by simp only [VS.WF] at hwf; omega
  have hgo := backwardGo_line line cur hn n cur hc
  have e3 : (msOf line cur).cur = cur := rfl
  simp only [evalSimple, hgo, e3, step]
  by_cases h0 : cur = 0
  · left; simp [h0]
  · right
    refine ⟨⟨line, cur - n⟩, by simp [h0], ?_⟩
    have : cur - n ≠ cur := by omega
    simp [this]

/-- `l` under an operator (`x`, `dl`) reaches the terminator: `n` steps right, at most to the end of the line. -/
theorem forwardGo_line_op (line : List Char) (cur : Nat) (hn : ∀ c ∈ line, c ≠ '\n') (n t : Nat) (ht : t ≤ line.length) :
    forwardGo (msOf line cur) true n t = min (t + n) line.length := by
  induction n generalizing t with
  | zero => simp [forwardGo]; omega
  | succ n ih =>
    have hmax := max_bufOf line cur
    have e1 : (msOf line cur).selecting = false := rfl
    have e2 : (msOf line cur).excl = true := rfl
    simp only [forwardGo, e1, e2, Bool.not_false, Bool.true_and, ↓reduceIte, hmax, Bool.not_true, Bool.false_and,
      Bool.false_eq_true]
    rw [isNlAt_bufOf line cur hn]
    by_cases hend : t = line.length
    · simp [hend]
    · simp only [hend, decide_false, Bool.false_eq_true, ↓reduceIte]
      have hmin : min (t + 1) (line.length + 1) = t + 1 := by omega
      rw [hmin, ih (t + 1) (by omega)]
      omega

theorem flatten_singletons (l : List Char) : (l.map (fun c => [c])).flatten = l := by
  induction l with
  | nil => rfl
  | cons a t ih => simp [ih]

/-- **`[n]x` conforms on the text**: deleting with the model's `l`-under-an-operator range removes exactly the
characters VimSpec says `[n]x` removes, and the line terminator stays. -/
theorem x_conforms (line : List Char) (cur n : Nat) (hn : ∀ c ∈ line, c ≠ '\n') (hwf : (VS.mk line cur).WF) (hl : line ≠ [])
    (hcount : n ≥ 1) (reg : RegName) (regs : Regs) :
    ∃ out, execVerbText .delete (evalSimple (msOf line cur) .forwardChar n true) reg (msOf line cur).lb regs = .ok out ∧
      out.text = (line.take cur ++ line.drop (cur + n)) ++ ['\n'] := by
  have hlen : line.length ≥ 1 := by cases line with | nil => exact absurd rfl hl | cons _ _ => simp
  have hc : cur + 1 ≤ line.length := by simp only [VS.WF] at hwf; omega
  have hgo := forwardGo_line_op line cur hn n cur (by omega)
  have e1 : (msOf line cur).selecting = false := rfl
  have e2 : (msOf line cur).excl = true := rfl
  have e3 : (msOf line cur).cur = cur := rfl
  have hp : min (cur + n) line.length ≠ cur := by omega
  have hev : evalSimple (msOf line cur) .forwardChar n true = .on (min (cur + n) line.length) := by
    simp [evalSimple, hgo, e1, e2, e3, hp]
  rw [hev]
  -- the range the operator gets
  have hlb : (msOf line cur).lb = ⟨bufOf line, cur, true⟩ := rfl
  rw [hlb]
  have hgt : min (cur + n) line.length > cur := by omega
  have hnotnl : isNlAtGs (bufOf line) (min (cur + n) line.length - 1) = false := by
    rw [isNlAtGs_bufOf line hn]; simp; omega
  have hord : ordered cur (min (cur + n) line.length) = (cur, min (cur + n) line.length) := by
    unfold ordered; split <;> simp <;> omega
  have hrange : rangeFromMotion ⟨bufOf line, cur, true⟩ (.on (min (cur + n) line.length)) = some (cur, min (cur + n) line.length) := by
    simp [rangeFromMotion, hgt, hord, stopBeforeTerminator, hnotnl]
  have hspan : spansLines (bufOf line) cur (min (cur + n) line.length) = false := by
    unfold spansLines
    simp only [List.any_eq_false, List.mem_range]
    intro k hk
    rw [isNlAtGs_bufOf line hn]; simp; omega
  have hop : operatorRange .delete ⟨bufOf line, cur, true⟩ (.on (min (cur + n) line.length)) = some (cur, min (cur + n) line.length, false) := by
    simp [operatorRange, hrange, changeEnd, MK.linewise, OpK.isChange, hspan]
  have hs : cur ≤ min (cur + n) line.length := by omega
  have he : min (cur + n) line.length ≤ (bufOf line).length := by rw [bufOf_length]; omega
  refine ⟨_, C08.delete_frame ⟨bufOf line, cur, true⟩ _ reg regs cur (min (cur + n) line.length) false rfl hop hs he, ?_⟩
  simp only
  -- the text that is left
  have htake : (bufOf line).take cur = (line.take cur).map (fun c => [c]) := by
    unfold bufOf
    rw [List.take_append_of_le_length (by simp; omega), List.map_take]
  have hdrop : (bufOf line).drop (min (cur + n) line.length) = (line.drop (min (cur + n) line.length)).map (fun c => [c]) ++ [['\n']] := by
    unfold bufOf
    rw [List.drop_append_of_le_length (by simp; omega), List.map_drop]
  rw [htake, hdrop]
  have hd : line.drop (min (cur + n) line.length) = line.drop (cur + n) := by
    by_cases h : cur + n ≤ line.length
    · rw [Nat.min_eq_left h]
    · rw [Nat.min_eq_right (by omega), List.drop_of_length_le (Nat.le_refl _), List.drop_of_length_le (by omega)]
  rw [hd]
  simp only [List.flatten_append, flatten_singletons, List.flatten_cons, List.flatten_nil, List.append_nil, List.append_assoc]

/-- **`[n]X` conforms on the text** (away from column 0, where both fail). -/
theorem X_conforms (line : List Char) (cur n : Nat) (hn : ∀ c ∈ line, c ≠ '\n') (hwf : (VS.mk line cur).WF) (hl : line ≠ [])
    (hcount : n ≥ 1) (h0 : cur ≠ 0) (reg : RegName) (regs : Regs) :
    ∃ out, execVerbText .delete (evalSimple (msOf line cur) .backwardChar n true) reg (msOf line cur).lb regs = .ok out ∧
      out.text = (line.take (cur - n) ++ line.drop cur) ++ ['\n'] := by
  have hlen : line.length ≥ 1 := by cases line with | nil => exact absurd rfl hl | cons _ _ => simp
  have hc : cur + 1 ≤ line.length := by simp only [VS.WF] at hwf; omega
  have hgo := backwardGo_line line cur hn n cur hc
  have e3 : (msOf line cur).cur = cur := rfl
  have hp : cur - n ≠ cur := by omega
  have hev : evalSimple (msOf line cur) .backwardChar n true = .on (cur - n) := by
    simp [evalSimple, hgo, e3, hp]
  rw [hev]
  have hlb : (msOf line cur).lb = ⟨bufOf line, cur, true⟩ := rfl
  rw [hlb]
  have hngt : ¬ (cur - n > cur) := by omega
  have hord : ordered cur (cur - n) = (cur - n, cur) := by
    unfold ordered; split <;> simp <;> omega
  have hrange : rangeFromMotion ⟨bufOf line, cur, true⟩ (.on (cur - n)) = some (cur - n, cur) := by
    simp [rangeFromMotion, hngt, hord]
  have hop : operatorRange .delete ⟨bufOf line, cur, true⟩ (.on (cur - n)) = some (cur - n, cur, false) := by
    simp [operatorRange, hrange, changeEnd, MK.linewise, OpK.isChange, MK.forwardFrom, hngt]
  have hs : cur - n ≤ cur := by omega
  have he : cur ≤ (bufOf line).length := by rw [bufOf_length]; omega
  refine ⟨_, C08.delete_frame ⟨bufOf line, cur, true⟩ _ reg regs (cur - n) cur false rfl hop hs he, ?_⟩
  simp only
  have htake : (bufOf line).take (cur - n) = (line.take (cur - n)).map (fun c => [c]) := by
    unfold bufOf
    rw [List.take_append_of_le_length (by simp; omega), List.map_take]
  have hdrop : (bufOf line).drop cur = (line.drop cur).map (fun c => [c]) ++ [['\n']] := by
    unfold bufOf
    rw [List.drop_append_of_le_length (by simp; omega), List.map_drop]
  rw [htake, hdrop]
  simp only [List.flatten_append, flatten_singletons, List.flatten_cons, List.flatten_nil, List.append_nil, List.append_assoc]

/-! ### `0` and `$` -/

theorem afterNl_bufOf (line : List Char) (hn : ∀ c ∈ line, c ≠ '\n') (pos : Nat) :
    afterNl (bufOf line) pos = some (pos + line.length + 1, []) := by
  induction line generalizing pos with
  | nil => simp [bufOf, afterNl, isNl]
  | cons a t ih =>
    have ha : a ≠ '\n' := hn a (by simp)
    have ht : ∀ c ∈ t, c ≠ '\n' := fun c hc => hn c (by simp [hc])
    have : bufOf (a :: t) = [a] :: bufOf t := by simp [bufOf]
    rw [this]
    simp only [afterNl, isNl]
    have hne : ([a] == ['\n']) = false := by simp [ha]
    simp only [hne, Bool.false_eq_true, ↓reduceIte]
    rw [ih ht (pos + 1)]
    simp; omega

theorem cursorLine_bufOf (line : List Char) (cur : Nat) (hn : ∀ c ∈ line, c ≠ '\n') (hc : cur ≤ line.length) :
    cursorLine (msOf line cur).lb = 0 := by
  unfold cursorLine msOf MS.lb bufOf
  simp only
  rw [List.take_append_of_le_length (by simpa using hc), ← List.map_take, flatten_singletons]
  rw [List.count_eq_zero]
  intro hmem
  exact hn _ (List.mem_of_mem_take hmem) rfl

theorem thisLine_bufOf (line : List Char) (cur : Nat) (hn : ∀ c ∈ line, c ≠ '\n') (hc : cur ≤ line.length) :
    (msOf line cur).thisLine = (0, line.length + 1) := by
  unfold MS.thisLine Vicut.thisLine
  rw [cursorLine_bufOf line cur hn hc]
  have hlb : (msOf line cur).lb.gs = bufOf line := rfl
  rw [hlb]
  unfold lineBounds
  have htot : ¬ (0 > totalLines (bufOf line)) := by omega
  simp only [htot, ↓reduceIte, lineBoundsAux, afterNl_bufOf line hn 0, bufOf_length, Option.getD_some]
  simp

/-- **`0` conforms**: the model goes to VimSpec's column 0. -/
theorem zero_conforms (line : List Char) (cur : Nat) (hn : ∀ c ∈ line, c ≠ '\n') (hwf : (VS.mk line cur).WF) (hl : line ≠ []) :
    ∃ s', step ⟨line, cur⟩ .zero = some s' ∧ evalSimple (msOf line cur) .bol 1 false = .on s'.cur := by
  have hlen : line.length ≥ 1 := by cases line with | nil => exact absurd rfl hl | cons _ _ => simp
  have hc1 : cur + 1 ≤ line.length := by simp only [VS.WF] at hwf; omega
  have hc : cur ≤ line.length := by omega
  refine ⟨⟨line, 0⟩, rfl, ?_⟩
  simp [evalSimple, MS.sol, thisLine_bufOf line cur hn hc]

/-- **`$` conforms**: the model lands on the last character of the line, like VimSpec. -/
theorem dollar_conforms (line : List Char) (cur : Nat) (hn : ∀ c ∈ line, c ≠ '\n') (hwf : (VS.mk line cur).WF) (hl : line ≠ []) :
    ∃ s', step ⟨line, cur⟩ .dollar = some s' ∧ evalSimple (msOf line cur) .eol 1 false = .on s'.cur := by
  have hlen : line.length ≥ 1 := by cases line with | nil => exact absurd rfl hl | cons _ _ => simp
  have hc1 : cur + 1 ≤ line.length := by simp only [VS.WF] at hwf; omega
  have hc : cur ≤ line.length := by omega
  refine ⟨⟨line, line.length - 1⟩, rfl, ?_⟩
  have heol : (msOf line cur).eol = line.length + 1 := by simp [MS.eol, thisLine_bufOf line cur hn hc]
  have h1 : (msOf line cur).isNlAt line.length = true := by rw [isNlAt_bufOf line cur hn]; simp
  have h2 : (msOf line cur).isNlAt (line.length - 1) = false := by rw [isNlAt_bufOf line cur hn]; simp; omega
  have e1 : (msOf line cur).selecting = false := rfl
  simp [evalSimple, heol, h1, h2, e1]
  intro h; exact absurd h hl

example : (VS.mk ['a', 'b', 'c'] 0).WF ∧ (∀ c ∈ ['a', 'b', 'c'], c ≠ '\n') := by
  refine ⟨by simp [VS.WF], ?_⟩
  intro c hc; simp at hc; rcases hc with rfl | rfl | rfl <;> decide

end Vicut.Conform
