/-
C10 — no input makes vicut crash or hang.
For the modelled parts, "cannot crash" is a theorem about the model's explicit failure values and
"cannot hang" is the kernel's acceptance of the definitions (every model function is total: structural
or well-founded recursion, no `partial`). The unmodelled parts are covered by the crash census of the
run (any panic, signal, timeout or invalid UTF-8 on generated command lines is reported).
-/
import Vicut.Props.C01
import Vicut.Props.C08
import Vicut.Props.C09
import Vicut.Model.Args
import Vicut.Model.Reader

namespace Vicut.C10
open Vicut

/-- Reading a field never panics (any cursors, any selection, any text). -/
theorem read_field_never_panics (gs : List Gr) (c0 c1 : Nat) (m : Option SelMode) (r : Option SelRange) :
    fieldOf gs c0 c1 m r ≠ .error .panic := C01.field_never_panics gs c0 c1 m r

/-- `drain` accepts every range. -/
theorem drain_never_panics (gs : List Gr) (s e : Nat) : ∃ r, drainGs gs s e = .ok r := C08.drainGs_total gs s e

theorem drainWindows_total (ws : List (Nat × Nat)) (g : List Gr) : ∃ r, drainWindows ws g = .ok r := by
  induction ws generalizing g with
  | nil => exact ⟨_, rfl⟩
  | cons w ws ih =>
    simp only [drainWindows, drainGs]
    obtain ⟨r2, h2⟩ := ih (g.take (min w.1 (min w.2 g.length)) ++ g.drop (min w.2 g.length))
    rw [h2]
    exact ⟨_, rfl⟩

theorem getRegisterContent_total (d : OpK) (lb : LB) (mk : MK) : ∃ r, getRegisterContent d lb mk = .ok r := by
  have hmap : ∀ {α β : Type} (x : Except VErr α) (f : α → β), (∃ r, x = .ok r) → ∃ r, x.map f = .ok r := by
    intro α β x f ⟨r, hr⟩; exact ⟨f r, by rw [hr]; rfl⟩
  have hdr : ∀ s e, ∃ r, drainGs lb.gs s e = .ok r := fun s e => ⟨_, rfl⟩
  unfold getRegisterContent
  cases mk with
  | blockRange ws =>
    simp only
    split
    · exact hmap _ _ (drainWindows_total _ _)
    · exact ⟨_, rfl⟩
  | line n =>
    simp only
    split
    · exact ⟨_, rfl⟩
    · split
      · exact hmap _ _ (hdr _ _)
      · exact ⟨_, rfl⟩
  | lineRange a b =>
    simp only
    split
    · split
      · exact hmap _ _ (hdr _ _)
      · exact ⟨_, rfl⟩
    · exact ⟨_, rfl⟩
  | _ =>
    simp only
    split
    · exact ⟨_, rfl⟩
    · split
      · exact hmap _ _ (hdr _ _)
      · exact ⟨_, rfl⟩

/-- Delete, change and yank never panic, for every MotionKind the motion engine may produce (in range
or not), every register name and every register bank. -/
theorem delete_change_yank_never_panic (lb : LB) (mk : MK) (reg : RegName) (regs : Regs) :
    (∃ o, execVerbText .delete mk reg lb regs = .ok o) ∧ (∃ o, execVerbText .change mk reg lb regs = .ok o) ∧
    (∃ o, execVerbText .yank mk reg lb regs = .ok o) := by
  obtain ⟨r1, h1⟩ := getRegisterContent_total .delete lb mk
  obtain ⟨r3, h3⟩ := getRegisterContent_total .change lb mk
  obtain ⟨r2, h2⟩ := getRegisterContent_total .yank lb mk
  by_cases hn : mk.isNull = true
  · exact ⟨⟨⟨lb.gs.flatten, regs⟩, by simp [execVerbText, hn]⟩, ⟨⟨lb.gs.flatten, regs⟩, by simp [execVerbText, hn]⟩,
      ⟨⟨lb.gs.flatten, regs⟩, by simp [execVerbText, hn]⟩⟩
  · refine ⟨⟨⟨r1.2.flatten, writeReg regs reg r1.1⟩, ?_⟩, ⟨⟨r3.2.flatten, writeReg regs reg r3.1⟩, ?_⟩,
      ⟨⟨lb.gs.flatten, writeReg regs reg r2.1⟩, ?_⟩⟩
    · simp [execVerbText, hn, h1, Except.map]
    · simp [execVerbText, hn, h3, Except.map]
    · simp [execVerbText, hn, h2, Except.map]

/-- `this_line()` (`line_bounds(cursor_line_number()).unwrap()`) is always `Some` for a cursor inside the
text: the unwrap cannot fail. -/
theorem this_line_unwrap_is_safe (gs : List Gr) (cur : Nat) (hc : cur ≤ gs.length) :
    ∃ b, lineBounds gs (countNl (gs.take cur)) = some b := by
  obtain ⟨s, e, h, _⟩ := C09.this_line_contains_cursor gs cur hc
  exact ⟨_, h⟩

/-- The argument parser and the key reader are total functions of their input (their definitions are
accepted by the kernel without `partial`); stated here so that the audit lists them. -/
theorem parse_args_total (fileOk : Str → Bool) (argv : List Str) (st : PState) : ∃ r, parseArgs fileOk argv st = r := ⟨_, rfl⟩
theorem reader_total (bytes : Bytes) (escaped : Bool) : ∃ r, readAll bytes escaped = r := ⟨_, rfl⟩

end Vicut.C10
