/-
C01 — a cut field is exactly the text spanned by the cursor's movement.
The statements quantify over every start cursor, every end cursor and every post-command buffer:
that covers all commands, including ones that fail or overshoot, without modelling any of them.
-/
import Vicut.Model.Field
import Vicut.Model.Block
import Vicut.Props.C09

namespace Vicut.C01
open Vicut

/-- **Exact span.** When both cursor positions are on characters of the text, the field is the
graphemes from the smaller to the larger position, both ends included. -/
theorem field_span_exact (gs : List Gr) (c0 c1 : Nat) (h0 : c0 < gs.length) (h1 : c1 < gs.length) :
    fieldOf gs c0 c1 none none
      = .ok (((gs.drop (min c0 c1)).take (max c0 c1 - min c0 c1 + 1)).flatten) := by
  have hne : gs.isEmpty = false := by
    cases gs with
    | nil => simp at h0
    | cons _ _ => rfl
  have hs : clampGet (min c0 c1) gs.length true = min c0 c1 := by
    unfold clampGet; simp; omega
  have he : clampGet (max c0 c1 + 1) gs.length false = max c0 c1 + 1 := by
    unfold clampGet; simp; omega
  have hcond : min c0 c1 < gs.length ∧ max c0 c1 + 1 ≤ gs.length ∧ min c0 c1 ≤ max c0 c1 + 1 := by omega
  have hsub : max c0 c1 + 1 - min c0 c1 = max c0 c1 - min c0 c1 + 1 := by omega
  simp [fieldOf, hne, hs, he, sliceGs, hcond, hsub]

/-- **Any cursor values** (overshooting, stale, whatever the keys left behind): the field is still a
slice of the text between clamped ends — never an error on a non-empty buffer. -/
theorem field_span (gs : List Gr) (c0 c1 : Nat) (hne : gs ≠ []) :
    fieldOf gs c0 c1 none none
      = .ok (((gs.drop (min (min c0 c1) (gs.length - 1))).take
          (min (max c0 c1 + 1) gs.length - min (min c0 c1) (gs.length - 1))).flatten) := by
  have hlen : 0 < gs.length := List.length_pos_iff.mpr hne
  have hem : gs.isEmpty = false := by cases gs <;> simp_all
  have hcond : min (min c0 c1) (gs.length - 1) < gs.length ∧ min (max c0 c1 + 1) gs.length ≤ gs.length ∧
      min (min c0 c1) (gs.length - 1) ≤ min (max c0 c1 + 1) gs.length := by omega
  unfold fieldOf
  simp only [hem, Bool.false_eq_true, ↓reduceIte, clampGet, sliceGs]
  rw [if_pos hcond]

/-- The field is cut at grapheme boundaries of the post-command text: the text is
`before ++ field ++ after` for whole-grapheme `before`/`after`. -/
theorem field_is_cut_at_boundaries (gs : List Gr) (c0 c1 : Nat) (hne : gs ≠ []) :
    ∃ a b f, fieldOf gs c0 c1 none none = .ok f ∧ a ≤ b ∧ b ≤ gs.length ∧
      gs.flatten = (gs.take a).flatten ++ f ++ (gs.drop b).flatten := by
  refine ⟨min (min c0 c1) (gs.length - 1), min (max c0 c1 + 1) gs.length, _, field_span gs c0 c1 hne, ?_, ?_, ?_⟩
  · have hlen : 0 < gs.length := List.length_pos_iff.mpr hne
    omega
  · omega
  · have hlen : 0 < gs.length := List.length_pos_iff.mpr hne
    have hab : min (min c0 c1) (gs.length - 1) ≤ min (max c0 c1 + 1) gs.length := by omega
    generalize min (min c0 c1) (gs.length - 1) = a at hab
    generalize min (max c0 c1 + 1) gs.length = b at hab
    rw [← List.flatten_append, ← List.flatten_append]
    congr 1
    have h1 : gs = gs.take a ++ gs.drop a := (List.take_append_drop a gs).symm
    have h2 : gs.drop a = (gs.drop a).take (b - a) ++ (gs.drop a).drop (b - a) := (List.take_append_drop _ _).symm
    have h3 : (gs.drop a).drop (b - a) = gs.drop b := by
      rw [List.drop_drop]; congr 1; omega
    rw [h3] at h2
    calc gs = gs.take a ++ gs.drop a := h1
      _ = gs.take a ++ ((gs.drop a).take (b - a) ++ gs.drop b) := by rw [← h2]
      _ = gs.take a ++ (gs.drop a).take (b - a) ++ gs.drop b := by simp

/-- On an empty buffer every `-c` yields the empty field. -/
theorem field_empty_buffer (c0 c1 : Nat) : fieldOf [] c0 c1 none none = .ok [] := by
  simp [fieldOf]

/-- **Charwise selection:** exactly the graphemes `s ..= e` of the selection, whatever the cursor did. -/
theorem field_selected_char (gs : List Gr) (c0 c1 s e : Nat) (a : SelAnchor) (hs : s ≤ e) (he : e < gs.length) :
    fieldOf gs c0 c1 (some (.char a)) (some (.oneDim s e))
      = .ok (((gs.drop s).take (e + 1 - s)).flatten) := by
  have hm : min (e + 1) gs.length = e + 1 := by omega
  have hcond : s < gs.length ∧ e + 1 ≤ gs.length ∧ s ≤ e + 1 := by omega
  simp [fieldOf, selectedContent, sliceGs, hcond, hm]

/-- A charwise selection whose end is the end-of-text position (visual mode lets the cursor sit there)
selects through the last character. -/
theorem field_selected_char_at_end (gs : List Gr) (c0 c1 s e : Nat) (a : SelAnchor) (hs : s < gs.length) (he : gs.length ≤ e) :
    fieldOf gs c0 c1 (some (.char a)) (some (.oneDim s e)) = .ok ((gs.drop s).flatten) := by
  have hm : min (e + 1) gs.length = gs.length := by omega
  have hcond : s < gs.length ∧ s ≤ gs.length := by omega
  have ht : (gs.drop s).take (gs.length - s) = gs.drop s := List.take_of_length_le (by simp)
  simp [fieldOf, selectedContent, sliceGs, hcond, hm, ht]

/-- **Linewise selection:** the graphemes `s .. e` (whole lines; `e` is the exclusive end that
`line_bounds` gives). -/
theorem field_selected_line (gs : List Gr) (c0 c1 s e : Nat) (a : SelAnchor) (hs : s ≤ e) (he : e ≤ gs.length) (hs' : s < gs.length) :
    fieldOf gs c0 c1 (some (.line a)) (some (.oneDim s e)) = .ok (((gs.drop s).take (e - s)).flatten) := by
  have hcond : s < gs.length ∧ e ≤ gs.length ∧ s ≤ e := by omega
  simp [fieldOf, selectedContent, sliceGs, hcond]

/-- **Block selection:** the column window of every line, joined by newlines (never an error). -/
theorem field_selected_block (gs : List Gr) (c0 c1 : Nat) (m : Option SelMode) (ws : List (Nat × Nat)) :
    fieldOf gs c0 c1 m (some (.twoDim ws))
      = .ok (joinWith ['\n'] (ws.filterMap (fun w => sliceGs gs w.1 w.2))) := by
  simp [fieldOf, selectedContent]

/-- **`read_field` never panics**, whatever the cursors, the selection and the text (after the fix: the
end of a charwise selection is clamped and an unsliceable selection gives the empty field). -/
theorem field_never_panics (gs : List Gr) (c0 c1 : Nat) (m : Option SelMode) (r : Option SelRange) :
    fieldOf gs c0 c1 m r ≠ .error .panic := by
  unfold fieldOf
  cases r with
  | some r => simp only; split <;> simp
  | none =>
    simp only
    split
    · simp
    · split <;> simp

/-- Before the fix a selection ending at the last position plus one (or at the end of the text) made
`selected_content()` return `None`, which `read_field` unwrapped: `printf ab | vicut -c 'v$'` panicked. -/
def fieldOfLegacySel (gs : List Gr) (s e : Nat) : Option Str := sliceGs gs s (e + 1)
theorem legacy_selection_past_end_is_none : fieldOfLegacySel [['a'], ['b']] 0 2 = none := by rfl

/-! ## Non-vacuity -/
example : fieldOf [['h'], ['é'], ['l'], ['l'], ['o']] 3 1 none none = .ok ['é', 'l', 'l'] := by rfl
example : fieldOf [['a'], ['b']] 0 99 none none = .ok ['a', 'b'] := by rfl

end Vicut.C01

/-! ## Visual-block selections: the windows of `get_block_select_windows` (model `Vicut.Model.Block`) -/
namespace Vicut.C01Block
open Vicut Vicut.Block

theorem ordered_fst (a b : Nat) : (ordered a b).1 = min a b := by unfold ordered; split <;> simp <;> omega
theorem ordered_snd (a b : Nat) : (ordered a b).2 = max a b := by unfold ordered; split <;> simp <;> omega

/-- the last position a row may reach -/
def cap (gs : List Gr) (b : Nat × Nat) : Nat := if b.2 > b.1 && isNlAtGs gs (b.2 - 1) then b.2 - 1 else b.2

theorem row_fst (gs : List Gr) (ac cc : Nat) (b : Nat × Nat) :
    (row gs ac cc b).1 = min (min (b.1 + ac) (cap gs b)) (min (b.1 + cc) (cap gs b)) := by
  unfold row cap; exact ordered_fst _ _
theorem row_snd (gs : List Gr) (ac cc : Nat) (b : Nat × Nat) :
    (row gs ac cc b).2 = max (min (b.1 + ac) (cap gs b)) (min (b.1 + cc) (cap gs b)) := by
  unfold row cap; exact ordered_snd _ _

/-- a row's left edge is not right of its right edge -/
theorem row_ordered (gs : List Gr) (ac cc : Nat) (b : Nat × Nat) : (row gs ac cc b).1 ≤ (row gs ac cc b).2 := by
  rw [row_fst, row_snd]; omega

/-- a row is at most as wide as the rectangle -/
theorem row_width (gs : List Gr) (ac cc : Nat) (b : Nat × Nat) :
    (row gs ac cc b).2 - (row gs ac cc b).1 ≤ max ac cc - min ac cc := by
  rw [row_fst, row_snd]; omega

theorem cap_bounds (gs : List Gr) (b : Nat × Nat) (hb : b.1 ≤ b.2) : b.1 ≤ cap gs b ∧ cap gs b ≤ b.2 := by
  unfold cap; split
  · rename_i h; simp at h; omega
  · omega

/-- a row lies inside its line -/
theorem row_within (gs : List Gr) (ac cc : Nat) (b : Nat × Nat) (hb : b.1 ≤ b.2) :
    b.1 ≤ (row gs ac cc b).1 ∧ (row gs ac cc b).2 ≤ b.2 := by
  have := cap_bounds gs b hb
  rw [row_fst, row_snd]; omega

/-- **a row never takes its line's terminator** -/
theorem row_excludes_terminator (gs : List Gr) (ac cc : Nat) (b : Nat × Nat)
    (hb : b.1 < b.2) (hnl : isNlAtGs gs (b.2 - 1) = true) : (row gs ac cc b).2 ≤ b.2 - 1 := by
  have hc : cap gs b = b.2 - 1 := by
    unfold cap
    have : (decide (b.2 > b.1) && isNlAtGs gs (b.2 - 1)) = true := by simp [hnl, hb]
    simp [this]
  rw [row_snd, hc]; omega

/-- every window of a block selection is the row of one of its lines: one window per line between the
anchor's and the cursor's, in order -/
theorem windows_are_rows (gs : List Gr) (anchor cur : Nat) (ws : List (Nat × Nat)) (h : windows gs anchor cur = some ws) :
    ∃ ac cc, ∀ w ∈ ws, ∃ ln b, lineBounds gs ln = some b ∧ w = row gs ac cc b ∧
      min (cursorLine ⟨gs, cur, false⟩) (indexLine gs anchor) ≤ ln ∧ ln ≤ max (cursorLine ⟨gs, cur, false⟩) (indexLine gs anchor) := by
  unfold windows at h
  split at h
  · rename_i cc0 ac0 _ _
    simp only [Option.some.injEq] at h
    refine ⟨if cc0 ≥ ac0 then ac0 else ac0 + 1, if cc0 ≥ ac0 then cc0 + 1 else cc0, ?_⟩
    intro w hw
    rw [← h] at hw
    simp only [List.mem_filterMap, Option.map_eq_some_iff] at hw
    obtain ⟨ln, hln, b, hb, rfl⟩ := hw
    simp [List.mem_range'] at hln
    exact ⟨ln, b, hb, rfl, by omega, by omega⟩
  · cases h

/-- … so every window is ordered and no wider than the rectangle -/
theorem windows_ordered (gs : List Gr) (anchor cur : Nat) (ws : List (Nat × Nat)) (h : windows gs anchor cur = some ws) :
    ∀ w ∈ ws, w.1 ≤ w.2 := by
  obtain ⟨ac, cc, hr⟩ := windows_are_rows gs anchor cur ws h
  intro w hw
  obtain ⟨_, b, _, rfl, _⟩ := hr w hw
  exact row_ordered gs ac cc b

/-- `abcd` / `wxyz` unterminated: the block from `a` to `z` takes both lines whole (the last character of
the unterminated last line included) -/
example : windows ("abcd\nwxyz".toList.map (fun c => [c])) 0 8 = some [(0, 4), (5, 9)] := by decide
/-- terminated: the same, and the final newline stays out -/
example : windows ("abcd\nwxyz\n".toList.map (fun c => [c])) 0 8 = some [(0, 4), (5, 9)] := by decide
/-- a corner on a terminator keeps its column (before fix 673f6a4 this was `[(0, 0)]`) -/
example : windows ("q\n42\n".toList.map (fun c => [c])) 0 1 = some [(0, 1)] := by decide
example : windowsOldCorner ("q\n42\n".toList.map (fun c => [c])) 0 1 = some [(0, 0)] := by decide
/-- a block between two empty lines keeps the text between them (before the fix the middle row was empty) -/
example : windows ("\nx y\n\n".toList.map (fun c => [c])) 0 5 = some [(0, 0), (1, 2), (5, 5)] := by decide
example : windowsOldCorner ("\nx y\n\n".toList.map (fun c => [c])) 0 5 = some [(0, 0), (1, 1), (5, 5)] := by decide
/-- short lines in between give short or empty rows -/
example : windows ("abc\n\nxyz\n".toList.map (fun c => [c])) 1 7 = some [(1, 3), (4, 4), (6, 8)] := by decide

end Vicut.C01Block
namespace Vicut.C01Block
open Vicut Vicut.Block

theorem lineBoundsAux_bounds (max n : Nat) (gs : List Gr) (pos start : Nat) (hs : start ≤ pos)
    (hmax : pos + gs.length ≤ max) :
    (lineBoundsAux max n gs pos start).1 ≤ (lineBoundsAux max n gs pos start).2 ∧
      (lineBoundsAux max n gs pos start).2 ≤ max := by
  induction n generalizing gs pos start with
  | zero =>
    cases ha : afterNl gs pos with
    | none => simp only [lineBoundsAux, ha]; omega
    | some p =>
      obtain ⟨e, rest⟩ := p
      simp only [lineBoundsAux, ha]
      obtain ⟨j, hj, he, _, _, _⟩ := C09.afterNl_some ha
      omega
  | succ m ih =>
    cases ha : afterNl gs pos with
    | none => simp only [lineBoundsAux, ha]; omega
    | some p =>
      obtain ⟨e, rest⟩ := p
      simp only [lineBoundsAux, ha]
      obtain ⟨j, hj, he, hr, _, _⟩ := C09.afterNl_some ha
      have hrl : rest.length = gs.length - (j + 1) := by rw [hr]; simp
      have hemax : min e max = e := by omega
      rw [hemax]
      exact ih rest e e (Nat.le_refl _) (by omega)

theorem lineBounds_bounds (gs : List Gr) (n : Nat) (b : Nat × Nat) (h : lineBounds gs n = some b) :
    b.1 ≤ b.2 ∧ b.2 ≤ gs.length := by
  unfold lineBounds at h
  split at h
  · cases h
  · cases h
    exact lineBoundsAux_bounds gs.length n gs 0 0 (Nat.le_refl _) (by omega)

/-- **A block selection lies inside the text**: every window is ordered and ends at or before the end of the
text (what `selected_content` and the field slice rely on). -/
theorem windows_inside_text (gs : List Gr) (anchor cur : Nat) (ws : List (Nat × Nat)) (h : windows gs anchor cur = some ws) :
    ∀ w ∈ ws, w.1 ≤ w.2 ∧ w.2 ≤ gs.length := by
  obtain ⟨ac, cc, hr⟩ := windows_are_rows gs anchor cur ws h
  intro w hw
  obtain ⟨ln, b, hb, rfl, _⟩ := hr w hw
  obtain ⟨h1, h2⟩ := lineBounds_bounds gs ln b hb
  have := row_within gs ac cc b h1
  exact ⟨row_ordered gs ac cc b, by omega⟩

end Vicut.C01Block
