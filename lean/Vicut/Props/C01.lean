/-
C01 — a cut field is exactly the text spanned by the cursor's movement.
The statements quantify over every start cursor, every end cursor and every post-command buffer:
that covers all commands, including ones that fail or overshoot, without modelling any of them.
-/
import Vicut.Model.Field

namespace Vicut.C01
open Vicut

/-- **Exact span.** When both cursor positions are on characters of the text, the field is the
graphemes from the smaller to the larger position, both ends included. -/
theorem field_span_exact (gs : List Gr) (c0 c1 : Nat) (h0 : c0 < gs.length) (h1 : c1 < gs.length) :
    fieldOf gs c0 c1 none none
      = .ok (((gs.drop (min c0 c1)).take (max c0 c1 - min c0 c1 + 1)).flatten) := by
  have hne : gs.isEmpty = false := by
    cases gs with
    | nil => simp at h0
    | cons _ _ => rfl
  have hs : clampGet (min c0 c1) gs.length true = min c0 c1 := by
    unfold clampGet; simp; omega
  have he : clampGet (max c0 c1 + 1) gs.length false = max c0 c1 + 1 := by
    unfold clampGet; simp; omega
  have hcond : min c0 c1 < gs.length ∧ max c0 c1 + 1 ≤ gs.length ∧ min c0 c1 ≤ max c0 c1 + 1 := by omega
  have hsub : max c0 c1 + 1 - min c0 c1 = max c0 c1 - min c0 c1 + 1 := by omega
  simp [fieldOf, hne, hs, he, sliceGs, hcond, hsub]

/-- **Any cursor values** (overshooting, stale, whatever the keys left behind): the field is still a
slice of the text between clamped ends — never an error on a non-empty buffer. -/
theorem field_span (gs : List Gr) (c0 c1 : Nat) (hne : gs ≠ []) :
    fieldOf gs c0 c1 none none
      = .ok (((gs.drop (min (min c0 c1) (gs.length - 1))).take
          (min (max c0 c1 + 1) gs.length - min (min c0 c1) (gs.length - 1))).flatten) := by
  have hlen : 0 < gs.length := List.length_pos_iff.mpr hne
  have hem : gs.isEmpty = false := by cases gs <;> simp_all
  have hcond : min (min c0 c1) (gs.length - 1) < gs.length ∧ min (max c0 c1 + 1) gs.length ≤ gs.length ∧
      min (min c0 c1) (gs.length - 1) ≤ min (max c0 c1 + 1) gs.length := by omega
  unfold fieldOf
  simp only [hem, Bool.false_eq_true, ↓reduceIte, clampGet, sliceGs]
  rw [if_pos hcond]

/-- The field is cut at grapheme boundaries of the post-command text: the text is
`before ++ field ++ after` for whole-grapheme `before`/`after`. -/
theorem field_is_cut_at_boundaries (gs : List Gr) (c0 c1 : Nat) (hne : gs ≠ []) :
    ∃ a b f, fieldOf gs c0 c1 none none = .ok f ∧ a ≤ b ∧ b ≤ gs.length ∧
      gs.flatten = (gs.take a).flatten ++ f ++ (gs.drop b).flatten := by
  refine ⟨min (min c0 c1) (gs.length - 1), min (max c0 c1 + 1) gs.length, _, field_span gs c0 c1 hne, ?_, ?_, ?_⟩
  · have hlen : 0 < gs.length := List.length_pos_iff.mpr hne
    omega
  · omega
  · have hlen : 0 < gs.length := List.length_pos_iff.mpr hne
    have hab : min (min c0 c1) (gs.length - 1) ≤ min (max c0 c1 + 1) gs.length := by omega
    generalize min (min c0 c1) (gs.length - 1) = a at hab
    generalize min (max c0 c1 + 1) gs.length = b at hab
    rw [← List.flatten_append, ← List.flatten_append]
    congr 1
    have h1 : gs = gs.take a ++ gs.drop a := (List.take_append_drop a gs).symm
    have h2 : gs.drop a = (gs.drop a).take (b - a) ++ (gs.drop a).drop (b - a) := (List.take_append_drop _ _).symm
    have h3 : (gs.drop a).drop (b - a) = gs.drop b := by
      rw [List.drop_drop]; congr 1; omega
    rw [h3] at h2
    calc gs = gs.take a ++ gs.drop a := h1
      _ = gs.take a ++ ((gs.drop a).take (b - a) ++ gs.drop b) := by rw [← h2]
      _ = gs.take a ++ (gs.drop a).take (b - a) ++ gs.drop b := by simp

/-- On an empty buffer every `-c` yields the empty field. -/
theorem field_empty_buffer (c0 c1 : Nat) : fieldOf [] c0 c1 none none = .ok [] := by
  simp [fieldOf]

/-- **Charwise selection:** exactly the graphemes `s ..= e` of the selection, whatever the cursor did. -/
theorem field_selected_char (gs : List Gr) (c0 c1 s e : Nat) (a : SelAnchor) (hs : s ≤ e) (he : e < gs.length) :
    fieldOf gs c0 c1 (some (.char a)) (some (.oneDim s e))
      = .ok (((gs.drop s).take (e + 1 - s)).flatten) := by
  have hm : min (e + 1) gs.length = e + 1 := by omega
  have hcond : s < gs.length ∧ e + 1 ≤ gs.length ∧ s ≤ e + 1 := by omega
  simp [fieldOf, selectedContent, sliceGs, hcond, hm]

/-- A charwise selection whose end is the end-of-text position (visual mode lets the cursor sit there)
selects through the last character. -/
theorem field_selected_char_at_end (gs : List Gr) (c0 c1 s e : Nat) (a : SelAnchor) (hs : s < gs.length) (he : gs.length ≤ e) :
    fieldOf gs c0 c1 (some (.char a)) (some (.oneDim s e)) = .ok ((gs.drop s).flatten) := by
  have hm : min (e + 1) gs.length = gs.length := by omega
  have hcond : s < gs.length ∧ s ≤ gs.length := by omega
  have ht : (gs.drop s).take (gs.length - s) = gs.drop s := List.take_of_length_le (by simp)
  simp [fieldOf, selectedContent, sliceGs, hcond, hm, ht]

/-- **Linewise selection:** the graphemes `s .. e` (whole lines; `e` is the exclusive end that
`line_bounds` gives). -/
theorem field_selected_line (gs : List Gr) (c0 c1 s e : Nat) (a : SelAnchor) (hs : s ≤ e) (he : e ≤ gs.length) (hs' : s < gs.length) :
    fieldOf gs c0 c1 (some (.line a)) (some (.oneDim s e)) = .ok (((gs.drop s).take (e - s)).flatten) := by
  have hcond : s < gs.length ∧ e ≤ gs.length ∧ s ≤ e := by omega
  simp [fieldOf, selectedContent, sliceGs, hcond]

/-- **Block selection:** the column window of every line, joined by newlines (never an error). -/
theorem field_selected_block (gs : List Gr) (c0 c1 : Nat) (m : Option SelMode) (ws : List (Nat × Nat)) :
    fieldOf gs c0 c1 m (some (.twoDim ws))
      = .ok (joinWith ['\n'] (ws.filterMap (fun w => sliceGs gs w.1 w.2))) := by
  simp [fieldOf, selectedContent]

/-- **`read_field` never panics**, whatever the cursors, the selection and the text (after the fix: the
end of a charwise selection is clamped and an unsliceable selection gives the empty field). -/
theorem field_never_panics (gs : List Gr) (c0 c1 : Nat) (m : Option SelMode) (r : Option SelRange) :
    fieldOf gs c0 c1 m r ≠ .error .panic := by
  unfold fieldOf
  cases r with
  | some r => simp only; split <;> simp
  | none =>
    simp only
    split
    · simp
    · split <;> simp

/-- Before the fix a selection ending at the last position plus one (or at the end of the text) made
`selected_content()` return `None`, which `read_field` unwrapped: `printf ab | vicut -c 'v$'` panicked. -/
def fieldOfLegacySel (gs : List Gr) (s e : Nat) : Option Str := sliceGs gs s (e + 1)
theorem legacy_selection_past_end_is_none : fieldOfLegacySel [['a'], ['b']] 0 2 = none := by rfl

/-! ## Non-vacuity -/
example : fieldOf [['h'], ['é'], ['l'], ['l'], ['o']] 3 1 none none = .ok ['é', 'l', 'l'] := by rfl
example : fieldOf [['a'], ['b']] 0 99 none none = .ok ['a', 'b'] := by rfl

end Vicut.C01
