/-
C18 — short flags, long flags and vic scripts are the same language.
Parser side only (execution of equal `Cmd` trees is equal by definition of `execute`):
* the source's two flag tables (regenerated on every run) put every documented short/long pair in
  one arm, and the scope table agrees with the top-level table on the command flags;
* in the model parser, a long spelling at the head of the remaining arguments takes exactly the
  step its short spelling takes, in every parser state (top level or inside scopes);
* an option flag at top level only sets its field: parsing continues with the rest from a state that
  differs in that field alone (`…_head`). The statement "an option may be moved anywhere among the
  command flags" is proved here only in this one-step form (`option_position_partial`); the
  whole-argv commutation is established by the parser correspondence and by the position sweep on the
  real binary, not by a theorem.
-/
import Vicut.Gen.Tables
import Vicut.Model.Args

namespace Vicut.C18
open Vicut

/-! ## The source's flag tables -/

def documentedPairs : List (String × String) :=
  [("-j", "--json"), ("-t", "--template"), ("-d", "--delimiter"), ("-n", "--next"), ("-r", "--repeat"),
   ("-m", "--move"), ("-c", "--cut"), ("-g", "--global"), ("-v", "--not-global")]

def commandPairs : List (String × String) :=
  [("-n", "--next"), ("-r", "--repeat"), ("-m", "--move"), ("-c", "--cut"), ("-g", "--global"), ("-v", "--not-global")]

/-- Every documented short/long pair is handled by one and the same arm of `Opts::parse`. -/
theorem short_long_same_arm :
    ∀ p ∈ documentedPairs, ∃ arm ∈ Gen.optsParseArms, p.1 ∈ arm ∧ p.2 ∈ arm := by decide

/-- … and, for the command flags, by one and the same arm of `handle_global_arg`. -/
theorem short_long_same_arm_scope :
    ∀ p ∈ commandPairs, ∃ arm ∈ Gen.globalArgArms, p.1 ∈ arm ∧ p.2 ∈ arm := by decide

/-- The duplicated table inside scopes knows every command flag the top level knows. -/
theorem scope_table_agrees :
    ∀ p ∈ commandPairs, (∃ a ∈ Gen.optsParseArms, p.1 ∈ a) ∧ (∃ a ∈ Gen.globalArgArms, p.1 ∈ a) := by decide

/-- No flag spelling is claimed by two different arms (so the first-match order is irrelevant). -/
theorem arms_disjoint :
    (Gen.optsParseArms.flatten).Nodup ∧ (Gen.globalArgArms.flatten).Nodup := by decide

/-- The model parser's option/command flags are the source's. -/
theorem model_flags_are_source :
    Gen.optsParseArms.flatten.all (fun f =>
      f ∈ ["--json", "-j", "--trace", "--linewise", "--serial", "--trim-fields", "--keep-mode", "--backup",
           "--global-uses-line-numbers", "--silent", "-i", "--template", "-t", "--delimiter", "-d", "-n", "--next",
           "-r", "--repeat", "-m", "--move", "-c", "--cut", "-v", "--not-global", "-g", "--global"]) = true ∧
    Gen.optsParseArms.flatten.length = 27 := by decide

/-! ## Long spelling = short spelling, in every parser state -/

theorem long_next (fileOk : Str → Bool) (rest : List Str) (st : PState) :
    parseArgs fileOk (lit "--next" :: rest) st = parseArgs fileOk (lit "-n" :: rest) st := by
  rw [parseArgs.eq_def, parseArgs.eq_def]; simp [lit]

theorem long_repeat (fileOk : Str → Bool) (rest : List Str) (st : PState) :
    parseArgs fileOk (lit "--repeat" :: rest) st = parseArgs fileOk (lit "-r" :: rest) st := by
  rw [parseArgs.eq_def, parseArgs.eq_def]; simp [lit]

theorem long_move (fileOk : Str → Bool) (rest : List Str) (st : PState) :
    parseArgs fileOk (lit "--move" :: rest) st = parseArgs fileOk (lit "-m" :: rest) st := by
  rw [parseArgs.eq_def, parseArgs.eq_def]; simp [lit]

theorem long_cut (fileOk : Str → Bool) (rest : List Str) (st : PState) :
    parseArgs fileOk (lit "--cut" :: rest) st = parseArgs fileOk (lit "-c" :: rest) st := by
  rw [parseArgs.eq_def, parseArgs.eq_def]; simp [lit]

/-- (With no pattern following, the flag text itself becomes the pattern of an empty scope — the
one place where the two spellings differ; stated for a flag that has its operand.) -/
theorem long_global (fileOk : Str → Bool) (p : Str) (rest : List Str) (st : PState) :
    parseArgs fileOk (lit "--global" :: p :: rest) st = parseArgs fileOk (lit "-g" :: p :: rest) st ∧
    parseArgs fileOk (lit "--not-global" :: p :: rest) st = parseArgs fileOk (lit "-v" :: p :: rest) st := by
  constructor <;> (rw [parseArgs.eq_def, parseArgs.eq_def]; simp [lit, isGlobalFlag])

theorem long_json (fileOk : Str → Bool) (rest : List Str) (st : PState) :
    parseArgs fileOk (lit "--json" :: rest) st = parseArgs fileOk (lit "-j" :: rest) st := by
  rw [parseArgs.eq_def, parseArgs.eq_def]; simp [lit, isGlobalFlag]

theorem long_template_delimiter (fileOk : Str → Bool) (rest : List Str) (st : PState) :
    parseArgs fileOk (lit "--template" :: rest) st = parseArgs fileOk (lit "-t" :: rest) st ∧
    parseArgs fileOk (lit "--delimiter" :: rest) st = parseArgs fileOk (lit "-d" :: rest) st := by
  constructor <;> (rw [parseArgs.eq_def, parseArgs.eq_def]; simp [lit, isGlobalFlag])

/-! ## Option flags at top level only set their field -/

theorem option_position_partial (fileOk : Str → Bool) (rest : List Str) (o : POpts) :
    parseArgs fileOk (lit "--json" :: rest) ⟨o, []⟩ = parseArgs fileOk rest ⟨{ o with json := true }, []⟩ ∧
    parseArgs fileOk (lit "--linewise" :: rest) ⟨o, []⟩ = parseArgs fileOk rest ⟨{ o with linewise := true }, []⟩ ∧
    parseArgs fileOk (lit "--serial" :: rest) ⟨o, []⟩ = parseArgs fileOk rest ⟨{ o with serial := true }, []⟩ ∧
    parseArgs fileOk (lit "--trim-fields" :: rest) ⟨o, []⟩ = parseArgs fileOk rest ⟨{ o with trimFields := true }, []⟩ ∧
    parseArgs fileOk (lit "--keep-mode" :: rest) ⟨o, []⟩ = parseArgs fileOk rest ⟨{ o with keepMode := true }, []⟩ ∧
    parseArgs fileOk (lit "-i" :: rest) ⟨o, []⟩ = parseArgs fileOk rest ⟨{ o with inplace := true }, []⟩ := by
  refine ⟨?_, ?_, ?_, ?_, ?_, ?_⟩ <;> (rw [parseArgs.eq_def]; simp [lit, isGlobalFlag])

theorem option_operand_head (fileOk : Str → Bool) (d : Str) (rest : List Str) (o : POpts) (hd : startsWithDash d = false) :
    parseArgs fileOk (lit "-d" :: d :: rest) ⟨o, []⟩ = parseArgs fileOk rest ⟨{ o with delimiter := some d }, []⟩ ∧
    parseArgs fileOk (lit "-t" :: d :: rest) ⟨o, []⟩ = parseArgs fileOk rest ⟨{ o with template := some d }, []⟩ := by
  constructor <;> (rw [parseArgs.eq_def]; simp [lit, isGlobalFlag, hd])

/-- Inside an open scope an option flag is rejected (the property's "anywhere" is the top level). -/
theorem option_in_scope_rejected (fileOk : Str → Bool) (rest : List Str) (o : POpts) (f : Frame) (fs : List Frame) :
    parseArgs fileOk (lit "--json" :: rest) ⟨o, f :: fs⟩ = .error () := by
  rw [parseArgs.eq_def]; simp [lit, isGlobalFlag]

/-! ## Non-vacuity -/
example : ("-c", "--cut") ∈ documentedPairs ∧ ["-c", "--cut"] ∈ Gen.optsParseArms ∧ ["-c", "--cut"] ∈ Gen.globalArgArms := by decide
example : startsWithDash (lit ",") = false := by decide

end Vicut.C18
