/-
C18 — short flags, long flags and vic scripts are the same language.
Parser side only (execution of equal `Cmd` trees is equal by definition of `execute`):
* the source's two flag tables (regenerated on every run) put every documented short/long pair in
  one arm, and the scope table agrees with the top-level table on the command flags;
* in the model parser, a long spelling at the head of the remaining arguments takes exactly the
  step its short spelling takes, in every parser state (top level or inside scopes);
* an option flag at top level only sets its field (`option_position_partial`, `flag_step`), and
  **parsing commutes with setting a boolean option for every argument list, scope stack and parser
  state** (`parse_comm`, by induction over the whole parser): meeting the flag now is the same as setting
  the option after everything else has been parsed (`option_now_or_at_the_end`), hence the flag may stand
  before or after any self-contained top-level prefix of command flags (`option_position`, with `-c`, `-m`,
  `-n` shown to be such prefixes and prefixes closed under concatenation). `-d`/`-t` take an operand and
  commute with everything except another `-d`/`-t` (last one wins), which is the documented behaviour;
  that case is covered by `option_operand_head` and the position sweep on the real binary.
-/
import Vicut.Gen.Tables
import Vicut.Model.Args

namespace Vicut.C18
open Vicut

/-! ## The source's flag tables -/

def documentedPairs : List (String × String) :=
  [("-j", "--json"), ("-t", "--template"), ("-d", "--delimiter"), ("-n", "--next"), ("-r", "--repeat"),
   ("-m", "--move"), ("-c", "--cut"), ("-g", "--global"), ("-v", "--not-global")]

def commandPairs : List (String × String) :=
  [("-n", "--next"), ("-r", "--repeat"), ("-m", "--move"), ("-c", "--cut"), ("-g", "--global"), ("-v", "--not-global")]

/-- Every documented short/long pair is handled by one and the same arm of `Opts::parse`. -/
theorem short_long_same_arm :
    ∀ p ∈ documentedPairs, ∃ arm ∈ Gen.optsParseArms, p.1 ∈ arm ∧ p.2 ∈ arm := by decide

/-- … and, for the command flags, by one and the same arm of `handle_global_arg`. -/
theorem short_long_same_arm_scope :
    ∀ p ∈ commandPairs, ∃ arm ∈ Gen.globalArgArms, p.1 ∈ arm ∧ p.2 ∈ arm := by decide

/-- The duplicated table inside scopes knows every command flag the top level knows. -/
theorem scope_table_agrees :
    ∀ p ∈ commandPairs, (∃ a ∈ Gen.optsParseArms, p.1 ∈ a) ∧ (∃ a ∈ Gen.globalArgArms, p.1 ∈ a) := by decide

/-- No flag spelling is claimed by two different arms (so the first-match order is irrelevant). -/
theorem arms_disjoint :
    (Gen.optsParseArms.flatten).Nodup ∧ (Gen.globalArgArms.flatten).Nodup := by decide

/-- The model parser's option/command flags are the source's. -/
theorem model_flags_are_source :
    Gen.optsParseArms.flatten.all (fun f =>
      f ∈ ["--json", "-j", "--trace", "--linewise", "--serial", "--trim-fields", "--keep-mode", "--backup",
           "--global-uses-line-numbers", "--silent", "-i", "--template", "-t", "--delimiter", "-d", "-n", "--next",
           "-r", "--repeat", "-m", "--move", "-c", "--cut", "-v", "--not-global", "-g", "--global"]) = true ∧
    Gen.optsParseArms.flatten.length = 27 := by decide

/-! ## Long spelling = short spelling, in every parser state -/

theorem long_next (fileOk : Str → Bool) (rest : List Str) (st : PState) :
    parseArgs fileOk (lit "--next" :: rest) st = parseArgs fileOk (lit "-n" :: rest) st := by
  rw [parseArgs.eq_def, parseArgs.eq_def]; simp [lit]

theorem long_repeat (fileOk : Str → Bool) (rest : List Str) (st : PState) :
    parseArgs fileOk (lit "--repeat" :: rest) st = parseArgs fileOk (lit "-r" :: rest) st := by
  rw [parseArgs.eq_def, parseArgs.eq_def]; simp [lit]

theorem long_move (fileOk : Str → Bool) (rest : List Str) (st : PState) :
    parseArgs fileOk (lit "--move" :: rest) st = parseArgs fileOk (lit "-m" :: rest) st := by
  rw [parseArgs.eq_def, parseArgs.eq_def]; simp [lit]

theorem long_cut (fileOk : Str → Bool) (rest : List Str) (st : PState) :
    parseArgs fileOk (lit "--cut" :: rest) st = parseArgs fileOk (lit "-c" :: rest) st := by
  rw [parseArgs.eq_def, parseArgs.eq_def]; simp [lit]

/-- (With no pattern following, the flag text itself becomes the pattern of an empty scope — the
one place where the two spellings differ; stated for a flag that has its operand.) -/
theorem long_global (fileOk : Str → Bool) (p : Str) (rest : List Str) (st : PState) :
    parseArgs fileOk (lit "--global" :: p :: rest) st = parseArgs fileOk (lit "-g" :: p :: rest) st ∧
    parseArgs fileOk (lit "--not-global" :: p :: rest) st = parseArgs fileOk (lit "-v" :: p :: rest) st := by
  constructor <;> (rw [parseArgs.eq_def, parseArgs.eq_def]; simp [lit, isGlobalFlag])

theorem long_json (fileOk : Str → Bool) (rest : List Str) (st : PState) :
    parseArgs fileOk (lit "--json" :: rest) st = parseArgs fileOk (lit "-j" :: rest) st := by
  rw [parseArgs.eq_def, parseArgs.eq_def]; simp [lit, isGlobalFlag]

theorem long_template_delimiter (fileOk : Str → Bool) (rest : List Str) (st : PState) :
    parseArgs fileOk (lit "--template" :: rest) st = parseArgs fileOk (lit "-t" :: rest) st ∧
    parseArgs fileOk (lit "--delimiter" :: rest) st = parseArgs fileOk (lit "-d" :: rest) st := by
  constructor <;> (rw [parseArgs.eq_def, parseArgs.eq_def]; simp [lit, isGlobalFlag])

/-! ## Option flags at top level only set their field -/

theorem option_position_partial (fileOk : Str → Bool) (rest : List Str) (o : POpts) :
    parseArgs fileOk (lit "--json" :: rest) ⟨o, []⟩ = parseArgs fileOk rest ⟨{ o with json := true }, []⟩ ∧
    parseArgs fileOk (lit "--linewise" :: rest) ⟨o, []⟩ = parseArgs fileOk rest ⟨{ o with linewise := true }, []⟩ ∧
    parseArgs fileOk (lit "--serial" :: rest) ⟨o, []⟩ = parseArgs fileOk rest ⟨{ o with serial := true }, []⟩ ∧
    parseArgs fileOk (lit "--trim-fields" :: rest) ⟨o, []⟩ = parseArgs fileOk rest ⟨{ o with trimFields := true }, []⟩ ∧
    parseArgs fileOk (lit "--keep-mode" :: rest) ⟨o, []⟩ = parseArgs fileOk rest ⟨{ o with keepMode := true }, []⟩ ∧
    parseArgs fileOk (lit "-i" :: rest) ⟨o, []⟩ = parseArgs fileOk rest ⟨{ o with inplace := true }, []⟩ := by
  refine ⟨?_, ?_, ?_, ?_, ?_, ?_⟩ <;> (rw [parseArgs.eq_def]; simp [lit, isGlobalFlag])

theorem option_operand_head (fileOk : Str → Bool) (d : Str) (rest : List Str) (o : POpts) (hd : startsWithDash d = false) :
    parseArgs fileOk (lit "-d" :: d :: rest) ⟨o, []⟩ = parseArgs fileOk rest ⟨{ o with delimiter := some d }, []⟩ ∧
    parseArgs fileOk (lit "-t" :: d :: rest) ⟨o, []⟩ = parseArgs fileOk rest ⟨{ o with template := some d }, []⟩ := by
  constructor <;> (rw [parseArgs.eq_def]; simp [lit, isGlobalFlag, hd])

/-- Inside an open scope an option flag is rejected (the property's "anywhere" is the top level). -/
theorem option_in_scope_rejected (fileOk : Str → Bool) (rest : List Str) (o : POpts) (f : Frame) (fs : List Frame) :
    parseArgs fileOk (lit "--json" :: rest) ⟨o, f :: fs⟩ = .error () := by
  rw [parseArgs.eq_def]; simp [lit, isGlobalFlag]

/-! ## Non-vacuity -/
example : ("-c", "--cut") ∈ documentedPairs ∧ ["-c", "--cut"] ∈ Gen.optsParseArms ∧ ["-c", "--cut"] ∈ Gen.globalArgArms := by decide
example : startsWithDash (lit ",") = false := by decide

end Vicut.C18

/-! ## Option position: the whole-argv theorem -/

namespace Vicut.C18
open Vicut

/-- The boolean option flags. -/
inductive BFlag where
  | json | trace | linewise | serial | trimFields | keepMode | backup | globalLineNumbers | silent | inplace
  deriving Repr, DecidableEq

def BFlag.set (k : BFlag) (o : POpts) : POpts :=
  match k with
  | .json => { o with json := true }
  | .trace => { o with trace := true }
  | .linewise => { o with linewise := true }
  | .serial => { o with serial := true }
  | .trimFields => { o with trimFields := true }
  | .keepMode => { o with keepMode := true }
  | .backup => { o with backup := true }
  | .globalLineNumbers => { o with globalLineNumbers := true }
  | .silent => { o with silent := true }
  | .inplace => { o with inplace := true }

def mapO (k : BFlag) (st : PState) : PState := { st with opts := k.set st.opts }

@[simp] theorem mapO_stack (k : BFlag) (st : PState) : (mapO k st).stack = st.stack := rfl

theorem mapO_pushCmd (k : BFlag) (st : PState) (c : Cmd) : (mapO k st).pushCmd c = mapO k (st.pushCmd c) := by
  unfold PState.pushCmd mapO
  cases hs : st.stack <;> cases k <;> simp [hs, BFlag.set]

theorem mapO_closeOne (k : BFlag) (st : PState) : (mapO k st).closeOne = mapO k st.closeOne := by
  unfold PState.closeOne
  cases hs : st.stack with
  | nil => simp [mapO, hs]
  | cons f fs =>
    simp only [mapO_stack, hs]
    have : ({ mapO k st with stack := fs } : PState) = mapO k { st with stack := fs } := rfl
    rw [this, mapO_pushCmd]

theorem mapO_closeAllAux (k : BFlag) (fs : List Frame) (st : PState) : closeAllAux fs (mapO k st) = mapO k (closeAllAux fs st) := by
  induction fs generalizing st with
  | nil => rfl
  | cons f fs ih => simp only [closeAllAux]; rw [mapO_closeOne, ih]

theorem mapO_closeAll (k : BFlag) (st : PState) : (mapO k st).closeAll = mapO k st.closeAll := by
  unfold PState.closeAll; rw [mapO_stack, mapO_closeAllAux]

theorem mapO_peekBreak (k : BFlag) (st : PState) (rest : List Str) : (mapO k st).peekBreak rest = mapO k (st.peekBreak rest) := by
  unfold PState.peekBreak
  simp only [mapO_stack]
  split
  · split
    · rfl
    · exact mapO_closeAll k st
  · rfl

theorem mapO_repeatLast (k : BFlag) (st : PState) (n r : Nat) : (mapO k st).repeatLast n r = mapO k (st.repeatLast n r) := by
  unfold PState.repeatLast mapO
  cases hs : st.stack <;> cases k <;> simp [hs, BFlag.set]

theorem mapO_addFile (k : BFlag) (st : PState) (fileOk : Str → Bool) (a : Str) :
    (mapO k st).addFile fileOk a = (st.addFile fileOk a).map (mapO k) := by
  unfold PState.addFile
  simp only
  split
  · cases k <;> simp [mapO, BFlag.set, Except.map] <;> split <;> rfl
  · rfl

theorem mapO_frame (k : BFlag) (st : PState) (fs : List Frame) :
    ({ mapO k st with stack := fs } : PState) = mapO k { st with stack := fs } := rfl

/-- Setting the same or another boolean flag commutes. -/
theorem set_comm (k k' : BFlag) (o : POpts) : k.set (k'.set o) = k'.set (k.set o) := by
  cases k <;> cases k' <;> rfl

theorem mapO_opts_set (k k' : BFlag) (st : PState) :
    ({ mapO k st with opts := k'.set (mapO k st).opts } : PState) = mapO k { st with opts := k'.set st.opts } := by
  simp only [mapO]; rw [set_comm]

theorem set_template (k : BFlag) (o : POpts) (t : Option Str) : ({ k.set o with template := t } : POpts) = k.set { o with template := t } := by
  cases k <;> rfl
theorem set_delimiter (k : BFlag) (o : POpts) (t : Option Str) : ({ k.set o with delimiter := t } : POpts) = k.set { o with delimiter := t } := by
  cases k <;> rfl

end Vicut.C18

namespace Vicut.C18
open Vicut

theorem map_ok {α β : Type} (f : α → β) (x : α) : (Except.ok x : Except Unit α).map f = .ok (f x) := rfl
theorem map_err {α β : Type} (f : α → β) : (Except.error () : Except Unit α).map f = .error () := rfl

set_option maxHeartbeats 1000000 in
/-- **A boolean option set before the remaining arguments are parsed, or after, gives the same
result**: parsing commutes with setting the flag, for every argument list, every scope stack and
every parser state. -/
theorem parse_comm (k : BFlag) (fileOk : Str → Bool) : ∀ (n : Nat) (args : List Str) (st : PState), args.length ≤ n →
    parseArgs fileOk args (mapO k st) = (parseArgs fileOk args st).map (mapO k) := by
  intro n
  induction n with
  | zero =>
    intro args st h
    have : args = [] := List.length_eq_zero_iff.mp (by omega)
    subst this
    rw [parseArgs.eq_def, parseArgs.eq_def]
    simp only [mapO_closeAll, map_ok]
  | succ n ih =>
    intro args st h
    cases args with
    | nil => rw [parseArgs.eq_def, parseArgs.eq_def]; simp only [mapO_closeAll, map_ok]
    | cons a rest =>
      have hl : rest.length ≤ n := by simpa using h
      have ihr : ∀ (r : List Str) (st' : PState), r.length ≤ rest.length →
          parseArgs fileOk r (mapO k st') = (parseArgs fileOk r st').map (mapO k) := fun r st' hr => ih r st' (by omega)
      rw [parseArgs.eq_def, parseArgs.eq_def fileOk (a :: rest) st]
      simp only [mapO_stack]
      by_cases h1 : a = lit "-n" ∨ a = lit "--next"
      · simp only [h1, ↓reduceIte]
        cases hs : st.stack with
        | nil => simp only; rw [mapO_pushCmd]; exact ihr _ _ (Nat.le_refl _)
        | cons f fs =>
          simp only
          rw [mapO_frame, mapO_peekBreak]; exact ihr _ _ (Nat.le_refl _)
      simp only [h1, ↓reduceIte]
      by_cases h2 : a = lit "-r" ∨ a = lit "--repeat"
      · simp only [h2, ↓reduceIte]
        cases hr : repeatOperands rest with
        | none => rfl
        | some p =>
          obtain ⟨nn, r, used⟩ := p
          simp only
          rw [mapO_repeatLast, mapO_peekBreak]
          exact ihr _ _ (by simp)
      simp only [h2, ↓reduceIte]
      by_cases h3 : a = lit "-m" ∨ a = lit "--move"
      · simp only [h3, ↓reduceIte]
        cases rest with
        | nil => simp only [mapO_closeAll, map_ok]
        | cons kk rest' =>
          simp only
          by_cases hd : startsWithDash kk = true
          · simp only [hd, ↓reduceIte, map_err]
          · simp only [hd, Bool.false_eq_true, ↓reduceIte]
            rw [mapO_pushCmd, mapO_peekBreak]; exact ihr _ _ (by simp)
      simp only [h3, ↓reduceIte]
      by_cases h4 : a = lit "-c" ∨ a = lit "--cut"
      · simp only [h4, ↓reduceIte]
        cases rest with
        | nil => simp only [mapO_closeAll, map_ok]
        | cons kk rest' =>
          simp only
          by_cases hp : (lit "name=").isPrefixOf kk = true
          · simp only [hp, ↓reduceIte]
            by_cases hz : st.stack.isEmpty = true ∧ kk.drop 5 = lit "0"
            · simp only [hz, and_self, ↓reduceIte, map_err]
            · simp only [hz, ↓reduceIte]
              cases rest' with
              | nil => simp only [mapO_closeAll, map_ok]
              | cons k2 rest'' =>
                simp only
                by_cases hd : startsWithDash k2 = true
                · simp only [hd, ↓reduceIte, map_err]
                · simp only [hd, Bool.false_eq_true, ↓reduceIte]
                  rw [mapO_pushCmd, mapO_peekBreak]; exact ihr _ _ (by simp; omega)
          · simp only [hp, Bool.false_eq_true, ↓reduceIte]
            by_cases hd : startsWithDash kk = true
            · simp only [hd, ↓reduceIte, map_err]
            · simp only [hd, Bool.false_eq_true, ↓reduceIte]
              rw [mapO_pushCmd, mapO_peekBreak]; exact ihr _ _ (by simp)
      simp only [h4, ↓reduceIte]
      cases hg : isGlobalFlag a with
      | some pol =>
        simp only
        cases rest with
        | nil => simp only [mapO_pushCmd, mapO_closeAll, map_ok]
        | cons p rest' =>
          simp only
          by_cases hd : startsWithDash p = true
          · simp only [hd, ↓reduceIte, map_err]
          · simp only [hd, Bool.false_eq_true, ↓reduceIte]
            rw [mapO_frame]; exact ihr _ _ (by simp)
      | none =>
        simp only
        cases hs : st.stack with
        | cons f fs =>
          simp only
          by_cases he : a = lit "--else"
          · simp only [he, ↓reduceIte]
            rw [mapO_frame, mapO_peekBreak]; exact ihr _ _ (Nat.le_refl _)
          · simp only [he, ↓reduceIte]
            by_cases hn : a = lit "--end"
            · simp only [hn, ↓reduceIte]
              rw [mapO_closeOne, mapO_peekBreak]; exact ihr _ _ (Nat.le_refl _)
            · simp only [hn, ↓reduceIte, map_err]
        | nil =>
          simp only
          by_cases hb0 : a = lit "--json" ∨ a = lit "-j"
          · simp only [hb0, ↓reduceIte]
            refine Eq.trans (congrArg _ ?_) (ihr rest _ (Nat.le_refl _))
            cases k <;> rfl
          simp only [hb0, ↓reduceIte]
          by_cases hb1 : a = lit "--trace"
          · simp only [hb1, ↓reduceIte]
            refine Eq.trans (congrArg _ ?_) (ihr rest _ (Nat.le_refl _))
            cases k <;> rfl
          simp only [hb1, ↓reduceIte]
          by_cases hb2 : a = lit "--linewise"
          · simp only [hb2, ↓reduceIte]
            refine Eq.trans (congrArg _ ?_) (ihr rest _ (Nat.le_refl _))
            cases k <;> rfl
          simp only [hb2, ↓reduceIte]
          by_cases hb3 : a = lit "--serial"
          · simp only [hb3, ↓reduceIte]
            refine Eq.trans (congrArg _ ?_) (ihr rest _ (Nat.le_refl _))
            cases k <;> rfl
          simp only [hb3, ↓reduceIte]
          by_cases hb4 : a = lit "--trim-fields"
          · simp only [hb4, ↓reduceIte]
            refine Eq.trans (congrArg _ ?_) (ihr rest _ (Nat.le_refl _))
            cases k <;> rfl
          simp only [hb4, ↓reduceIte]
          by_cases hb5 : a = lit "--keep-mode"
          · simp only [hb5, ↓reduceIte]
            refine Eq.trans (congrArg _ ?_) (ihr rest _ (Nat.le_refl _))
            cases k <;> rfl
          simp only [hb5, ↓reduceIte]
          by_cases hb6 : a = lit "--backup"
          · simp only [hb6, ↓reduceIte]
            refine Eq.trans (congrArg _ ?_) (ihr rest _ (Nat.le_refl _))
            cases k <;> rfl
          simp only [hb6, ↓reduceIte]
          by_cases hb7 : a = lit "--global-uses-line-numbers"
          · simp only [hb7, ↓reduceIte]
            refine Eq.trans (congrArg _ ?_) (ihr rest _ (Nat.le_refl _))
            cases k <;> rfl
          simp only [hb7, ↓reduceIte]
          by_cases hb8 : a = lit "--silent"
          · simp only [hb8, ↓reduceIte]
            refine Eq.trans (congrArg _ ?_) (ihr rest _ (Nat.le_refl _))
            cases k <;> rfl
          simp only [hb8, ↓reduceIte]
          by_cases hb9 : a = lit "-i"
          · simp only [hb9, ↓reduceIte]
            refine Eq.trans (congrArg _ ?_) (ihr rest _ (Nat.le_refl _))
            cases k <;> rfl
          simp only [hb9, ↓reduceIte]
          by_cases ht : a = lit "--template" ∨ a = lit "-t"
          · simp only [ht, ↓reduceIte]
            cases rest with
            | nil => rfl
            | cons t rest' =>
              simp only
              by_cases hd : startsWithDash t = true
              · simp only [hd, ↓reduceIte, map_err]
              · simp only [hd, Bool.false_eq_true, ↓reduceIte]
                refine Eq.trans (congrArg _ ?_) (ihr rest' _ (by simp))
                cases k <;> rfl
          simp only [ht, ↓reduceIte]
          by_cases hdl : a = lit "--delimiter" ∨ a = lit "-d"
          · simp only [hdl, ↓reduceIte]
            cases rest with
            | nil => rfl
            | cons t rest' =>
              simp only
              by_cases hd : startsWithDash t = true
              · simp only [hd, ↓reduceIte, map_err]
              · simp only [hd, Bool.false_eq_true, ↓reduceIte]
                refine Eq.trans (congrArg _ ?_) (ihr rest' _ (by simp))
                cases k <;> rfl
          simp only [hdl, ↓reduceIte]
          have hst : st = { opts := st.opts, stack := [] } := by cases st; simp_all
          rw [mapO_addFile]
          cases hf : st.addFile fileOk a with
          | error e => rfl
          | ok st' => simp only [map_ok]; exact ihr _ _ (Nat.le_refl _)

end Vicut.C18

namespace Vicut.C18
open Vicut

/-- The spelling(s) of a boolean option flag. -/
def BFlag.texts : BFlag → List Str
  | .json => [lit "--json", lit "-j"]
  | .trace => [lit "--trace"]
  | .linewise => [lit "--linewise"]
  | .serial => [lit "--serial"]
  | .trimFields => [lit "--trim-fields"]
  | .keepMode => [lit "--keep-mode"]
  | .backup => [lit "--backup"]
  | .globalLineNumbers => [lit "--global-uses-line-numbers"]
  | .silent => [lit "--silent"]
  | .inplace => [lit "-i"]

/-- At top level a boolean option flag only sets its field and parsing goes on. -/
theorem flag_step (k : BFlag) (t : Str) (ht : t ∈ k.texts) (fileOk : Str → Bool) (rest : List Str) (o : POpts) :
    parseArgs fileOk (t :: rest) ⟨o, []⟩ = parseArgs fileOk rest ⟨k.set o, []⟩ := by
  cases k <;> simp only [BFlag.texts, List.mem_cons, List.mem_singleton, List.not_mem_nil, or_false] at ht
  all_goals (rcases ht with rfl | rfl) <;> (rw [parseArgs.eq_def]; simp [lit, isGlobalFlag, BFlag.set])

/-- **An option flag met at top level is equivalent to setting the option after everything else has been
parsed**: whatever follows it (commands, scopes, other options, file names). -/
theorem option_now_or_at_the_end (k : BFlag) (t : Str) (ht : t ∈ k.texts) (fileOk : Str → Bool) (rest : List Str) (o : POpts) :
    parseArgs fileOk (t :: rest) ⟨o, []⟩ = (parseArgs fileOk rest ⟨o, []⟩).map (mapO k) := by
  rw [flag_step k t ht]
  exact parse_comm k fileOk rest.length rest ⟨o, []⟩ (Nat.le_refl _)

/-- A self-contained top-level prefix: it turns the parser state at top level into another top-level
state, whatever follows. -/
def TopPrefix (fileOk : Str → Bool) (pre : List Str) (g : POpts → POpts) : Prop :=
  ∀ post o, parseArgs fileOk (pre ++ post) ⟨o, []⟩ = parseArgs fileOk post ⟨g o, []⟩

/-- **Option position does not matter**: the flag before or after any self-contained top-level prefix
(one or more complete command flags, options, closed scopes) parses to the same options and commands. -/
theorem option_position (k : BFlag) (t : Str) (ht : t ∈ k.texts) (fileOk : Str → Bool) (pre post : List Str)
    (g : POpts → POpts) (hp : TopPrefix fileOk pre g) (o : POpts) :
    parseArgs fileOk (pre ++ t :: post) ⟨o, []⟩ = parseArgs fileOk (t :: (pre ++ post)) ⟨o, []⟩ := by
  rw [hp (t :: post) o, option_now_or_at_the_end k t ht, option_now_or_at_the_end k t ht, hp post o]

theorem topPrefix_append (fileOk : Str → Bool) (p1 p2 : List Str) (g1 g2 : POpts → POpts)
    (h1 : TopPrefix fileOk p1 g1) (h2 : TopPrefix fileOk p2 g2) : TopPrefix fileOk (p1 ++ p2) (g2 ∘ g1) := by
  intro post o
  rw [List.append_assoc, h1 (p2 ++ post) o, h2 post (g1 o)]; rfl

/-- Complete command flags are such prefixes: `-c keys`, `-m keys`, `-n`. -/
theorem topPrefix_cut (fileOk : Str → Bool) (keys : Str) (hk : startsWithDash keys = false) (hn : ¬ (lit "name=") <+: keys) :
    TopPrefix fileOk [lit "-c", keys] (fun o => { o with cmds := o.cmds ++ [.cut none keys] }) := by
  intro post o
  simp only [List.cons_append, List.nil_append]
  rw [parseArgs.eq_def]
  have hn' : ¬ ['n', 'a', 'm', 'e', '='] <+: keys := hn
  simp [lit, isGlobalFlag, hk, hn', PState.pushCmd, PState.peekBreak]

theorem topPrefix_move (fileOk : Str → Bool) (keys : Str) (hk : startsWithDash keys = false) :
    TopPrefix fileOk [lit "-m", keys] (fun o => { o with cmds := o.cmds ++ [.move keys] }) := by
  intro post o
  simp only [List.cons_append, List.nil_append]
  rw [parseArgs.eq_def]
  simp [lit, isGlobalFlag, hk, PState.pushCmd, PState.peekBreak]

theorem topPrefix_next (fileOk : Str → Bool) :
    TopPrefix fileOk [lit "-n"] (fun o => { o with cmds := o.cmds ++ [.next] }) := by
  intro post o
  simp only [List.cons_append, List.nil_append]
  rw [parseArgs.eq_def]
  simp [lit, PState.pushCmd]

/-- Non-vacuity: `-c e --json -m w` and `--json -c e -m w` (and `-c e -m w --json`) parse alike. -/
example (fileOk : Str → Bool) (o : POpts) :
    parseArgs fileOk ([lit "-c", lit "e"] ++ lit "--json" :: [lit "-m", lit "w"]) ⟨o, []⟩
      = parseArgs fileOk (lit "--json" :: ([lit "-c", lit "e"] ++ [lit "-m", lit "w"])) ⟨o, []⟩ :=
  option_position .json (lit "--json") (by decide) fileOk _ _ _ (topPrefix_cut fileOk (lit "e") (by decide) (by decide)) o

end Vicut.C18
