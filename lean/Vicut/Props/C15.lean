/-
C15 — key notations are interchangeable and every key string is consumed.
Everything is stated on the byte queue of the reader, for arbitrary following bytes `post`, so the
equalities hold in any context; since every mode consumes `KeyEvent`s only (`exec_loop` calls
`mode.handle_key(read_key())`), equal key sequences give equal behaviour in every mode and on any
buffer (`behaviour_follows_keys`).
-/
import Vicut.Gen.Tables

namespace Vicut.C15
open Vicut

/-! ## The model's tables are the source's tables (regenerated on every run) -/

theorem alias_table_is_source :
    ∀ p ∈ Gen.aliasTable, aliasNamed (bstr p.1) = some p.2 := by decide

theorem alias_names_complete :
    ∀ n ∈ ["esc", "CR", "return", "enter", "tab", "BS", "del", "ins", "home", "end", "left", "right", "up",
      "down", "pgup", "pgdown"], (Gen.aliasTable.map Prod.fst).contains n = true := by decide

theorem alias_mods_are_source :
    Gen.aliasMods = [("c-", "CTRL"), ("s-", "SHIFT"), ("a-", "ALT")] := by decide

theorem control_table_is_source :
    ∀ r ∈ Gen.controlTable, keyEventOfChar (Char.ofNat r.1) = ⟨r.2.1, r.2.2⟩ := by decide

theorem esc_digit_table_is_source :
    ∀ r ∈ Gen.escDigitTable, escDigitsKey (r.1.map (fun n => UInt8.ofNat n)) = r.2 := by decide

/-! ## An alias is read as its key, whatever follows -/

theorem takeWhile_append_sep (name post : Bytes) (h : ∀ b ∈ name, b ≠ 62) :
    (name ++ 62 :: post).takeWhile notGt = name ∧ ((name ++ 62 :: post).dropWhile notGt).drop 1 = post := by
  induction name with
  | nil => simp [notGt]
  | cons x xs ih =>
    have hx : notGt x = true := by simpa [notGt] using h x (by simp)
    have := ih (fun b hb => h b (by simp [hb]))
    simp only [List.cons_append, List.takeWhile_cons, List.dropWhile_cons, hx, ↓reduceIte]
    exact ⟨by rw [this.1], this.2⟩

/-- One step of `read_key`, spelled out once. -/
theorem readKey_cons (byte : UInt8) (rest : Bytes) (e : Bool) :
    readKey ⟨byte :: rest, e⟩ =
      match (if byte = 60 ∧ !e then parseByteAlias rest else none) with
      | some (k, rest') => (some k, ⟨rest', e⟩)
      | none =>
        if [byte] = [0x1b] ∧ (rest.head? = some 91 ∨ rest.head? = some 79) then
          ((parseEscSeq rest).1, ⟨(parseEscSeq rest).2, if byte = 92 then !e else false⟩)
        else
          match decodeOne [byte] with
          | some c => (some (keyEventOfChar c), ⟨rest, if byte = 92 then !e else false⟩)
          | none => collectKey 3 rest (if byte = 92 then !e else false) [byte] := by
  unfold readKey
  rw [collectKey]
  simp only [List.nil_append, List.length_cons, List.length_nil]
  cases h : (if byte = 60 ∧ (!e) = true then parseByteAlias rest else none) with
  | none => rfl
  | some p => rfl

/-- `<name>` (unescaped) is consumed as one key and leaves exactly the bytes after `>`. -/
theorem alias_read (name post : Bytes) (k : KeyEvent) (h : ∀ b ∈ name, b ≠ 62)
    (hk : aliasKey name = some k) :
    readKey ⟨60 :: (name ++ 62 :: post), false⟩ = (some k, ⟨post, false⟩) := by
  have ht := takeWhile_append_sep name post h
  have hne : (List.dropWhile notGt (name ++ 62 :: post)).isEmpty = false := by
    cases hd : List.dropWhile notGt (name ++ 62 :: post) with
    | nil =>
      -- dropping stops at the `>` we appended, so the remainder cannot be empty
      have h2 := ht.2
      have hlen : (name ++ 62 :: post).length = (List.takeWhile notGt (name ++ 62 :: post)).length + (List.dropWhile notGt (name ++ 62 :: post)).length := by
        rw [← List.length_append, List.takeWhile_append_dropWhile]
      rw [ht.1, hd] at hlen
      simp at hlen
    | cons x xs => rfl
  rw [readKey_cons]
  simp [parseByteAlias, ht.1, ht.2, hk, hne]

theorem decode_lt : decodeOne [60] = some '<' := by decide
theorem decode_bs : decodeOne [92] = some '\\' := by decide
theorem decode_esc : decodeOne [0x1b] = some (Char.ofNat 27) := by decide

/-- Text in `<…>` that is not an alias is taken literally: `<` is just the character `<`. -/
theorem non_alias_literal (rest : Bytes) (e : Bool) (h : parseByteAlias rest = none) :
    readKey ⟨60 :: rest, e⟩ = (some ⟨.char '<', 0⟩, ⟨rest, false⟩) := by
  rw [readKey_cons]
  cases e <;> simp [h, decode_lt] <;> decide

/-- **`<` without a closing `>` in the rest of the argument is a literal `<`**, whatever follows it —
so `<<G` at the end of an argument reads as `<`, `<`, `G`, exactly as it does in the middle of one.
(Before the fix the unterminated tail was taken as an alias name: `<G` at the end was the key `G`.) -/
theorem unterminated_alias_is_literal (rest : Bytes) (e : Bool) (h : ∀ b ∈ rest, b ≠ 62) :
    readKey ⟨60 :: rest, e⟩ = (some ⟨.char '<', 0⟩, ⟨rest, false⟩) := by
  apply non_alias_literal
  have hd : List.dropWhile notGt rest = [] := by
    induction rest with
    | nil => rfl
    | cons b bs ih =>
      have hb : notGt b = true := by simpa [notGt] using h b (by simp)
      simp only [List.dropWhile_cons, hb, ↓reduceIte]
      exact ih (fun x hx => h x (by simp [hx]))
  simp [parseByteAlias, hd]

/-- After a backslash, `<` is literal whatever follows (even a valid alias name). -/
theorem escaped_lt_literal (rest : Bytes) :
    readKey ⟨60 :: rest, true⟩ = (some ⟨.char '<', 0⟩, ⟨rest, false⟩) := by
  rw [readKey_cons]
  simp [decode_lt]; decide

/-- A backslash is itself a key, and flips the escape flag. -/
theorem backslash_key (rest : Bytes) (e : Bool) :
    readKey ⟨92 :: rest, e⟩ = (some ⟨.char '\\', 0⟩, ⟨rest, !e⟩) := by
  rw [readKey_cons]
  cases e <;> simp [decode_bs] <;> decide

/-! ## The raw spellings -/

/-- A raw control byte other than ESC is one key, whatever follows. -/
theorem raw_control (b : UInt8) (post : Bytes) (e : Bool) (hb : b < 0x80) (h1 : b ≠ 60) (h2 : b ≠ 92) (h3 : b ≠ 0x1b) :
    readKey ⟨b :: post, e⟩ = (some (keyEventOfChar (Char.ofNat b.toNat)), ⟨post, false⟩) := by
  rw [readKey_cons]
  simp [h1, h2, h3, decodeOne, hb]

/-- Raw ESC is the Esc key unless it starts an escape sequence (`[` or `O` follows). -/
theorem raw_esc (post : Bytes) (e : Bool) (h : post.head? ≠ some 91 ∧ post.head? ≠ some 79) :
    readKey ⟨0x1b :: post, e⟩ = (some ⟨.esc, 0⟩, ⟨post, false⟩) := by
  rw [readKey_cons]
  simp [h.1, h.2, decode_esc]; decide

theorem raw_csi_letter (b : UInt8) (k : KeyCode) (post : Bytes) (e : Bool)
    (hk : (b = 65 ∧ k = .up) ∨ (b = 66 ∧ k = .down) ∨ (b = 67 ∧ k = .right) ∨ (b = 68 ∧ k = .left)) :
    readKey ⟨0x1b :: 91 :: b :: post, e⟩ = (some ⟨k, 0⟩, ⟨post, false⟩) := by
  rw [readKey_cons]
  rcases hk with ⟨rfl, rfl⟩ | ⟨rfl, rfl⟩ | ⟨rfl, rfl⟩ | ⟨rfl, rfl⟩ <;> simp [parseEscSeq]

theorem raw_csi_tilde (d : UInt8) (post : Bytes) (e : Bool) (hd : 49 ≤ d ∧ d ≤ 57) :
    readKey ⟨0x1b :: 91 :: d :: 126 :: post, e⟩ = (some ⟨escDigitsKey [d], 0⟩, ⟨post, false⟩) := by
  have h1 : d ≠ 65 := by intro h; subst h; simp at hd
  have h2 : d ≠ 66 := by intro h; subst h; simp at hd
  have h3 : d ≠ 67 := by intro h; subst h; simp at hd
  have h4 : d ≠ 68 := by intro h; subst h; simp at hd
  rw [readKey_cons]
  simp [parseEscSeq, h1, h2, h3, h4, hd.1, hd.2, escDigits]

/-! ## Alias = raw, in every context -/

/-- The documented pairs: the alias and the raw byte(s) are read as the same key and leave the same
reader behind, for any following bytes (for raw ESC: not followed by `[`/`O`, which would start an
escape sequence). -/
theorem alias_eq_raw_esc (post : Bytes) (h : post.head? ≠ some 91 ∧ post.head? ≠ some 79) :
    readKey ⟨bstr "<esc>" ++ post, false⟩ = readKey ⟨0x1b :: post, false⟩ := by
  rw [raw_esc post false h]
  exact alias_read (bstr "esc") post ⟨.esc, 0⟩ (by decide) (by decide)

theorem alias_eq_raw_enter (post : Bytes) :
    readKey ⟨bstr "<enter>" ++ post, false⟩ = readKey ⟨13 :: post, false⟩ ∧
    readKey ⟨bstr "<return>" ++ post, false⟩ = readKey ⟨13 :: post, false⟩ := by
  rw [raw_control 13 post false (by decide) (by decide) (by decide) (by decide)]
  exact ⟨alias_read (bstr "enter") post ⟨.enter, 0⟩ (by decide) (by decide),
         alias_read (bstr "return") post ⟨.enter, 0⟩ (by decide) (by decide)⟩

theorem alias_eq_raw_bs (post : Bytes) :
    readKey ⟨bstr "<BS>" ++ post, false⟩ = readKey ⟨0x7f :: post, false⟩ ∧
    readKey ⟨bstr "<BS>" ++ post, false⟩ = readKey ⟨8 :: post, false⟩ := by
  rw [raw_control 0x7f post false (by decide) (by decide) (by decide) (by decide),
      raw_control 8 post false (by decide) (by decide) (by decide) (by decide)]
  exact ⟨alias_read (bstr "BS") post ⟨.backspace, 0⟩ (by decide) (by decide),
         alias_read (bstr "BS") post ⟨.backspace, 0⟩ (by decide) (by decide)⟩

theorem alias_eq_raw_arrows (post : Bytes) :
    readKey ⟨bstr "<left>" ++ post, false⟩ = readKey ⟨0x1b :: 91 :: 68 :: post, false⟩ ∧
    readKey ⟨bstr "<right>" ++ post, false⟩ = readKey ⟨0x1b :: 91 :: 67 :: post, false⟩ ∧
    readKey ⟨bstr "<up>" ++ post, false⟩ = readKey ⟨0x1b :: 91 :: 65 :: post, false⟩ ∧
    readKey ⟨bstr "<down>" ++ post, false⟩ = readKey ⟨0x1b :: 91 :: 66 :: post, false⟩ := by
  rw [raw_csi_letter 68 .left post false (by simp), raw_csi_letter 67 .right post false (by simp),
      raw_csi_letter 65 .up post false (by simp), raw_csi_letter 66 .down post false (by simp)]
  exact ⟨alias_read (bstr "left") post ⟨.left, 0⟩ (by decide) (by decide),
         alias_read (bstr "right") post ⟨.right, 0⟩ (by decide) (by decide),
         alias_read (bstr "up") post ⟨.up, 0⟩ (by decide) (by decide),
         alias_read (bstr "down") post ⟨.down, 0⟩ (by decide) (by decide)⟩

theorem alias_eq_raw_nav (post : Bytes) :
    readKey ⟨bstr "<del>" ++ post, false⟩ = readKey ⟨0x1b :: 91 :: 51 :: 126 :: post, false⟩ ∧
    readKey ⟨bstr "<home>" ++ post, false⟩ = readKey ⟨0x1b :: 91 :: 49 :: 126 :: post, false⟩ ∧
    readKey ⟨bstr "<end>" ++ post, false⟩ = readKey ⟨0x1b :: 91 :: 52 :: 126 :: post, false⟩ := by
  rw [raw_csi_tilde 51 post false (by decide), raw_csi_tilde 49 post false (by decide),
      raw_csi_tilde 52 post false (by decide)]
  exact ⟨alias_read (bstr "del") post ⟨.delete, 0⟩ (by decide) (by decide),
         alias_read (bstr "home") post ⟨.home, 0⟩ (by decide) (by decide),
         alias_read (bstr "end") post ⟨.end_, 0⟩ (by decide) (by decide)⟩

/-- `<c-x>` for a letter x is the raw control byte `x & 0x1f` — for every letter whose control byte is
not one of the four bytes that have a key of their own (BS, TAB, CR, ESC). -/
theorem alias_eq_raw_ctrl :
    ∀ n : Fin 26, (n.val + 1 ≠ 8 ∧ n.val + 1 ≠ 9 ∧ n.val + 1 ≠ 13) →
      aliasKey ([99, 45, UInt8.ofNat (97 + n.val)]) = some (keyEventOfChar (Char.ofNat (n.val + 1))) := by
  decide

theorem alias_ctrl_read (n : Fin 26) (post : Bytes) (h : n.val + 1 ≠ 8 ∧ n.val + 1 ≠ 9 ∧ n.val + 1 ≠ 13) :
    readKey ⟨60 :: ([99, 45, UInt8.ofNat (97 + n.val)] ++ 62 :: post), false⟩
      = (some (keyEventOfChar (Char.ofNat (n.val + 1))), ⟨post, false⟩) := by
  apply alias_read _ post _ _ (alias_eq_raw_ctrl n h)
  intro b hb
  simp only [List.mem_cons, List.not_mem_nil, or_false] at hb
  rcases hb with rfl | rfl | rfl
  · decide
  · decide
  · revert n; decide

/-! ## Every key string is consumed, in order -/

theorem escDigits_len : ∀ (bs ds : Bytes), (escDigits bs ds).2.length ≤ bs.length := by
  intro bs
  induction bs with
  | nil => intro ds; simp [escDigits]
  | cons x xs ih2 =>
    intro ds; unfold escDigits
    split
    · simp
    · split
      · have := ih2 (ds ++ [x]); simp only [List.length_cons]; omega
      · simp

theorem parseEscSeq_len (rest : Bytes) : (parseEscSeq rest).2.length ≤ rest.length := by
  unfold parseEscSeq
  split
  · simp
  · rename_i b1 rest1
    split
    · split
      · simp
      · rename_i b2 rest2
        have := escDigits_len rest2 [b2]
        repeat' split
        all_goals (simp only [List.length_cons]; omega)
    · split
      · split
        · simp
        · simp only [List.length_cons]; omega
      · simp only [List.length_cons]; omega

theorem collectKey_len (fuel : Nat) (bs : Bytes) (e : Bool) (col : Bytes) (hne : bs ≠ []) :
    (collectKey fuel bs e col).2.bytes.length < bs.length ∨ fuel = 0 := by
  induction fuel generalizing bs e col with
  | zero => right; rfl
  | succ fuel ih =>
    left
    cases bs with
    | nil => exact absurd rfl hne
    | cons byte rest =>
      unfold collectKey
      simp only
      split
      · rename_i k rest' heq
        -- alias hit: rest' is a suffix of rest
        split at heq
        · simp only [parseByteAlias] at heq
          split at heq
          · exact absurd heq (by simp)
          simp only [Option.map_eq_some_iff] at heq
          obtain ⟨_, _, h2⟩ := heq
          injection h2 with _ h2
          subst h2
          simp only [List.length_drop, List.length_cons]
          have := (List.dropWhile_suffix (l := rest) notGt).length_le
          omega
        · simp at heq
      · split
        · -- escape sequence
          simp only [List.length_cons]
          have : (parseEscSeq rest).2.length ≤ rest.length := parseEscSeq_len rest
          omega
        · split
          · simp
          · split
            · simp
            · cases rest with
              | nil =>
                cases fuel with
                | zero => simp [collectKey]
                | succ f => simp [collectKey]
              | cons r rs =>
                have := ih (r :: rs) (if byte = 92 then !e else false) (col ++ [byte]) (by simp)
                rcases this with h | h
                · simp only [List.length_cons] at h ⊢; omega
                · subst h; simp [collectKey]

/-- `read_key` always makes progress: one call consumes at least one byte (so `exec_loop`
terminates and reaches the end of the string). -/
theorem read_key_consumes (r : Reader) (h : r.bytes ≠ []) :
    (readKey r).2.bytes.length < r.bytes.length := by
  rcases collectKey_len 4 r.bytes r.escaped [] h with h | h
  · exact h
  · omega

/-- Printable ASCII other than `<` and `\` is read character by character, nothing lost, nothing
reordered. -/
theorem plain_ascii_key (b : UInt8) (post : Bytes) (e : Bool) (h : 32 ≤ b ∧ b < 127) (h1 : b ≠ 60) (h2 : b ≠ 92) :
    readKey ⟨b :: post, e⟩ = (some ⟨.char (Char.ofNat b.toNat), 0⟩, ⟨post, false⟩) := by
  have hb : b < 0x80 := by
    have := h.2; exact Nat.lt_trans this (by decide)
  rw [raw_control b post e hb h1 h2 (by intro h3; subst h3; simp at h)]
  have key : ∀ n : Fin 127, 32 ≤ n.val → keyEventOfChar (Char.ofNat n.val) = ⟨.char (Char.ofNat n.val), 0⟩ := by
    decide
  have hlt : b.toNat < 127 := h.2
  have h32 : 32 ≤ b.toNat := h.1
  rw [key ⟨b.toNat, hlt⟩ h32]

/-- Running a mode over key events: whatever the mode does, it only sees the keys. -/
def runKeys {σ : Type} (step : σ → KeyEvent → σ) (s : σ) (bs : Bytes) : σ :=
  (readAll bs).1.foldl step s

/-- **Behaviour follows keys**: two spellings that read as the same keys behave identically in
every mode and on every buffer, for any editor. -/
theorem behaviour_follows_keys {σ : Type} (step : σ → KeyEvent → σ) (s : σ) (a b : Bytes)
    (h : (readAll a).1 = (readAll b).1) : runKeys step s a = runKeys step s b := by
  simp [runKeys, h]

/-! ## Non-vacuity -/

example : (readAll (bstr "d<esc>\\<x<no>" ++ [0xC3, 0xA9])).1
    = [⟨.char 'd', 0⟩, ⟨.esc, 0⟩, ⟨.char '\\', 0⟩, ⟨.char '<', 0⟩, ⟨.char 'x', 0⟩, ⟨.char '<', 0⟩,
       ⟨.char 'n', 0⟩, ⟨.char 'o', 0⟩, ⟨.char '>', 0⟩, ⟨.char 'é', 0⟩] := by decide
example : (readAll (bstr "<c-w>")).1 = (readAll [0x17]).1 := by decide
example : aliasKey (bstr "c-w") = some ⟨.char 'W', 8⟩ := by decide

end Vicut.C15
