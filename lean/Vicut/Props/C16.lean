/-
C16 — ex line commands match line-oriented reference semantics.
The reference (`Model/ExRef.lean`) is the specification; here are the facts a user relies on,
for every text, range and matcher, plus the tie of `$`/`%` to the buffer's line decomposition.
-/
import Vicut.Model.ExRef
import Vicut.Props.C13

namespace Vicut.C16
open Vicut

/-! ## Addresses -/

/-- A resolved line is an existing line. -/
theorem resolveLine_in_range (n cur : Nat) (a : Addr) (i : Nat) (h : resolveLine n cur a = some i) : i < n := by
  unfold resolveLine at h
  split at h
  · injection h with h; omega
  · cases h

/-- A resolved range is ordered and inside the buffer. -/
theorem resolveRange_in_range (n cur : Nat) (a b : Addr) (s e : Nat) (h : resolveRange n cur a b = some (s, e)) :
    s ≤ e ∧ e < n := by
  unfold resolveRange at h
  simp only at h
  split at h
  · injection h with h
    injection h with h1 h2
    omega
  · cases h

/-- **A backwards range addresses the same lines.** -/
theorem range_reversed_same (n cur : Nat) (a b : Addr) : resolveRange n cur a b = resolveRange n cur b a := by
  unfold resolveRange
  simp only [Nat.min_comm, Nat.max_comm]

/-- `$` is the last line, `%` is every line (when the buffer has lines). -/
theorem dollar_is_last (n cur : Nat) (h : 0 < n) : resolveLine n cur .last = some (n - 1) := by
  have he : evalAddr n cur .last = n - 1 := rfl
  have hlt : n - 1 < n := by omega
  unfold resolveLine
  rw [he]
  simp [hlt]

theorem percent_is_all (n cur : Nat) (h : 0 < n) : resolveRange n cur (.num 1) .last = some (0, n - 1) := by
  have h1 : evalAddr n cur (.num 1) = 0 := rfl
  have h2 : evalAddr n cur .last = n - 1 := rfl
  unfold resolveRange
  simp [h1, h2, h]

/-- An address past the end names nothing; a range is clipped. -/
theorem out_of_range_is_nothing (n cur k : Nat) (h : n < k) : resolveLine n cur (.num k) = none := by
  have he : evalAddr n cur (.num k) = k - 1 := rfl
  have hlt : ¬ (k - 1 < n) := by omega
  unfold resolveLine
  rw [he]
  simp [hlt]

theorem range_clipped (n cur a b : Nat) (ha : 1 ≤ a) (hab : a ≤ b) (han : a ≤ n) (hb : n < b) :
    resolveRange n cur (.num a) (.num b) = some (a - 1, n - 1) := by
  have e1 : evalAddr n cur (.num a) = a - 1 := rfl
  have e2 : evalAddr n cur (.num b) = b - 1 := rfl
  have h1 : min (a - 1) (b - 1) = a - 1 := by omega
  have h2 : max (a - 1) (b - 1) = b - 1 := by omega
  have h3 : a - 1 < n := by omega
  have h4 : min (b - 1) (n - 1) = n - 1 := by omega
  unfold resolveRange
  simp [e1, e2, h1, h2, h3, h4]

theorem getLast?_append_ne {α : Type} (xs ys : List α) (h : ys ≠ []) : (xs ++ ys).getLast? = ys.getLast? := by
  induction xs with
  | nil => rfl
  | cons x xs ih =>
    cases hxy : xs ++ ys with
    | nil => simp at hxy; exact absurd hxy.2 h
    | cons z zs => rw [List.cons_append, hxy, List.getLast?_cons_cons, ← hxy, ih]

theorem mem_build (bodies : List (List Gr)) (t : Bool) : ∀ g ∈ C13.build bodies t, g = C13.nl ∨ ∃ b ∈ bodies, g ∈ b := by
  induction bodies with
  | nil => simp [C13.build]
  | cons b rest ih =>
    intro g hg
    cases rest with
    | nil =>
      cases t <;> simp [C13.build] at hg
      · exact Or.inr ⟨b, by simp, hg⟩
      · rcases hg with hg | hg
        · exact Or.inr ⟨b, by simp, hg⟩
        · exact Or.inl hg
    | cons b' rest' =>
      simp only [C13.build, List.mem_append, List.mem_singleton] at hg
      rcases hg with (hg | hg) | hg
      · exact Or.inr ⟨b, by simp, hg⟩
      · exact Or.inl hg
      · rcases ih g hg with h | ⟨x, hx, hgx⟩
        · exact Or.inl h
        · exact Or.inr ⟨x, by simp [hx], hgx⟩

theorem build_flatten_ne_nil (bodies : List (List Gr)) (t : Bool) (hc : C13.Canonical bodies t)
    (hne : ∀ b ∈ bodies, ∀ g ∈ b, g ≠ []) : (C13.build bodies t).flatten ≠ [] := by
  have hlen := C13.off_lt_length bodies t hc 0 (List.length_pos_iff.mpr hc.1)
  cases hbld : C13.build bodies t with
  | nil => rw [hbld] at hlen; simp [C13.off] at hlen
  | cons g gs =>
    have hg : g ≠ [] := by
      rcases mem_build bodies t g (by rw [hbld]; simp) with h | ⟨b, hb, hgb⟩
      · rw [h]; simp [C13.nl]
      · exact hne b hb g hgb
    intro h0
    simp only [List.flatten_cons, List.append_eq_nil_iff] at h0
    exact hg h0.1

theorem last_char_build (bodies : List (List Gr)) (t : Bool) (hb : ∀ b ∈ bodies, C13.Body b)
    (hc : C13.Canonical bodies t) (hne : ∀ b ∈ bodies, ∀ g ∈ b, g ≠ []) :
    (C13.build bodies t).flatten.getLast? = some '\n' ↔ t = true := by
  induction bodies with
  | nil => exact absurd rfl hc.1
  | cons b rest ih =>
    cases rest with
    | nil =>
      cases t with
      | true => simp [C13.build, C13.nl]
      | false =>
        simp only [C13.build, Bool.false_eq_true, ↓reduceIte, iff_false]
        intro h
        have hmem := List.mem_of_getLast? h
        simp only [List.mem_flatten] at hmem
        obtain ⟨g, hg, hn⟩ := hmem
        exact hb b (by simp) g hg hn
    | cons b' rest' =>
      have hc' : C13.Canonical (b' :: rest') t :=
        ⟨by simp, fun ht => by simpa [List.getLast?_cons_cons] using hc.2 ht⟩
      have hne' : ∀ x ∈ b' :: rest', ∀ g ∈ x, g ≠ [] := fun x hx => hne x (by simp [hx])
      have := ih (fun x hx => hb x (by simp [hx])) hc' hne'
      rw [← this]
      simp only [C13.build, List.flatten_append]
      rw [getLast?_append_ne _ _ (build_flatten_ne_nil (b' :: rest') t hc' hne')]

/-- **`$` on the real buffer**: for a buffer with line bodies `bodies`, `last_line_number()` is the
index of the last body — whether or not the last line is terminated. -/
theorem lastLineNumber_build (bodies : List (List Gr)) (t : Bool) (hb : ∀ b ∈ bodies, C13.Body b)
    (hc : C13.Canonical bodies t) (hne : ∀ b ∈ bodies, ∀ g ∈ b, g ≠ []) :
    lastLineNumber (C13.build bodies t) = bodies.length - 1 := by
  unfold lastLineNumber
  rw [C13.totalLines_build bodies t hb hc.1]
  have hpos : 0 < bodies.length := List.length_pos_iff.mpr hc.1
  have hlast := last_char_build bodies t hb hc hne
  cases t with
  | true =>
    have h1 : bodies.length + 1 > 1 := by omega
    simp [hlast.mpr rfl, h1]
  | false =>
    have : ¬ ((C13.build bodies false).flatten.getLast? = some '\n') := fun h => by simpa using hlast.mp h
    simp [this]

/-! ## Substitution, deletion, global -/

theorem replaceRanges_nil (line rep : Str) : replaceRanges line rep [] = line := rfl

/-- One match: the text before it, the replacement, the text after it. -/
theorem replaceRanges_one (line rep : Str) (s e : Nat) :
    replaceRanges line rep [(s, e)] = line.take s ++ rep ++ line.drop e := rfl

/-- No match on a line leaves it alone, with or without `g`. -/
theorem substLine_no_match (rep line : Str) (g : Bool) : substLine rep g [] line = line := by
  cases g <;> rfl

/-- Without `g` only the first match is replaced. -/
theorem substLine_first_only (rep line : Str) (m : Nat × Nat) (ms : List (Nat × Nat)) :
    substLine rep false (m :: ms) line = line.take m.1 ++ rep ++ line.drop m.2 := rfl

theorem mapRange_length (f : Str → Str) (s e : Nat) (ps : List Piece) : (mapRange f s e ps).length = ps.length := by
  simp [mapRange]

/-- **`:s` changes exactly the addressed lines**: a line outside `s ..= e` is untouched, inside it
becomes its substitution; terminators never change. -/
theorem subst_only_addressed (f : Str → Str) (s e : Nat) (ps : List Piece) (i : Nat) (hi : i < ps.length) :
    (mapRange f s e ps)[i]? =
      some (if s ≤ i ∧ i ≤ e then { ps[i] with text := f ps[i].text } else ps[i]) := by
  simp [mapRange, List.getElem?_map, List.getElem?_zip_eq_some, hi]

theorem subst_keeps_terminators (f : Str → Str) (s e : Nat) (ps : List Piece) :
    (mapRange f s e ps).map (·.nl) = ps.map (·.nl) := by
  unfold mapRange
  apply List.ext_getElem
  · simp
  · intro i h1 h2
    simp only [List.getElem_map, List.getElem_zip, List.getElem_range]
    split <;> rfl

/-- **`:d` removes exactly the addressed lines** and keeps the others in order. -/
theorem delete_exact (s e : Nat) (ps : List Piece) (hs : s ≤ e) (he : e < ps.length) :
    (refDelete s e ps).length = ps.length - (e - s + 1) ∧
    refDelete s e ps = ps.take s ++ ps.drop (e + 1) := by
  refine ⟨?_, rfl⟩
  simp [refDelete]; omega

/-- `:y` is the text of the addressed lines with their terminators. -/
theorem yank_is_text (s e : Nat) (ps : List Piece) :
    refYank s e ps = ((ps.drop s).take (e + 1 - s)).flatMap Piece.render := by
  simp [refYank, renderPieces, List.flatMap]

/-- **`:g/pat/d` over the whole buffer** keeps exactly the lines that do not match (`:g!` the ones
that do). -/
theorem global_delete_all (isMatch : Str → Bool) (pol : Bool) (ps : List Piece) :
    refGlobalDelete isMatch pol 0 (ps.length - 1) ps = ps.filter (fun p => !(isMatch p.text == pol)) := by
  unfold refGlobalDelete
  have : ∀ (l : List Piece) (k : Nat), (∀ i, i < l.length → k + i ≤ k + l.length - 1) →
      ((List.range' k l.length).zip l).filterMap (fun (x : Nat × Piece) =>
        if 0 ≤ x.1 ∧ x.1 ≤ k + l.length - 1 ∧ (isMatch x.2.text == pol) then none else some x.2)
        = l.filter (fun p => !(isMatch p.text == pol)) := by
    intro l
    induction l with
    | nil => simp
    | cons p rest ih =>
      intro k _
      have hk : k ≤ k + (rest.length + 1) - 1 := by omega
      have := ih (k + 1) (fun i hi => by omega)
      have heq : k + 1 + rest.length - 1 = k + (rest.length + 1) - 1 := by omega
      rw [heq] at this
      simp only [List.length_cons, List.range'_succ, List.zip_cons_cons, List.filterMap_cons, List.filter_cons]
      rw [this]
      cases hm : (isMatch p.text == pol) <;> simp [hm, hk]
  have h := this ps 0 (fun i hi => by omega)
  simpa [List.range_eq_range'] using h

/-! ## Non-vacuity -/
example : renderPieces [⟨['a'], true⟩, ⟨['b'], false⟩] = "a\nb".toList := by decide
example : refDelete 1 1 [⟨['a'], true⟩, ⟨['b'], true⟩, ⟨['c'], false⟩] = [⟨['a'], true⟩, ⟨['c'], false⟩] := by decide
example : substLine ['X'] true [(0, 1), (2, 3)] "abab".toList = "XbXb".toList := by decide
example : resolveRange 3 0 (.num 3) (.num 1) = some (0, 2) := by decide

end Vicut.C16
