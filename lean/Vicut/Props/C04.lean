/-
C04 — parallel execution never changes the result.
-/
import Vicut.Model.Parallel
import Vicut.Props.C03

namespace Vicut.C04
open Vicut

variable {ρ : Type}

/-- What a unit returns does not depend on the registers it finds on its thread. -/
def RegIndep (exec : ρ → Str → Records × ρ) : Prop := ∀ r r' u, (exec r u).1 = (exec r' u).1

theorem runWorker_indep (exec : ρ → Str → Records × ρ) (h : RegIndep exec) (r r0 : ρ) (us : List (Nat × Str)) :
    runWorker exec r us = us.map (fun p => (p.1, (exec r0 p.2).1)) := by
  induction us generalizing r with
  | nil => rfl
  | cons p rest ih =>
    obtain ⟨i, u⟩ := p
    simp only [runWorker, List.map_cons]
    rw [ih, h r r0 u]

theorem indexFrom_map {α β : Type} (f : α → β) (i : Nat) (xs : List α) :
    (indexFrom i xs).map (fun p => (p.1, f p.2)) = indexFrom i (xs.map f) := by
  induction xs generalizing i with
  | nil => rfl
  | cons x xs ih => simp [indexFrom, ih]

theorem flatten_runWorker (exec : ρ → Str → Records × ρ) (h : RegIndep exec) (r0 : ρ)
    (assign : List (List (Nat × Str))) :
    (assign.map (runWorker exec r0)).flatten = assign.flatten.map (fun p => (p.1, (exec r0 p.2).1)) := by
  induction assign with
  | nil => rfl
  | cons a as ih =>
    simp only [List.map_cons, List.flatten_cons, List.map_append]
    rw [runWorker_indep exec h r0 r0 a, ih]

/-- **Every schedule gives the serial result.** For any assignment of units to workers (any number of
workers, any stealing), any order of completion, and any `execute` whose result does not depend on
the registers it finds: the parallel run returns exactly what `--serial` returns. -/
theorem par_eq_ser (exec : ρ → Str → Records × ρ) (h : RegIndep exec) (r0 : ρ) (units : List Str)
    (assign : List (List (Nat × Str))) (hassign : assign.flatten.Perm (indexFrom 0 units))
    (order : List (Nat × Records) → List (Nat × Records)) (horder : ∀ xs, (order xs).Perm xs) :
    runPar exec r0 assign order = runSer exec r0 units := by
  unfold runPar runSer collectSorted
  have hflat := flatten_runWorker exec h r0 assign
  have hperm : (order ((assign.map (runWorker exec r0)).flatten)).Perm
      (indexFrom 0 (units.map (fun u => (exec r0 u).1))) := by
    refine (horder _).trans ?_
    rw [hflat, ← indexFrom_map (fun u => (exec r0 u).1)]
    exact hassign.map _
  rw [C03.mergeSort_perm_indexFrom _ _ hperm, C03.indexFrom_map_snd,
    runWorker_indep exec h r0 r0, indexFrom_map (fun u => (exec r0 u).1), C03.indexFrom_map_snd]

/-- `execute()` resets the registers first, hence is register-independent — whatever the editor
core does with registers. -/
theorem execute_resetting_indep (core : ρ → Str → Records × ρ) (empty : ρ) :
    RegIndep (executeResetting core empty) := by
  intro r r' u; rfl

/-- **vicut's drivers**: for every schedule, thread count and editor core. -/
theorem par_eq_ser_vicut (core : ρ → Str → Records × ρ) (empty r0 : ρ) (units : List Str)
    (assign : List (List (Nat × Str))) (hassign : assign.flatten.Perm (indexFrom 0 units))
    (order : List (Nat × Records) → List (Nat × Records)) (horder : ∀ xs, (order xs).Perm xs) :
    runPar (executeResetting core empty) r0 assign order = runSer (executeResetting core empty) r0 units :=
  par_eq_ser _ (execute_resetting_indep core empty) r0 units assign hassign order horder

/-- And each unit's records are those of the unit run alone (nothing one unit does is visible to
another). -/
theorem unit_alone (core : ρ → Str → Records × ρ) (empty r0 : ρ) (units : List Str) :
    runSer (executeResetting core empty) r0 units = (units.map (fun u => (core empty u).1)).flatten := by
  unfold runSer
  rw [runWorker_indep _ (execute_resetting_indep core empty) r0 r0,
    indexFrom_map (fun u => (executeResetting core empty r0 u).1), C03.indexFrom_map_snd]
  rfl

/-- Before the fix (`execute` used the registers it found) two schedules could disagree:
`-m P -m yiw` on two lines, one worker vs two. Kernel-checked regression witness. -/
theorem legacy_leak :
    let core : Option Str → Str → Records × Option Str :=
      fun r u => ([[(['1'], (r.getD []) ++ u)]], some u)      -- "put the register, then yank the line"
    let units : List Str := [['a'], ['b']]
    runPar core none [[(0, ['a']), (1, ['b'])]] id ≠ runPar core none [[(0, ['a'])], [(1, ['b'])]] id := by
  simp [runPar, collectSorted, runWorker, keyLe, List.mergeSort, List.MergeSort.Internal.splitInTwo, List.merge]

/-! ## Non-vacuity -/
example : ([[(0, ['a'])], [(1, ['b'])]] : List (List (Nat × Str))).flatten.Perm (indexFrom 0 [['a'], ['b']]) := by
  simp [indexFrom]

end Vicut.C04
