/-
C07 — undo restores the previous text, redo re-applies it.
The machine is parametric in the edits: `UOp.cmd ci after` is *any* command that leaves the buffer
as `after` (any editor, any motion, any text). All statements hold for every history.
-/
import Vicut.Model.Undo

namespace Vicut.C07
open Vicut

/-- Walking down a stack from the current text: the top entry's `new` is the current text, and below
an entry comes the stack for its `old`. (Both stacks have this shape.) -/
def Chain : Str → List UEdit → Prop
  | _, [] => True
  | t, e :: rest => e.new = t ∧ Chain e.old rest

/-- The text at the bottom of a chain: where repeated undo ends. -/
def bottom : Str → List UEdit → Str
  | t, [] => t
  | _, e :: rest => bottom e.old rest

structure Inv (s : UState) : Prop where
  undo : Chain s.text s.undo
  redo : Chain s.text s.redo

theorem chain_stopMerge (t : Str) (us : List UEdit) (h : Chain t us) : Chain t (stopMergeTop us) := by
  cases us with
  | nil => trivial
  | cons e rest => exact h

theorem chain_startMerge (t : Str) (us : List UEdit) (h : Chain t us) : Chain t (startMergeTop us) := by
  cases us with
  | nil => trivial
  | cons e rest => exact h

theorem bottom_stopMerge (t : Str) (us : List UEdit) : bottom t (stopMergeTop us) = bottom t us := by
  cases us <;> rfl

theorem bottom_startMerge (t : Str) (us : List UEdit) : bottom t (startMergeTop us) = bottom t us := by
  cases us <;> rfl

theorem chain_handleEdit (old new : Str) (us : List UEdit) (h : Chain old us) (hne : old ≠ new) :
    Chain new (handleEdit us old new) := by
  have hemp : (old.isEmpty && new.isEmpty) = false := by
    cases old <;> cases new <;> simp_all
  cases us with
  | nil => simp [handleEdit, hemp, Chain]
  | cons e rest =>
    simp only [handleEdit, hemp]
    split
    · exact ⟨rfl, h.2⟩
    · exact ⟨rfl, h⟩

theorem bottom_handleEdit (old new : Str) (us : List UEdit) (h : Chain old us) (hne : old ≠ new) :
    bottom new (handleEdit us old new) = bottom old us := by
  have hemp : (old.isEmpty && new.isEmpty) = false := by
    cases old <;> cases new <;> simp_all
  cases us with
  | nil => simp [handleEdit, hemp, bottom]
  | cons e rest =>
    simp only [handleEdit, hemp]
    split <;> simp [bottom]

theorem chain_cmdUndo (ci : Bool) (us : List UEdit) (t after : Str) (h : Chain t us) :
    Chain after (cmdUndo ci us t after) := by
  unfold cmdUndo
  by_cases heq : t = after
  · subst heq
    cases ci
    · simpa using chain_stopMerge _ _ h
    · simpa using chain_startMerge _ _ h
  · cases ci
    · simpa [heq] using chain_handleEdit _ _ _ (chain_stopMerge _ _ h) heq
    · simpa [heq] using chain_startMerge _ _ (chain_handleEdit _ _ _ h heq)

theorem bottom_cmdUndo (ci : Bool) (us : List UEdit) (t after : Str) (h : Chain t us) :
    bottom after (cmdUndo ci us t after) = bottom t us := by
  unfold cmdUndo
  by_cases heq : t = after
  · subst heq
    cases ci
    · simpa using bottom_stopMerge _ _
    · simpa using bottom_startMerge _ _
  · cases ci
    · simp only [Bool.false_eq_true, ↓reduceIte, heq]
      rw [bottom_handleEdit _ _ _ (chain_stopMerge _ _ h) heq, bottom_stopMerge]
    · simp only [↓reduceIte, heq]
      rw [bottom_startMerge, bottom_handleEdit _ _ _ h heq]

/-- **The invariant is preserved by every operation.** -/
theorem inv_step (s : UState) (op : UOp) (h : Inv s) : Inv (ustep s op) := by
  cases op with
  | cmd ci after =>
    exact ⟨chain_cmdUndo ci s.undo s.text after h.undo, trivial⟩
  | undo =>
    simp only [ustep]
    have h1 := chain_stopMerge _ _ h.undo
    cases hs : stopMergeTop s.undo with
    | nil => exact ⟨by simp [Chain], h.redo⟩
    | cons e rest =>
      rw [hs] at h1
      exact ⟨h1.2, ⟨rfl, by rw [h1.1]; exact h.redo⟩⟩
  | redo =>
    simp only [ustep]
    cases hr : s.redo with
    | nil => exact ⟨chain_stopMerge _ _ h.undo, trivial⟩
    | cons e rest =>
      have h1 := h.redo
      rw [hr] at h1
      exact ⟨⟨rfl, by rw [h1.1]; exact chain_stopMerge _ _ h.undo⟩, h1.2⟩

theorem inv_init (t : Str) : Inv { text := t } := ⟨trivial, trivial⟩

/-- … hence holds after every history. -/
theorem inv_run (s : UState) (ops : List UOp) (h : Inv s) : Inv (urun s ops) := by
  induction ops generalizing s with
  | nil => exact h
  | cons op ops ih => exact ih _ (inv_step s op h)

/-- **`u` restores the text before the most recent undoable change** (= the `old` of the top entry:
for an insert run, the text before the run began). -/
theorem undo_restores (s : UState) (e : UEdit) (rest : List UEdit) (hs : s.undo = e :: rest) :
    (ustep s .undo).text = e.old := by
  simp [ustep, hs, stopMergeTop]

/-- A change that is not merged into an insert run is undone exactly: whatever state `s` the history
led to, after a command that turned `t` into `t' ≠ t` (top entry not merging), `u` gives back `t`. -/
theorem undo_is_previous (s : UState) (after : Str) (hne : s.text ≠ after)
    (hnm : ∀ e rest, s.undo = e :: rest → e.merging = false) :
    (ustep (ustep s (.cmd false after)) .undo).text = s.text := by
  have hemp : (s.text.isEmpty && after.isEmpty) = false := by
    cases hs : s.text <;> cases ha : after <;> simp_all
  cases hu : s.undo with
  | nil => simp [ustep, cmdUndo, hu, hne, handleEdit, hemp, stopMergeTop]
  | cons e rest =>
    have := hnm e rest hu
    simp [ustep, cmdUndo, hu, hne, handleEdit, hemp, stopMergeTop, this]

/-- The same for a change typed as an insert run: all of `c…`/typed characters go at once. -/
theorem undo_insert_run (s : UState) (t1 t2 : Str) (h1 : s.text ≠ t1) (h2 : t1 ≠ t2)
    (hnm : ∀ e rest, s.undo = e :: rest → e.merging = false) :
    (ustep (ustep (ustep s (.cmd true t1)) (.cmd true t2)) .undo).text = s.text := by
  have he1 : (s.text.isEmpty && t1.isEmpty) = false := by
    cases hs : s.text <;> cases ha : t1 <;> simp_all
  have he2 : (t1.isEmpty && t2.isEmpty) = false := by
    cases hs : t1 <;> cases ha : t2 <;> simp_all
  cases hu : s.undo with
  | nil => simp [ustep, cmdUndo, hu, h1, h2, handleEdit, he1, he2, stopMergeTop, startMergeTop]
  | cons e rest =>
    have := hnm e rest hu
    simp [ustep, cmdUndo, hu, h1, h2, handleEdit, he1, he2, stopMergeTop, startMergeTop, this]

/-- **`<c-r>` after `u` returns exactly the text that `u` replaced.** -/
theorem redo_after_undo (s : UState) (hne : s.undo ≠ []) (h : Inv s) :
    (ustep (ustep s .undo) .redo).text = s.text := by
  cases hu : s.undo with
  | nil => exact absurd hu hne
  | cons e rest =>
    have hc := h.undo
    rw [hu] at hc
    simp [ustep, hu, stopMergeTop, hc.1]

theorem bottom_step (s : UState) (op : UOp) (h : Inv s) :
    bottom (ustep s op).text (ustep s op).undo = bottom s.text s.undo := by
  cases op with
  | cmd ci after =>
    exact bottom_cmdUndo ci s.undo s.text after h.undo
  | undo =>
    simp only [ustep]
    cases hs : stopMergeTop s.undo with
    | nil =>
      have : s.undo = [] := by cases hu : s.undo <;> simp_all [stopMergeTop]
      simp [this, bottom]
    | cons e rest =>
      have := bottom_stopMerge s.text s.undo
      rw [hs] at this
      simpa [bottom] using this
  | redo =>
    simp only [ustep]
    cases hr : s.redo with
    | nil => simp [bottom_stopMerge]
    | cons e rest =>
      have h1 := h.redo
      rw [hr] at h1
      simp only [bottom]
      rw [h1.1, bottom_stopMerge]

theorem bottom_run (s : UState) (ops : List UOp) (h : Inv s) :
    bottom (urun s ops).text (urun s ops).undo = bottom s.text s.undo := by
  induction ops generalizing s with
  | nil => rfl
  | cons op ops ih =>
    have := ih (ustep s op) (inv_step s op h)
    simp only [urun, List.foldl_cons] at this ⊢
    rw [this, bottom_step s op h]

def undoN : Nat → UState → UState
  | 0, s => s
  | n + 1, s => undoN n (ustep s .undo)

theorem undoN_all (s : UState) : ∀ n, n = s.undo.length → (undoN n s).text = bottom s.text s.undo := by
  intro n
  induction n generalizing s with
  | zero =>
    intro h
    have : s.undo = [] := List.length_eq_zero_iff.mp h.symm
    simp [undoN, this, bottom]
  | succ n ih =>
    intro h
    cases hu : s.undo with
    | nil => simp [hu] at h
    | cons e rest =>
      simp only [undoN]
      have hstep : ustep s .undo = { text := e.old, undo := rest, redo := { old := e.new, new := e.old } :: s.redo } := by
        simp [ustep, hu, stopMergeTop]
      rw [hstep, ih _ (by simp [hu] at h; simpa using h)]
      simp [bottom]

/-- **Enough `u`s return the original input**, after any history of edits, undos and redos. -/
theorem undos_reach_original (t : Str) (ops : List UOp) :
    (undoN (urun { text := t } ops).undo.length (urun { text := t } ops)).text = t := by
  rw [undoN_all _ _ rfl, bottom_run _ _ (inv_init t)]
  rfl

/-- Every text the machine ever shows was the buffer after some command of the history, or the
original: undo/redo never invent a text. -/
def textsSeen (t : Str) : List UOp → List Str
  | [] => [t]
  | .cmd _ after :: ops => t :: textsSeen after ops   -- (over-approximates: follows the commands only)
  | _ :: ops => textsSeen t ops

def stackTexts (us : List UEdit) : List Str := us.flatMap (fun e => [e.old, e.new])

theorem texts_are_earlier_states (seen : List Str) (s : UState) (op : UOp)
    (ht : s.text ∈ seen) (hu : ∀ x ∈ stackTexts s.undo, x ∈ seen) (hr : ∀ x ∈ stackTexts s.redo, x ∈ seen)
    (hop : ∀ ci after, op = .cmd ci after → after ∈ seen) :
    (ustep s op).text ∈ seen ∧ (∀ x ∈ stackTexts (ustep s op).undo, x ∈ seen) ∧
    (∀ x ∈ stackTexts (ustep s op).redo, x ∈ seen) := by
  have hstop : ∀ x ∈ stackTexts (stopMergeTop s.undo), x ∈ seen := by
    intro x hx
    cases hu' : s.undo with
    | nil => simp [hu', stopMergeTop, stackTexts] at hx
    | cons e rest =>
      rw [hu'] at hx
      apply hu; rw [hu']
      simpa [stopMergeTop, stackTexts] using hx
  cases op with
  | cmd ci after =>
    have ha := hop ci after rfl
    refine ⟨ha, ?_, by simp [ustep, stackTexts]⟩
    simp only [ustep]
    have hhe : ∀ us : List UEdit, (∀ y ∈ stackTexts us, y ∈ seen) →
        ∀ y ∈ stackTexts (handleEdit us s.text after), y ∈ seen := by
      intro us hus y hy
      cases us with
      | nil =>
        simp only [handleEdit] at hy
        split at hy
        · simp [stackTexts] at hy
        · simp [stackTexts] at hy; rcases hy with rfl | rfl <;> assumption
      | cons e rest =>
        simp only [handleEdit] at hy
        have he : e.old ∈ seen ∧ e.new ∈ seen ∧ ∀ z ∈ stackTexts rest, z ∈ seen := by
          refine ⟨hus _ (by simp [stackTexts]), hus _ (by simp [stackTexts]), ?_⟩
          intro z hz; exact hus z (by simp only [stackTexts, List.flatMap_cons, List.mem_append] at hz ⊢; right; exact hz)
        split at hy
        · split at hy
          · exact hus y hy
          · simp only [stackTexts, List.flatMap_cons, List.mem_append, List.mem_cons, List.not_mem_nil, or_false] at hy
            rcases hy with (rfl | rfl) | hy
            · exact he.1
            · exact ha
            · exact he.2.2 y hy
        · split at hy
          · exact hus y hy
          · simp only [stackTexts, List.flatMap_cons, List.mem_append, List.mem_cons, List.not_mem_nil, or_false] at hy
            rcases hy with (rfl | rfl) | (rfl | rfl) | hy
            · exact ht
            · exact ha
            · exact he.1
            · exact he.2.1
            · exact he.2.2 y hy
    have hstart : ∀ us : List UEdit, (∀ y ∈ stackTexts us, y ∈ seen) → ∀ y ∈ stackTexts (startMergeTop us), y ∈ seen := by
      intro us hus y hy
      cases us with
      | nil => simp [startMergeTop, stackTexts] at hy
      | cons e rest => apply hus; simpa [startMergeTop, stackTexts] using hy
    unfold cmdUndo
    by_cases heq : s.text = after
    · cases ci
      · simpa [heq] using hstop
      · simpa [heq] using hstart _ hu
    · cases ci
      · simpa [heq] using hhe _ hstop
      · simpa [heq] using hstart _ (hhe _ hu)
  | undo =>
    simp only [ustep]
    cases hs : stopMergeTop s.undo with
    | nil => exact ⟨ht, by simp [stackTexts], hr⟩
    | cons e rest =>
      have h1 : e.old ∈ seen := hstop _ (by simp [hs, stackTexts])
      have h2 : e.new ∈ seen := hstop _ (by simp [hs, stackTexts])
      refine ⟨h1, ?_, ?_⟩
      · intro x hx; exact hstop x (by rw [hs]; simp [stackTexts] at hx ⊢; right; right; exact hx)
      · intro x hx
        simp [stackTexts] at hx
        rcases hx with rfl | rfl | hx
        · exact h2
        · exact h1
        · exact hr x (by simpa [stackTexts] using hx)
  | redo =>
    simp only [ustep]
    cases hrr : s.redo with
    | nil => exact ⟨ht, hstop, by simp [stackTexts]⟩
    | cons e rest =>
      have h1 : e.old ∈ seen := hr _ (by simp [hrr, stackTexts])
      have h2 : e.new ∈ seen := hr _ (by simp [hrr, stackTexts])
      refine ⟨h1, ?_, ?_⟩
      · intro x hx
        simp [stackTexts] at hx
        rcases hx with rfl | rfl | hx
        · exact h2
        · exact h1
        · exact hstop x (by simpa [stackTexts] using hx)
      · intro x hx; exact hr x (by rw [hrr]; simp [stackTexts] at hx ⊢; right; right; exact hx)

/-- Undo and redo are total: the machine has no failing transition (after fix 307c7cf the code
restores a snapshot instead of splicing a byte range). The pre-fix splice is modelled in
`legacy_undo_out_of_range` as a range check. -/
theorem undo_total (s : UState) (op : UOp) : ∃ s', ustep s op = s' := ⟨_, rfl⟩

/-- Before the fix: `buffer.replace_range(pos..pos+new.len(), old)` with whole-buffer snapshots needs
`pos + new.len() ≤ buffer.len() = new.len()`, i.e. `pos = 0`. Any edit not at byte 0 panicked. -/
theorem legacy_undo_out_of_range (pos newLen : Nat) (hpos : 0 < pos) : ¬ (pos + newLen ≤ newLen) := by
  omega

/-! ## Non-vacuity -/
example : (urun { text := "ab".toList } [.cmd false "b".toList, .cmd true "xb".toList, .cmd true "xyb".toList, .undo]).text
    = "b".toList := by decide
example : Inv (urun { text := "ab".toList } [.cmd false "b".toList, .undo, .redo]) :=
  inv_run _ _ (inv_init _)

end Vicut.C07
