/-
C20 — dot repeats the last change exactly.
`.` and "typing X again" both reduce to a list of commands handed to LineBuf::exec_cmd from the same
state; the theorems show the two lists are equal, for every command content (verbs and motions are
opaque), every count and every history of non-repeatable commands in between. Equality of text,
cursor and registers then follows for *any* editor, by congruence (`same_effect`).
-/
import Vicut.Model.Repeat

namespace Vicut.C20
open Vicut

/-- Running a list of commands through any editor. -/
def runCmds {σ : Type} (exec : σ → RCmd → σ) (s : σ) (cs : List RCmd) : σ := cs.foldl exec s

/-- Equal command lists have equal effects on text, cursor and registers, whatever the editor is. -/
theorem same_effect {σ : Type} (exec : σ → RCmd → σ) (s : σ) (a b : List RCmd) (h : a = b) :
    runCmds exec s a = runCmds exec s b := by rw [h]

/-! ## Single commands -/

/-- **`.` after a repeatable command X executes exactly X** (the command as parsed, register included). -/
theorem dot_repeats_single (rep : Option Replay) (c : RCmd) (hr : c.repeatable = true) :
    dotExecs (recordCmd rep c) 1 = [c] := by
  simp [recordCmd, hr, dotExecs]

/-- **Motions, yanks, searches and failed commands in between do not change what `.` repeats.** -/
theorem between_does_not_matter (rep : Option Replay) (between : List RCmd) (hb : ∀ c ∈ between, c.repeatable = false) :
    between.foldl recordCmd rep = rep := by
  induction between generalizing rep with
  | nil => rfl
  | cons c rest ih =>
    have hc : c.repeatable = false := hb c (by simp)
    have : recordCmd rep c = rep := by simp [recordCmd, hc]
    rw [List.foldl_cons, this]
    exact ih rep (fun c' hc' => hb c' (by simp [hc']))

theorem dot_after_between (rep : Option Replay) (c : RCmd) (hr : c.repeatable = true) (between : List RCmd)
    (hb : ∀ b ∈ between, b.repeatable = false) (n : Nat) :
    dotExecs (between.foldl recordCmd (recordCmd rep c)) n = dotExecs (some (.single c)) n := by
  rw [between_does_not_matter _ between hb]
  simp [recordCmd, hr]

/-- `normalize_counts` is idempotent: a parsed (normalised) command is a fixed point. -/
theorem normalize_idem (c : RCmd) : c.normalize.normalize = c.normalize := by
  unfold RCmd.normalize
  split
  · rename_i h; simp [h]
  · rename_i h
    simp only [not_or] at h
    simp [h.1, h.2.1, h.2.2]

/-- What the parser produces for "X typed with count n": the same verb, motion, register and flags,
count `n` in front, normalised (`ViNormal` calls `normalize_counts` on every parsed command). -/
def typedWithCount (c : RCmd) (n : Nat) : RCmd := c.withCount n

/-- **A count given to `.` acts as if X had been typed with that count**, and replaces X's own count. -/
theorem dot_with_count (c : RCmd) (n : Nat) (hn : n > 1) (hv : c.verb.isSome = true) :
    dotExecs (some (.single c)) n = [typedWithCount c n] := by
  simp [dotExecs, hn, hv, typedWithCount]

/-- The override forgets the old counts: `3.` after `2x` is `3x`, not `6x`. -/
theorem count_replaces (c : RCmd) (m n : Nat) (hm : c.motion.isSome = true) (hv : c.verb.isSome = true)
    (hk : c.kind ≠ .insertMode) :
    (c.withCount m).withCount n = c.withCount n := by
  obtain ⟨reg, kind, verb, vcount, payload, motion, mcount, flags, rp⟩ := c
  cases verb with
  | none => simp at hv
  | some v =>
    cases motion with
    | none => simp at hm
    | some mo =>
      have hk' : (kind == VKind.insertMode) = false := by
        cases kind <;> first | rfl | exact absurd rfl hk
      cases payload <;> simp [RCmd.withCount, RCmd.normalize, hk']

/-- **Chains**: the k dots of `X . . .` execute X k times — `.` itself is never recorded, so what is
repeated stays X. -/
theorem chain (c : RCmd) (k : Nat) :
    (List.replicate k (dotExecs (some (.single c)) 1)).flatten = List.replicate k c := by
  have h : dotExecs (some (.single c)) 1 = [c] := by simp [dotExecs]
  rw [h]
  induction k with
  | zero => rfl
  | succ k ih => simp [List.replicate_succ, ih]

/-! ## Insert and replace sessions -/

theorem splitEntry_cons (e : RCmd) (rest : List RCmd) (he : opens e = true) : splitEntry (e :: rest) = (some e, rest) := by
  simp [splitEntry, he]

theorem splitExit_snoc (typed : List RCmd) (x : RCmd) (hx : closes x = true) : splitExit (typed ++ [x]) = (some x, typed) := by
  simp [splitExit, hx]

/-- **`.` after an insert/replace session replays the session as typed**: the opening command, the
typed text (as many times as the session's count), the closing `<esc>`. -/
theorem dot_repeats_session (entry exit : RCmd) (typed : List RCmd) (reps : Nat)
    (he : opens entry = true) (hx : closes exit = true) :
    dotExecs (recordSession entry typed exit reps) 1 = sessionExecs entry typed exit reps := by
  simp [recordSession, dotExecs, modeExecs, splitEntry_cons entry _ he, splitExit_snoc typed exit hx, sessionExecs]

/-- With a count on an i/a/A/I/o/O/R session: the text is repeated `n` times (the count replaces the
session's own). -/
theorem dot_session_count_insert (entry exit : RCmd) (typed : List RCmd) (reps n : Nat) (hn : n > 1)
    (he : opens entry = true) (hx : closes exit = true) (hc : isChangeEntry (some entry) = false) :
    dotExecs (recordSession entry typed exit reps) n = sessionExecs entry typed exit n := by
  have hd : decide (n > 1) = true := by simpa using hn
  simp [recordSession, dotExecs, modeExecs, splitEntry_cons entry _ he, splitExit_snoc typed exit hx, sessionExecs, hd, hc]

theorem belowEntry_of_change_kind (c : RCmd) (h : c.kind = .change) : belowEntry (some c) = none := by
  simp only [belowEntry, h]
  have : (VKind.change == VKind.lineBreak) = false := by decide
  simp [this]

theorem withCount_kind (c : RCmd) (n : Nat) : (c.withCount n).kind = c.kind := by
  unfold RCmd.withCount RCmd.normalize
  simp only
  split <;> split <;> rfl

theorem kind_of_isChangeEntry (c : RCmd) (h : isChangeEntry (some c) = true) : c.kind = .change := by
  simp only [isChangeEntry, Bool.and_eq_true] at h
  cases hk : c.kind <;> simp [hk] at h <;> first | rfl | (exact absurd h.1 (by decide))

/-- With a count on a change session (cw, s, C, cc …): the count goes to the change's motion, the text
is typed once per the session's own repetition. -/
theorem dot_session_count_change (entry exit : RCmd) (typed : List RCmd) (reps n : Nat) (hn : n > 1)
    (he : opens entry = true) (hx : closes exit = true) (hc : isChangeEntry (some entry) = true) :
    dotExecs (recordSession entry typed exit reps) n = sessionExecs (entry.withCount n) typed exit reps := by
  have hd : decide (n > 1) = true := by simpa using hn
  have hk := kind_of_isChangeEntry entry hc
  have hb1 := belowEntry_of_change_kind entry hk
  have hb2 := belowEntry_of_change_kind (entry.withCount n) (by rw [withCount_kind]; exact hk)
  simp [recordSession, dotExecs, modeExecs, splitEntry_cons entry _ he, splitExit_snoc typed exit hx, sessionExecs, hd, hc, hb1, hb2]

/-- **A counted `o`/`O` session puts every repetition on a line of its own**: after the first, each is
preceded by the command that opens a line below. -/
theorem counted_open_line_session (entry exit : RCmd) (typed : List RCmd) (reps : Nat) (hk : entry.kind = .lineBreak) :
    sessionExecs entry typed exit reps =
      [entry] ++ typed ++ (List.replicate (max reps 1 - 1)
        ({ entry with verb := some "InsertModeLineBreak(After)", vcount := 1 } :: typed)).flatten ++ [exit] := by
  have : (VKind.lineBreak == VKind.lineBreak) = true := by decide
  simp [sessionExecs, rounds, belowEntry, hk, this]

/-- Before the fix the replay was "every recorded command, `reps` times", with no opening command:
`A!<esc>` then `.` re-inserted `!` at the cursor instead of at the end of the line. -/
def dotExecsLegacy (cmds : List RCmd) (reps : Nat) : List RCmd := (List.replicate reps cmds).flatten
/-! ## A change whose motion fails is abandoned, typed or repeated -/

theorem change_beq : (VKind.change == VKind.change) = true := by decide

/-- Where no motion fails the machine with abandonment is the machine without it: every theorem above
carries over. -/
theorem dotExecsA_of_no_failure (rep : Option Replay) (n : Nat) :
    dotExecsA (fun _ => false) rep n = dotExecs rep n := by
  unfold dotExecsA
  cases rep with
  | none => rfl
  | some r =>
    cases r with
    | single c => rfl
    | mode cmds reps =>
      cases h : replayEntry cmds n <;> simp [entryFails, dotExecs, h]

/-- **`.` of a change whose motion fails here hands nothing to the editor** — and neither does typing the
change again (`sessionExecsA`): the two agree, both when the motion fails and when it does not. -/
theorem dot_of_failing_change_does_nothing (fails : RCmd → Bool) (entry exit : RCmd) (typed : List RCmd) (reps : Nat)
    (he : entry.kind = .change) (hx : closes exit = true) (hf : fails entry = true) :
    dotExecsA fails (recordSession entry typed exit reps) 1 = [] ∧ sessionExecsA fails entry typed exit reps = [] := by
  have ho : opens entry = true := by unfold opens; rw [he]; decide
  constructor
  · simp [dotExecsA, entryFails, recordSession, replayEntry, splitEntry_cons entry (typed ++ [exit]) ho, he, hf, change_beq]
  · simp [sessionExecsA, he, hf, change_beq]

theorem dot_of_change_agrees_with_typing (fails : RCmd → Bool) (entry exit : RCmd) (typed : List RCmd) (reps : Nat)
    (he : entry.kind = .change) (hx : closes exit = true) :
    dotExecsA fails (recordSession entry typed exit reps) 1 = sessionExecsA fails entry typed exit reps := by
  have ho : opens entry = true := by unfold opens; rw [he]; decide
  cases hf : fails entry with
  | true =>
    obtain ⟨a, b⟩ := dot_of_failing_change_does_nothing fails entry exit typed reps he hx hf
    rw [a, b]
  | false =>
    have h1 : dotExecsA fails (recordSession entry typed exit reps) 1 = modeExecs (entry :: typed ++ [exit]) reps 1 := by
      simp [dotExecsA, entryFails, recordSession, replayEntry, splitEntry_cons entry (typed ++ [exit]) ho, he, hf, change_beq]
    rw [h1]
    simp only [sessionExecsA, he, hf, Bool.and_false, Bool.false_eq_true, ↓reduceIte]
    have := dot_repeats_session entry exit typed reps ho hx
    simpa [dotExecs, recordSession, sessionExecs] using this

/-- **Failed commands in between do not change what `.` repeats**: commands that are not repeatable, and
repeatable ones whose motion failed, leave the recording as it was. -/
theorem failed_between_does_not_matter (rep : Option Replay) (between : List (RCmd × Bool))
    (hb : ∀ p ∈ between, p.1.repeatable = false ∨ p.2 = true) :
    between.foldl (fun r p => recordCmdF r p.1 p.2) rep = rep := by
  induction between generalizing rep with
  | nil => rfl
  | cons p ps ih =>
    simp only [List.foldl_cons]
    have hp : recordCmdF rep p.1 p.2 = rep := by
      rcases hb p (List.mem_cons_self) with h | h <;> simp [recordCmdF, h]
    rw [hp]
    exact ih rep (fun q hq => hb q (List.mem_cons_of_mem _ hq))

/-- A command that succeeded is recorded as before. -/
theorem recordCmdF_of_success (rep : Option Replay) (c : RCmd) : recordCmdF rep c false = recordCmd rep c := by
  simp [recordCmdF, recordCmd]

theorem legacy_replay_differs :
    let a : RCmd := { kind := .insertMode, verb := some "InsertMode", motion := some "EndOfLine" }
    let t : RCmd := { verb := some "InsertChar('!')", motion := some "ForwardChar" }
    let x : RCmd := { kind := .normalMode, verb := some "NormalMode", motion := some "BackwardChar" }
    dotExecsLegacy [t, x] 1 ≠ sessionExecs a [t] x 1 := by decide

/-! ## Non-vacuity -/
example : dotExecs (some (.single { verb := some "Delete", motion := some "ForwardChar", mcount := 2, repeatable := true })) 3
    = [{ verb := some "Delete", motion := some "ForwardChar", mcount := 3, repeatable := true }] := by decide
example : dotExecs (some (.single { verb := some "ReplaceCharInplace('Z')", payload := some 1, repeatable := true })) 3
    = [{ verb := some "ReplaceCharInplace('Z')", payload := some 3, vcount := 3, repeatable := true }] := by decide

end Vicut.C20
