/-
C08 — edits are local and conserve text.
Frame theorems for the verbs, quantified over *every* motion result (`MK`), every register name
and every buffer: they hold for any motion or text object, present or future, because the motion
engine only enters through the range it produced.
-/
import Vicut.Model.Verbs
import Vicut.Model.Motions
import Vicut.Model.Words
import Vicut.Model.Delims
import Vicut.Props.C09

namespace Vicut.C08
open Vicut

/-- Motions whose operator acts on one contiguous charwise span (everything except the linewise and
blockwise kinds, which have their own theorems below). -/
def MK.spanlike : MK → Bool
  | .blockRange _ => false
  | .line _ => false
  | .lineRange _ _ => false
  | _ => true

theorem drainGs_ok (gs : List Gr) (s e : Nat) (hs : s ≤ e) (he : e ≤ gs.length) :
    drainGs gs s e = .ok (((gs.drop s).take (e - s)).flatten, gs.take s ++ gs.drop e) := by
  have h1 : min e gs.length = e := Nat.min_eq_left he
  have h2 : min s e = s := Nat.min_eq_left hs
  simp [drainGs, h1, h2]

/-- `drain` never fails, whatever range it is given (stale block windows replayed by `.` included). -/
theorem drainGs_total (gs : List Gr) (s e : Nat) : ∃ r, drainGs gs s e = .ok r := ⟨_, rfl⟩

/-- **Delete**: exactly the span `s..e` that `operator_range` hands out is removed — the text outside it
is preserved byte for byte — and exactly the removed text goes to the register (as lines when the span
is linewise). -/
theorem delete_frame (lb : LB) (mk : MK) (reg : RegName) (regs : Regs) (s e : Nat) (lw : Bool)
    (hk : MK.spanlike mk = true) (hr : operatorRange .delete lb mk = some (s, e, lw)) (hs : s ≤ e) (he : e ≤ lb.gs.length) :
    execVerbText .delete mk reg lb regs
      = .ok ⟨(lb.gs.take s).flatten ++ (lb.gs.drop e).flatten,
             writeReg regs reg (if lw then .line ((lb.gs.drop s).take (e - s)).flatten else .span ((lb.gs.drop s).take (e - s)).flatten)⟩ := by
  unfold execVerbText getRegisterContent
  cases mk <;> simp_all [MK.spanlike, MK.isNull, VerbK.takesText, OpK.drains, drainGs_ok lb.gs s e hs he, Except.map, operatorRange, rangeFromMotion] <;> cases lw <;> simp

/-- **Change** removes exactly its own span (for a linewise motion: the lines without the last terminator). -/
theorem change_frame (lb : LB) (mk : MK) (reg : RegName) (regs : Regs) (s e : Nat) (lw : Bool)
    (hk : MK.spanlike mk = true) (hr : operatorRange .change lb mk = some (s, e, lw)) (hs : s ≤ e) (he : e ≤ lb.gs.length) :
    execVerbText .change mk reg lb regs
      = .ok ⟨(lb.gs.take s).flatten ++ (lb.gs.drop e).flatten,
             writeReg regs reg (if lw then .line ((lb.gs.drop s).take (e - s)).flatten else .span ((lb.gs.drop s).take (e - s)).flatten)⟩ := by
  unfold execVerbText getRegisterContent
  cases mk <;> simp_all [MK.spanlike, MK.isNull, VerbK.takesText, OpK.drains, drainGs_ok lb.gs s e hs he, Except.map, operatorRange, rangeFromMotion] <;> cases lw <;> simp

theorem sliceOr_ok (gs : List Gr) (s e : Nat) (hs : s ≤ e) (he : e ≤ gs.length) (hlt : s < gs.length) :
    sliceOr gs s e = ((gs.drop s).take (e - s)).flatten := by
  simp [sliceOr, sliceGs, hs, he, hlt]

/-- **Yank**: the text is untouched and the register receives exactly the covered text. -/
theorem yank_frame (lb : LB) (mk : MK) (reg : RegName) (regs : Regs) (s e : Nat) (lw : Bool)
    (hk : MK.spanlike mk = true) (hr : operatorRange .yank lb mk = some (s, e, lw)) (hs : s ≤ e)
    (he : e ≤ lb.gs.length) (hlt : s < lb.gs.length) :
    execVerbText .yank mk reg lb regs
      = .ok ⟨lb.gs.flatten, writeReg regs reg (if lw then .line ((lb.gs.drop s).take (e - s)).flatten else .span ((lb.gs.drop s).take (e - s)).flatten)⟩ := by
  unfold execVerbText getRegisterContent
  cases mk <;> simp_all [MK.spanlike, MK.isNull, VerbK.takesText, OpK.drains, sliceOr_ok lb.gs s e hs he hlt, Except.map, operatorRange, rangeFromMotion] <;> cases lw <;> simp

/-- A yank never changes the text, whatever the motion. -/
theorem yank_keeps_text (lb : LB) (mk : MK) (reg : RegName) (regs : Regs) (out : VOut)
    (h : execVerbText .yank mk reg lb regs = .ok out) : out.text = lb.gs.flatten := by
  unfold execVerbText at h
  simp only at h
  split at h
  · cases h; rfl
  · cases hg : getRegisterContent .yank lb mk with
    | error e => simp [hg, Except.map] at h
    | ok r => simp [hg, Except.map] at h; rw [← h]

/-- **A delete, change or yank whose motion failed changes neither the text nor any register.** -/
theorem failed_motion_touches_nothing (lb : LB) (reg : RegName) (regs : Regs) :
    execVerbText .delete .null reg lb regs = .ok ⟨lb.gs.flatten, regs⟩ ∧
    execVerbText .change .null reg lb regs = .ok ⟨lb.gs.flatten, regs⟩ ∧
    execVerbText .yank .null reg lb regs = .ok ⟨lb.gs.flatten, regs⟩ := by
  simp [execVerbText, MK.isNull]

/-! ### What `operator_range` may do to the range the motion produced -/

/-- `stop_before_terminator` drops at most one grapheme from the end, and that grapheme is a line
terminator. -/
theorem stopBeforeTerminator_spec (gs : List Gr) (s e : Nat) :
    (stopBeforeTerminator gs s e).1 = s ∧
    ((stopBeforeTerminator gs s e).2 = e ∨
     ((stopBeforeTerminator gs s e).2 = e - 1 ∧ s < e ∧ isNlAtGs gs (e - 1) = true)) := by
  unfold stopBeforeTerminator
  split
  · rename_i h
    simp only [Bool.and_eq_true, decide_eq_true_eq] at h
    exact ⟨rfl, Or.inr ⟨rfl, h.1.1, h.1.2⟩⟩
  · exact ⟨rfl, Or.inl rfl⟩

/-- the final terminator of the buffer is never taken, even when it is all there is on the line -/
example : stopBeforeTerminator [['a'], ['\n'], ['\n']] 2 3 = (2, 2) := by decide
example : stopBeforeTerminator [['a'], ['\n'], ['b']] 0 2 = (0, 1) := by decide
example : stopBeforeTerminator [['\n'], ['\n'], ['b']] 0 1 = (0, 1) := by decide

/-- A yank takes exactly the range of the motion: no adjustment applies to it. -/
theorem operatorRange_yank (lb : LB) (mk : MK) :
    operatorRange .yank lb mk = (rangeFromMotion lb mk).map (fun r => (r.1, r.2, mk.linewise)) := by
  unfold operatorRange
  cases rangeFromMotion lb mk with
  | none => rfl
  | some r => simp [changeEnd, OpK.isChange, OpK.isDelete]

/-- A change takes the range of the motion, except that a linewise change leaves the last terminator. -/
theorem operatorRange_change (lb : LB) (mk : MK) (s e0 : Nat) (h : rangeFromMotion lb mk = some (s, e0)) :
    ∃ e, operatorRange .change lb mk = some (s, e, mk.linewise) ∧
      (e = e0 ∨ (e = e0 - 1 ∧ mk.linewise = true ∧ s < e0 ∧ isNlAtGs lb.gs (e0 - 1) = true)) := by
  unfold operatorRange
  simp only [h]
  refine ⟨changeEnd .change mk.linewise lb.gs s e0, by simp [OpK.isDelete], ?_⟩
  unfold changeEnd
  split
  · rename_i hc
    simp only [Bool.and_eq_true, decide_eq_true_eq, OpK.isChange, and_true] at hc
    exact Or.inr ⟨rfl, hc.1.1, by omega, hc.2⟩
  · exact Or.inl rfl

theorem blanksBack_le (gs : List Gr) (i : Nat) : blanksBack gs i ≤ i := by
  induction i with
  | zero => simp [blanksBack]
  | succ i ih => simp only [blanksBack]; split <;> omega

theorem blanksFwd_ge (gs : List Gr) (f i : Nat) : i ≤ blanksFwd gs f i := by
  induction f generalizing i with
  | zero => simp [blanksFwd]
  | succ f ih => simp only [blanksFwd]; split
                 · have := ih (i + 1); omega
                 · omega

/-- A delete takes at least the range of the motion: promotion to whole lines only ever widens it
(to blanks before it and blanks and one terminator after it). -/
theorem promoteLines_covers (gs : List Gr) (s e : Nat) (lw : Bool) (he : e ≤ gs.length) :
    (promoteLines gs s e lw).1 ≤ s ∧ e ≤ (promoteLines gs s e lw).2.1 := by
  unfold promoteLines
  have := blanksBack_le gs s
  have := blanksFwd_ge gs (gs.length - e + 1) e
  split
  · exact ⟨by simpa, by simp only; omega⟩
  · exact ⟨Nat.le_refl _, Nat.le_refl _⟩

/-- A delete takes at least the range of the motion: promotion to whole lines only ever widens it
(to blanks before it and blanks and one terminator after it). -/
theorem operatorRange_delete_covers (lb : LB) (mk : MK) (s e0 a b : Nat) (lw : Bool)
    (h : rangeFromMotion lb mk = some (s, e0)) (he : e0 ≤ lb.max)
    (hr : operatorRange .delete lb mk = some (a, b, lw)) : a ≤ s ∧ e0 ≤ b := by
  unfold operatorRange at hr
  simp only [h, changeEnd, OpK.isChange, Bool.and_false, Bool.false_and, Bool.false_eq_true, ↓reduceIte] at hr
  split at hr
  · have := promoteLines_covers lb.gs s e0 mk.linewise he
    cases hr' : promoteLines lb.gs s e0 mk.linewise with
    | mk x y =>
      rw [hr'] at hr this
      cases hr
      exact this
  · cases hr
    exact ⟨Nat.le_refl _, Nat.le_refl _⟩

theorem take_min_length {α} (l : List α) (i : Nat) : l.take (min i l.length) = l.take i := by
  by_cases h : i ≤ l.length
  · rw [Nat.min_eq_left h]
  · rw [Nat.min_eq_right (by omega), List.take_of_length_le (Nat.le_refl _), List.take_of_length_le (by omega)]

theorem drop_min_length {α} (l : List α) (i : Nat) : l.drop (min i l.length) = l.drop i := by
  by_cases h : i ≤ l.length
  · rw [Nat.min_eq_left h]
  · rw [Nat.min_eq_right (by omega), List.drop_of_length_le (Nat.le_refl _), List.drop_of_length_le (by omega)]

theorem put_span_frame (lb : LB) (mk : MK) (reg : RegName) (regs : Regs) (after : Bool) (t : Str)
    (hv : reg.valid = true) (ht : regs.get reg.name = .span t) :
    ∃ i, i ≤ lb.gs.length ∧
      execVerbText (.putSpan after) mk reg lb regs
        = .ok ⟨(lb.gs.take i).flatten ++ t ++ (lb.gs.drop i).flatten, regs⟩ := by
  refine ⟨min (putIdx lb after) lb.gs.length, Nat.min_le_right _ _, ?_⟩
  rw [take_min_length, drop_min_length]
  simp [execVerbText, hv, ht]

/-- **`o` / `O`** add exactly one line terminator at a grapheme boundary; the text before and after it is
preserved in order and no register changes. -/
theorem open_line_frame (lb : LB) (mk : MK) (reg : RegName) (regs : Regs) (after : Bool) :
    ∃ i, execVerbText (.openLine after) mk reg lb regs
        = .ok ⟨(lb.gs.take i).flatten ++ ['\n'] ++ (lb.gs.drop i).flatten, regs⟩ :=
  ⟨openLineIdx after lb, rfl⟩

/-- `O` on the first line opens the new line at the very start of the text (it used to type after the new
break), `o` on a one-line buffer that ends in a terminator opens it after that terminator (it used to add a
second one and leave the buffer unterminated). -/
example : execVerbText (.openLine false) .null {} ⟨[['a'], ['\n'], ['b'], ['\n']], 0, false⟩ []
    = .ok ⟨['\n', 'a', '\n', 'b', '\n'], []⟩ := by rfl
example : execVerbText (.openLine true) .null {} ⟨[['a'], ['\n']], 0, false⟩ []
    = .ok ⟨['a', '\n', '\n'], []⟩ := by rfl
example : openLineIdx true ⟨[['a'], ['\n']], 0, false⟩ = 2 := by decide

/-- **One `J`** removes exactly a stretch that starts with the line terminator of the cursor line (followed
only by what `blanksFwd` skipped: the blanks leading the next line) and puts at most one space in its place;
the text before and after is preserved, and the cursor goes to the join. -/
theorem join_frame (lb lb' : LB) (h : joinOnce lb = some lb') :
    ∃ i j, i < j ∧ isNlAtGs lb.gs i = true ∧ lb'.cur = i ∧
      (lb'.gs = lb.gs.take i ++ lb.gs.drop j ∨ lb'.gs = lb.gs.take i ++ [[' ']] ++ lb.gs.drop j) := by
  unfold joinOnce at h
  cases ht : thisLine lb with
  | none => simp [ht] at h
  | some r =>
    obtain ⟨st, en⟩ := r
    simp only [ht] at h
    split at h
    · exact absurd h (by simp)
    · rename_i hc
      simp only [Bool.or_eq_true, beq_iff_eq, decide_eq_true_eq, Bool.not_eq_eq_eq_not, Bool.not_true, not_or,
        Nat.not_le, Bool.not_eq_false] at hc
      obtain ⟨⟨hen, _⟩, hnl⟩ := hc
      have hge := blanksFwd_ge lb.gs (lb.gs.length - en + 1) en
      simp only [Option.some.injEq] at h
      refine ⟨en - 1, blanksFwd lb.gs (lb.gs.length - en + 1) en, by omega, hnl, by rw [← h], ?_⟩
      rw [← h]
      split
      · right; simp
      · left; simp

/-- `[N]J` never fails and only ever shortens the text or keeps its length. -/
example : (joinLines ⟨[['a'], ['\n'], [' '], ['b'], ['\n'], ['c'], ['\n']], 0, true⟩ 2).gs.flatten = ['a', ' ', 'b', ' ', 'c', '\n'] := by decide
example : (joinLines ⟨[['a'], [' '], ['\n'], [')'], ['\n']], 0, true⟩ 1).gs.flatten = ['a', ' ', ')', '\n'] := by decide
example : (joinLines ⟨[['a'], ['\n'], ['\n'], ['b'], ['\n']], 0, true⟩ 1).gs.flatten = ['a', '\n', 'b', '\n'] := by decide
example : joinOnce ⟨[['a'], ['\n']], 0, true⟩ = none := by decide

/-- **Typing a character** inserts exactly that character at the cursor. -/
theorem insert_char_frame (lb : LB) (mk : MK) (reg : RegName) (regs : Regs) (c : Char) :
    execVerbText (.insertChar c) mk reg lb regs
      = .ok ⟨(lb.gs.take lb.cur).flatten ++ [c] ++ (lb.gs.drop lb.cur).flatten, regs⟩ := rfl

/-- An insert session adds exactly the typed text: typing `c₁ … c_k` one after the other, each at the
cursor the previous one left (one further right), yields `before ++ typed ++ after`. -/
theorem insert_session_adds_exactly (before after typed : Str) :
    typed.foldl (fun (acc : Str × Str) c => (acc.1 ++ [c], acc.2)) (before, after)
      = (before ++ typed, after) := by
  induction typed generalizing before with
  | nil => simp
  | cons c cs ih => simp [ih]

/-- **`r<c>`** replaces exactly the grapheme under the cursor (a newline is pushed right instead). -/
theorem replace_char_frame (lb : LB) (mk : MK) (reg : RegName) (regs : Regs) (c : Char) (g : Gr)
    (hg : lb.gs[lb.cur]? = some g) (hn : isNl g = false) :
    execVerbText (.replaceChar c) mk reg lb regs
      = .ok ⟨(lb.gs.take lb.cur).flatten ++ [c] ++ (lb.gs.drop (lb.cur + 1)).flatten, regs⟩ := by
  simp [execVerbText, hg, hn]

/-! ## Case and rot13 operators -/

theorem caseGr_length (op : CaseOp) (g : Gr) : (caseGr op g).length = g.length := by
  unfold caseGr
  split
  · split
    · cases op <;> simp <;> split <;> simp
    · rfl
  · rfl

/-- A case operator changes a grapheme only if it is a single ASCII letter. -/
theorem caseGr_changes_only_letters (op : CaseOp) (g : Gr) (h : caseGr op g ≠ g) :
    ∃ c, g = [c] ∧ (isAsciiLower c = true ∨ isAsciiUpper c = true) := by
  unfold caseGr at h
  split at h
  · rename_i c
    refine ⟨c, rfl, ?_⟩
    split at h
    · cases op
      · simp only at h
        by_cases hl : isAsciiLower c = true
        · exact Or.inl hl
        · right
          simp only [hl, Bool.false_eq_true, ↓reduceIte] at h
          unfold toAsciiLower at h
          by_cases hu : isAsciiUpper c = true
          · exact hu
          · simp [hu] at h
      · simp only at h
        right
        unfold toAsciiLower at h
        by_cases hu : isAsciiUpper c = true
        · exact hu
        · simp [hu] at h
      · simp only at h
        left
        unfold toAsciiUpper at h
        by_cases hl : isAsciiLower c = true
        · exact hl
        · simp [hl] at h
    · exact absurd rfl h
  · exact absurd rfl h

theorem mapRangeGs_length (f : Gr → Gr) (s e : Nat) (gs : List Gr) : (mapRangeGs f s e gs).length = gs.length := by
  simp [mapRangeGs]

/-- **`g~ gu gU`**: graphemes outside the span are untouched; inside, every grapheme keeps its length
(hence the span keeps its length) and only ASCII letters change. -/
theorem case_frame (op : CaseOp) (s e : Nat) (gs : List Gr) (i : Nat) (hi : i < gs.length) :
    (mapRangeGs (caseGr op) s e gs)[i]? =
      some (if s ≤ i ∧ i < e then caseGr op gs[i] else gs[i]) := by
  simp [mapRangeGs, List.getElem?_map, List.getElem?_zip_eq_some, hi]

theorem case_frame_outside (op : CaseOp) (s e : Nat) (gs : List Gr) (i : Nat) (hi : i < gs.length)
    (ho : i < s ∨ e ≤ i) : (mapRangeGs (caseGr op) s e gs)[i]? = some gs[i] := by
  rw [case_frame op s e gs i hi]
  have : ¬ (s ≤ i ∧ i < e) := by omega
  simp [this]

/-- rot13 is an involution on every character, changes letters into letters only, and leaves
everything else alone. -/
theorem rot13_involution_ascii : ∀ n : Fin 128, rot13Char (rot13Char (Char.ofNat n.val)) = Char.ofNat n.val := by
  decide

theorem rot13_non_letter (c : Char) (hl : isAsciiLower c = false) (hu : isAsciiUpper c = false) : rot13Char c = c := by
  simp [rot13Char, hl, hu]

/-- **`g?`**: the text outside the span is preserved; inside, the same number of characters. -/
theorem rot13_frame (lb : LB) (mk : MK) (reg : RegName) (regs : Regs) (s e : Nat)
    (hr : rangeFromMotion lb mk = some (s, e)) (hs : s ≤ e) (he : e ≤ lb.gs.length) (hlt : s < lb.gs.length) :
    execVerbText .rot13 mk reg lb regs
      = .ok ⟨(lb.gs.take s).flatten ++ (((lb.gs.drop s).take (e - s)).flatten.map rot13Char) ++ (lb.gs.drop e).flatten, regs⟩ := by
  have h1 : min s lb.gs.length = s := by omega
  have h2 : (if e < lb.gs.length then e else lb.gs.length) = e := by split <;> omega
  have h3 : ¬ s > e := by omega
  simp [execVerbText, hr, sliceOr_ok lb.gs s e hs he hlt, h1, h2, h3]

/-! ## `~` and `r` with a count -/

theorem toggleAt_length (gs : List Gr) (pos : Nat) (g : Gr) : (toggleAt gs pos g).length = gs.length := by
  unfold toggleAt; split <;> simp

theorem toggleAt_ne (gs : List Gr) (pos : Nat) (g : Gr) (i : Nat) (h : i ≠ pos) : (toggleAt gs pos g)[i]? = gs[i]? := by
  unfold toggleAt; split
  · rw [List.getElem?_set_ne (by omega)]
  · rfl

theorem toggleAt_at (gs : List Gr) (pos : Nat) (g : Gr) (hg : gs[pos]? = some g) :
    (toggleAt gs pos g)[pos]? = some g ∨ (isAsciiLetterGr g = true ∧ (toggleAt gs pos g)[pos]? = some (caseGr .toggle g)) := by
  have hlt : pos < gs.length := by rcases List.getElem?_eq_some_iff.mp hg with ⟨h, _⟩; exact h
  unfold toggleAt; split
  · rename_i hl; right; exact ⟨hl, by simp [hlt]⟩
  · left; exact hg

theorem toggleInplaceGo_length (n pos : Nat) (gs : List Gr) : (toggleInplaceGo n pos gs).length = gs.length := by
  induction n generalizing pos gs with
  | zero => rfl
  | succ k ih =>
    unfold toggleInplaceGo
    split
    · rfl
    · split
      · rfl
      · split
        · exact toggleAt_length _ _ _
        · rw [ih, toggleAt_length]

/-- **`~` (count n)** touches only positions `cur .. cur+n-1`: everything else is the same grapheme. -/
theorem toggleInplaceGo_outside (n pos : Nat) (gs : List Gr) (i : Nat) (ho : i < pos ∨ pos + n ≤ i) :
    (toggleInplaceGo n pos gs)[i]? = gs[i]? := by
  induction n generalizing pos gs with
  | zero => rfl
  | succ k ih =>
    unfold toggleInplaceGo
    split
    · rfl
    · split
      · rfl
      · split
        · exact toggleAt_ne _ _ _ _ (by omega)
        · rw [ih (pos + 1) _ (by omega), toggleAt_ne _ _ _ _ (by omega)]

/-- ... and inside that window a grapheme is either kept or is an ASCII letter with its case toggled
(everything that is not a letter is passed over, not a reason to stop). -/
theorem toggleInplaceGo_inside (n pos : Nat) (gs : List Gr) (i : Nat) (g : Gr) (hg : gs[i]? = some g) :
    (toggleInplaceGo n pos gs)[i]? = some g ∨
      (isAsciiLetterGr g = true ∧ (toggleInplaceGo n pos gs)[i]? = some (caseGr .toggle g)) := by
  induction n generalizing pos gs with
  | zero => exact Or.inl hg
  | succ k ih =>
    unfold toggleInplaceGo
    split
    · exact Or.inl hg
    · rename_i g' hg'
      split
      · exact Or.inl hg
      · by_cases hip : i = pos
        · subst hip
          have hgg : g' = g := by rw [hg] at hg'; exact (Option.some.inj hg').symm
          subst hgg
          split
          · exact toggleAt_at _ _ _ hg
          · rw [toggleInplaceGo_outside k (i + 1) _ i (by omega)]
            exact toggleAt_at _ _ _ hg
        · have hne : (toggleAt gs pos g')[i]? = some g := by rw [toggleAt_ne _ _ _ _ hip]; exact hg
          split
          · left; exact hne
          · exact ih (pos + 1) _ hne

/-- **`~` never touches a line terminator** and never works past one: a terminator at or after the
cursor keeps everything from there on unchanged. -/
theorem toggleInplaceGo_stops_at_terminator (n pos : Nat) (gs : List Gr) (j : Nat) (hj : pos ≤ j)
    (hnl : isNlAtGs gs j = true) (i : Nat) (hi : j ≤ i) : (toggleInplaceGo n pos gs)[i]? = gs[i]? := by
  induction n generalizing pos gs with
  | zero => rfl
  | succ k ih =>
    unfold toggleInplaceGo
    split
    · rfl
    · rename_i g' hg'
      split
      · rfl
      · rename_i hnot
        have hpj : pos ≠ j := by
          intro h; subst h
          simp only [isNlAtGs, hg'] at hnl
          exact hnot hnl
        split
        · exact toggleAt_ne _ _ _ _ (by omega)
        · have hnl' : isNlAtGs (toggleAt gs pos g') j = true := by
            simp only [isNlAtGs, toggleAt_ne gs pos g' j (by omega)] at hnl ⊢; exact hnl
          rw [ih (pos + 1) _ (by omega) hnl', toggleAt_ne _ _ _ _ (by omega)]

theorem replaceAtGs_before (gs : List Gr) (pos : Nat) (c : Char) (i : Nat) (hi : i < pos) (hp : pos ≤ gs.length) :
    (replaceAtGs gs pos c)[i]? = gs[i]? := by
  unfold replaceAtGs
  split
  · rw [List.getElem?_append_left (by omega)]
  · rename_i g hg
    have hlt : pos < gs.length := by
      rcases List.getElem?_eq_some_iff.mp hg with ⟨h, _⟩; exact h
    split
    · rw [List.append_assoc, List.getElem?_append_left (by simp; omega), List.getElem?_take_of_lt hi]
    · rw [List.getElem?_set_ne (by omega)]

theorem replaceAtGs_length (gs : List Gr) (pos : Nat) (c : Char) (hp : pos ≤ gs.length) :
    pos + 1 ≤ (replaceAtGs gs pos c).length := by
  unfold replaceAtGs
  split
  · simp; omega
  · rename_i g hg
    have hlt : pos < gs.length := by
      rcases List.getElem?_eq_some_iff.mp hg with ⟨h, _⟩; exact h
    split <;> simp <;> omega

/-- **`r<c>` (count n)** never touches text before the cursor (the cursor is always inside `0..len`). -/
theorem replaceInplaceGo_before (excl : Bool) (c : Char) (n pos : Nat) (gs : List Gr) (i : Nat) (hi : i < pos)
    (hp : pos ≤ gs.length) :
    (replaceInplaceGo excl c n pos gs)[i]? = gs[i]? := by
  induction n generalizing pos gs with
  | zero => rfl
  | succ k ih =>
    unfold replaceInplaceGo
    by_cases h : k = 0 ∨ pos = (if excl then (replaceAtGs gs pos c).length - 1 else (replaceAtGs gs pos c).length)
    · rw [if_pos h]; exact replaceAtGs_before gs pos c i hi hp
    · rw [if_neg h, ih (pos + 1) _ (by omega) (replaceAtGs_length gs pos c hp)]
      exact replaceAtGs_before gs pos c i hi hp

/-- One `r<c>` on a grapheme that is not a newline: that grapheme becomes `c`, the rest is unchanged. -/
theorem replaceAtGs_frame (gs : List Gr) (pos : Nat) (c : Char) (g : Gr) (hg : gs[pos]? = some g) (hn : isNl g = false) :
    replaceAtGs gs pos c = gs.take pos ++ [[c]] ++ gs.drop (pos + 1) := by
  have hlt : pos < gs.length := by
    rcases List.getElem?_eq_some_iff.mp hg with ⟨h, _⟩; exact h
  have hgg : gs[pos] = g := by
    rcases List.getElem?_eq_some_iff.mp hg with ⟨_, h⟩; exact h
  simp [replaceAtGs, hg, hn, List.set_eq_take_append_cons_drop, hlt, hgg]

/-! ## Non-vacuity -/
example : execVerbText .delete (.exclusive 1 3) {} ⟨[['a'], ['é'], ['c'], ['d']], 1, true⟩ []
    = .ok ⟨['a', 'd'], [(none, .span ['é', 'c'])]⟩ := by rfl
example : (mapRangeGs (caseGr .upper) 0 2 [['a'], ['é'], ['c']]) = [['A'], ['é'], ['c']] := by decide
example : rot13Char 'a' = 'n' ∧ rot13Char 'Z' = 'M' ∧ rot13Char 'é' = 'é' := by decide

end Vicut.C08

/-! # Simple motions feeding the operators
`l` and `h` never cross or land on a line terminator, every position a simple motion produces lies inside
the text, and therefore an operator applied to one gets a range `s ≤ e ≤ len`. -/
namespace Vicut.Motions
open Vicut

/-- **`l`** (normal mode, not selecting): the position reached is at or after the start, inside the text,
no position passed over is a line terminator (the motion never leaves its line), and without an operator
the position reached is not a terminator either unless the cursor did not move. -/
theorem forward_stays_on_line (s : MS) (hn : s.selecting = false) (he : s.excl = true) (v : Bool) (n t : Nat)
    (ht : t ≤ s.max) :
    t ≤ forwardGo s v n t ∧ forwardGo s v n t ≤ s.max ∧
    (∀ i, t ≤ i → i < forwardGo s v n t → s.isNlAt i = false) ∧
    (v = false → forwardGo s v n t ≠ t → s.isNlAt (forwardGo s v n t) = false) := by
  induction n generalizing t with
  | zero => simp [forwardGo]; exact ⟨ht, fun i h1 h2 => absurd h2 (by omega)⟩
  | succ n ih =>
    simp only [forwardGo, hn, he, Bool.not_false, Bool.true_and, ↓reduceIte]
    by_cases h1 : s.isNlAt t = true
    · simp only [h1, ↓reduceIte]
      exact ⟨Nat.le_refl _, ht, fun i a b => absurd b (by omega), fun _ hne => absurd rfl hne⟩
    · simp only [h1, Bool.false_eq_true, ↓reduceIte]
      have h1' : s.isNlAt t = false := by simpa using h1
      by_cases h2 : (!v && s.isNlAt (min (t + 1) s.max)) = true
      · simp only [h2, ↓reduceIte]
        exact ⟨Nat.le_refl _, ht, fun i a b => absurd b (by omega), fun _ hne => absurd rfl hne⟩
      · simp only [h2, Bool.false_eq_true, ↓reduceIte]
        obtain ⟨a, b, c, d⟩ := ih (min (t + 1) s.max) (Nat.min_le_right _ _)
        refine ⟨by omega, b, ?_, ?_⟩
        · intro i hi hip
          by_cases hit : i = t
          · rw [hit]; exact h1'
          · by_cases hlt : t + 1 ≤ s.max
            · have hm : min (t + 1) s.max = t + 1 := Nat.min_eq_left hlt
              exact c i (by omega) hip
            · have hm : min (t + 1) s.max = s.max := Nat.min_eq_right (by omega)
              omega
        · intro hv hne
          by_cases hp : forwardGo s v n (min (t + 1) s.max) = min (t + 1) s.max
          · rw [hp]
            subst hv
            simpa using h2
          · exact d hv hp

/-- **`h`**: the position reached is at or before the start and no position stepped onto is a terminator
(the motion never leaves its line). -/
theorem backward_stays_on_line (s : MS) (n t : Nat) :
    backwardGo s n t ≤ t ∧ ∀ i, backwardGo s n t ≤ i → i < t → s.isNlAt i = false := by
  induction n generalizing t with
  | zero => simp [backwardGo]; intro i h1 h2; omega
  | succ n ih =>
    simp only [backwardGo]
    split
    · exact ⟨Nat.le_refl _, fun i h1 h2 => absurd h2 (by omega)⟩
    · rename_i hc
      have hc' : t ≠ 0 ∧ s.isNlAt (t - 1) = false := by
        constructor
        · intro h; exact hc (Or.inl h)
        · cases hh : s.isNlAt (t - 1) with
          | false => rfl
          | true => exact absurd (Or.inr hh) hc
      obtain ⟨a, c⟩ := ih (t - 1)
      refine ⟨by omega, ?_⟩
      intro i hi hit
      by_cases hm : i = t - 1
      · rw [hm]; exact hc'.2
      · exact c i hi (by omega)

theorem firstWord_in_line (s : MS) (fuel i p : Nat) (h : firstWordGo s fuel i = some p) : i ≤ p ∧ p < s.max := by
  induction fuel generalizing i with
  | zero => simp [firstWordGo] at h
  | succ f ih =>
    simp only [firstWordGo] at h
    split at h
    · exact absurd h (by simp)
    · rename_i hi
      split at h
      · simp at h; subst h; exact ⟨Nat.le_refl _, by omega⟩
      · split at h
        · exact absurd h (by simp)
        · obtain ⟨a, b⟩ := ih (i + 1) h; exact ⟨by omega, b⟩

/-- `gg`/`G` as plain motions: the scan for the first non-blank stays inside its line. -/
theorem skipBlanks_in_line (s : MS) (e f p : Nat) : p ≤ skipBlanks s e f p ∧ (p < e → skipBlanks s e f p < e) := by
  induction f generalizing p with
  | zero => simp [skipBlanks]
  | succ f ih =>
    simp only [skipBlanks]
    split
    · rename_i h
      simp only [Bool.and_eq_true, decide_eq_true_eq] at h
      obtain ⟨a, b⟩ := ih (p + 1)
      exact ⟨by omega, fun _ => b (by omega)⟩
    · exact ⟨Nat.le_refl _, fun h => h⟩

/-- Start and end of the cursor line lie inside the text, around the cursor. -/
theorem thisLine_bounds (s : MS) (hc : s.cur ≤ s.max) (hnl : C09.NlAlone s.gs) :
    s.sol ≤ s.cur ∧ s.cur ≤ s.eol ∧ s.eol ≤ s.max := by
  obtain ⟨a, b, hb, h1, h2, h3, _⟩ := C09.this_line_contains_cursor s.gs s.cur hc
  have hcl : cursorLine s.lb = countNl (s.gs.take s.cur) := C09.cursorLine_eq s.lb hnl
  have : Vicut.thisLine s.lb = some (a, b) := by
    unfold Vicut.thisLine; rw [hcl]; exact hb
  simp only [MS.sol, MS.eol, MS.thisLine, this, Option.getD_some, MS.max]
  exact ⟨h1, h2, h3⟩

/-- **Every position produced by `h l 0 ^ | ` and by `$` (count 1) lies inside the text.** -/
theorem simple_motion_in_bounds (s : MS) (m : SMotion) (count : Nat) (app : Bool) (p : Nat)
    (hc : s.cur ≤ s.max) (hnl : C09.NlAlone s.gs)
    (hm : m = .forwardChar ∨ m = .backwardChar ∨ m = .bol ∨ m = .firstWord ∨ m = .toColumn ∨ (m = .eol ∧ count = 1))
    (h : evalSimple s m count app = .on p) : p ≤ s.max := by
  have hb := thisLine_bounds s hc hnl
  rcases hm with rfl | rfl | rfl | rfl | rfl | ⟨rfl, rfl⟩
  · simp only [evalSimple] at h
    -- bounded whatever the mode: every step is `min (t+1) max`
    have hb' : ∀ n t, t ≤ s.max → forwardGo s app n t ≤ s.max := by
      intro n
      induction n with
      | zero => intro t ht; simpa [forwardGo] using ht
      | succ n ih =>
        intro t ht
        simp only [forwardGo]
        split
        · split
          · exact ht
          · split
            · exact ht
            · exact ih _ (Nat.min_le_right _ _)
        · split
          · exact ht
          · exact ih _ (Nat.min_le_right _ _)
    split at h
    · exact absurd h (by simp)
    · cases h; exact hb' _ _ hc
  · simp only [evalSimple] at h
    split at h
    · exact absurd h (by simp)
    · cases h
      have := (backward_stays_on_line s count s.cur).1; omega
  · simp only [evalSimple] at h; cases h; omega
  · simp only [evalSimple] at h
    split at h
    · rename_i q hq; cases h; have := (firstWord_in_line s _ _ _ hq).2; omega
    · exact absurd h (by simp)
  · simp only [evalSimple] at h; cases h; exact Nat.min_le_right _ _
  · simp only [evalSimple, ↓reduceIte] at h
    split at h
    · split at h <;> (simp at h; omega)
    · split at h <;> (simp at h; omega)

/-- Hence an operator applied to one of these motions gets a range that `drain`/`slice` accept:
`s ≤ e ≤ len` (here for the motions that yield `On p`). -/
theorem operator_range_valid (s : MS) (p : Nat) (hp : p ≤ s.max) (hc : s.cur ≤ s.max) :
    ∃ a b, rangeFromMotion s.lb (.on p) = some (a, b) ∧ a ≤ b ∧ b ≤ s.gs.length := by
  have hord : (ordered s.cur p).1 ≤ (ordered s.cur p).2 ∧ (ordered s.cur p).2 ≤ s.gs.length := by
    unfold ordered; split <;> simp [MS.max] at * <;> omega
  simp only [rangeFromMotion, MS.lb]
  by_cases hgt : p > s.cur
  · simp only [hgt, ↓reduceIte]
    obtain ⟨h1, h2⟩ := Vicut.C08.stopBeforeTerminator_spec s.gs (ordered s.cur p).1 (ordered s.cur p).2
    refine ⟨(stopBeforeTerminator s.gs (ordered s.cur p).1 (ordered s.cur p).2).1,
      (stopBeforeTerminator s.gs (ordered s.cur p).1 (ordered s.cur p).2).2, rfl, ?_, ?_⟩
    · rw [h1]; rcases h2 with h2 | ⟨h2, h3, _⟩ <;> rw [h2] <;> omega
    · rcases h2 with h2 | ⟨h2, _, _⟩ <;> rw [h2] <;> omega
  · simp only [hgt, ↓reduceIte]
    exact ⟨_, _, rfl, hord.1, hord.2⟩

/-! ## Non-vacuity -/
example : evalSimple ⟨[['a'], ['b'], ['\n'], ['c']], 0, true, false, [false, false, true, false]⟩ .forwardChar 5 false = .on 1 := by decide
/-- `3h` in column 1 goes to column 0 (it used to fail); `h` in column 0 fails -/
example : evalSimple ⟨[['x'], ['\n'], ['a'], ['b']], 3, true, false, [false, true, false, false]⟩ .backwardChar 3 false = .on 2 := by decide
example : evalSimple ⟨[['x'], ['\n'], ['a'], ['b']], 2, true, false, [false, true, false, false]⟩ .backwardChar 1 false = .null := by decide
example : evalSimple ⟨[['a'], ['b'], ['\n'], ['c']], 1, true, false, [false, false, true, false]⟩ .forwardChar 1 false = .null := by decide
/-- with an operator (`x`, `dl`) the last character of the line is reached -/
example : evalSimple ⟨[['a'], ['b'], ['\n'], ['c']], 1, true, false, [false, false, true, false]⟩ .forwardChar 1 true = .on 2 := by decide
/-- `2$` on the last line fails; `d$` reaches the terminator -/
example : evalSimple ⟨[['a'], ['b'], ['\n']], 0, true, false, [false, false, true]⟩ .eol 2 false = .null := by decide
example : evalSimple ⟨[['a'], ['b'], ['\n'], ['c']], 0, true, false, [false, false, true, false]⟩ .eol 1 true = .on 2 := by decide
example : evalSimple ⟨[['a'], ['b'], ['\n'], ['c']], 0, true, false, [false, false, true, false]⟩ .forwardChar 1 false = .on 1 := by decide
example : evalSimple ⟨[['a'], ['b'], ['\n'], ['c']], 0, true, false, [false, false, true, false]⟩ .eol 1 false = .on 1 := by decide
example : evalSimple ⟨[['a'], ['b'], ['\n'], ['c']], 0, false, false, [false, false, true, false]⟩ .eol 1 true = .on 2 := by decide

end Vicut.Motions

/-! # Word motions feeding the operators
`w W` never move backwards and land on a non-blank grapheme or at the end of the text, `b B` never move
forwards, and every position a word motion produces lies inside the text. -/
namespace Vicut.Words
open Vicut

theorem findUp_spec (p : Nat → Bool) (it hi r : Nat) (h : findUp p it hi = some r) :
    it ≤ r ∧ r < hi ∧ p r = true := by
  unfold findUp at h
  have hm := List.mem_of_find?_eq_some h
  have hp := List.find?_some h
  rw [List.mem_range'_1] at hm
  exact ⟨hm.1, by omega, hp⟩

theorem findDown_spec (p : Nat → Bool) (k r : Nat) (h : findDown p k = some r) : r < k ∧ p r = true := by
  unfold findDown at h
  have hm := List.mem_of_find?_eq_some h
  have hp := List.find?_some h
  rw [List.mem_reverse, List.mem_range] at hm
  exact ⟨hm, hp⟩

/-- **`w` / `W` never move backwards** and stay inside the text. -/
theorem startFwd_ge (s : WS) (pos : Nat) (big incl : Bool) (hp : pos ≤ s.len) :
    pos ≤ startFwd s pos big incl ∧ startFwd s pos big incl ≤ s.len := by
  unfold startFwd
  split
  · omega
  · rename_i hlt
    have hlt' : pos < s.len := by omega
    cases big <;> simp only [Bool.false_eq_true, ↓reduceIte]
    · split
      · split
        · omega
        · rename_i o ho
          have := findUp_spec _ _ _ _ ho
          split
          · omega
          · cases hf : findUp (fun i => !s.ws i) (o + 1) s.len with
            | none => simp; omega
            | some q => have := findUp_spec _ _ _ _ hf; simp; omega
      · cases hf : findUp (fun i => !s.ws i) pos s.len with
        | none => simp; omega
        | some q => have := findUp_spec _ _ _ _ hf; simp; omega
    · split
      · split
        · omega
        · cases hf : findUp (fun i => !s.ws i) (pos + 1) s.len with
          | none => simp; omega
          | some q => have := findUp_spec _ _ _ _ hf; simp; omega
      · split
        · omega
        · rename_i w hw
          have := findUp_spec _ _ _ _ hw
          split
          · omega
          · cases hf : findUp (fun i => !s.ws i) (w + 1) s.len with
            | none => simp; omega
            | some q => have := findUp_spec _ _ _ _ hf; simp; omega

/-- **`w` / `W` (as a motion, not `cw`) land on a non-blank grapheme, or at the end of the text.** -/
theorem startFwd_lands (s : WS) (pos : Nat) (big : Bool) :
    startFwd s pos big false = s.len ∨ s.ws (startFwd s pos big false) = false := by
  unfold startFwd
  split
  · exact Or.inl rfl
  · cases big <;> simp only [Bool.false_eq_true, ↓reduceIte, Bool.or_false]
    · split
      · split
        · exact Or.inl rfl
        · rename_i o ho
          split
          · rename_i hno; right; simpa using hno
          · cases hf : findUp (fun i => !s.ws i) (o + 1) s.len with
            | none => left; simp
            | some q => right; have := (findUp_spec _ _ _ _ hf).2.2; simpa using this
      · cases hf : findUp (fun i => !s.ws i) pos s.len with
        | none => left; simp
        | some q => right; have := (findUp_spec _ _ _ _ hf).2.2; simpa using this
    · split
      · cases hf : findUp (fun i => !s.ws i) (pos + 1) s.len with
        | none => left; simp
        | some q => right; have := (findUp_spec _ _ _ _ hf).2.2; simpa using this
      · split
        · exact Or.inl rfl
        · rename_i w hw
          cases hf : findUp (fun i => !s.ws i) (w + 1) s.len with
          | none => left; simp
          | some q => right; have := (findUp_spec _ _ _ _ hf).2.2; simpa using this

/-- **`b` / `B` never move forwards.** -/
theorem findDown_lt (p : Nat → Bool) (k : Nat) : ∀ r, findDown p k = some r → r < k := fun r h => (findDown_spec p k r h).1

theorem startBwd_le (s : WS) (pos : Nat) (big : Bool) (hp : pos ≤ s.len) : startBwd s pos big ≤ pos := by
  unfold startBwd
  cases big <;> simp only [Bool.false_eq_true, ↓reduceIte]
  · -- normal words
    split
    · omega
    · cases hb : (decide (pos > 0) && !s.ws pos && s.otherOrWs (pos - 1) (s.c pos)) <;>
        simp only [Bool.false_eq_true, ↓reduceIte]
      · -- not on a boundary: p1 = pos, k1 = pos
        cases hw : s.ws pos <;> simp only [Bool.false_eq_true, ↓reduceIte]
        · cases hf : findDown (fun i => s.otherOrWs i (s.c pos)) pos with
          | none => simp
          | some w => have := findDown_lt _ _ _ hf; simp only; omega
        · cases hj : findDown (fun i => !s.ws i) pos with
          | none => simp
          | some j =>
            have hjl := findDown_lt _ _ _ hj
            simp only [Option.map_some]
            cases hf : findDown (fun i => s.otherOrWs i (s.c j)) j with
            | none => simp
            | some w => have := findDown_lt _ _ _ hf; simp only; omega
      · cases hw : s.ws (pos - 1) <;> simp only [Bool.false_eq_true, ↓reduceIte]
        · cases hf : findDown (fun i => s.otherOrWs i (s.c (pos - 1))) (pos - 1) with
          | none => simp
          | some w => have := findDown_lt _ _ _ hf; simp only; omega
        · cases hj : findDown (fun i => !s.ws i) (pos - 1) with
          | none => simp
          | some j =>
            have hjl := findDown_lt _ _ _ hj
            simp only [Option.map_some]
            cases hf : findDown (fun i => s.otherOrWs i (s.c j)) j with
            | none => simp
            | some w => have := findDown_lt _ _ _ hf; simp only; omega
  · -- big words
    cases hb : (decide (pos > 0) && s.ws (pos - 1)) <;> simp only [Bool.false_eq_true, ↓reduceIte]
    · split
      · omega
      · cases hw : s.ws pos <;> simp only [Bool.false_eq_true, ↓reduceIte]
        · cases hf : findDown (fun i => s.ws i) pos with
          | none => simp
          | some w => have := findDown_lt _ _ _ hf; simp only; split <;> omega
        · cases hj : findDown (fun i => !s.ws i) pos with
          | none => simp
          | some j =>
            have hjl := findDown_lt _ _ _ hj
            simp only
            cases hf : findDown (fun i => s.ws i) j with
            | none => simp
            | some w => have := findDown_lt _ _ _ hf; simp only; split <;> omega
    · split
      · omega
      · cases hw : s.ws (pos - 1) <;> simp only [Bool.false_eq_true, ↓reduceIte]
        · cases hf : findDown (fun i => s.ws i) (pos - 1) with
          | none => simp
          | some w => have := findDown_lt _ _ _ hf; simp only; split <;> omega
        · cases hj : findDown (fun i => !s.ws i) (pos - 1) with
          | none => simp
          | some j =>
            have hjl := findDown_lt _ _ _ hj
            simp only
            cases hf : findDown (fun i => s.ws i) j with
            | none => simp
            | some w => have := findDown_lt _ _ _ hf; simp only; split <;> omega

/-- Every position a word motion produces lies inside the text (`ge` as an operator motion yields an
ordered range inside the text). -/
theorem evalWord_in_bounds (s : WS) (cur : Nat) (k : WKind) (big : Bool) (count : Nat) (change sel : Bool) (hc : cur ≤ s.len) :
    evalWord s cur k big count change sel = .null ∨
    (∃ p, evalWord s cur k big count change sel = .on p ∧ p ≤ s.len) ∨
    (∃ p, evalWord s cur k big count change sel = .onto p ∧ p ≤ s.len) ∨
    (∃ a b, evalWord s cur k big count change sel = .inclusive a b ∧ a ≤ b ∧ b ≤ s.len) := by
  unfold evalWord
  split
  · exact Or.inl rfl
  · right
    cases k
    · exact Or.inl ⟨_, rfl, Nat.min_le_right _ _⟩
    · exact Or.inr (Or.inl ⟨_, rfl, Nat.min_le_right _ _⟩)
    · exact Or.inl ⟨_, rfl, Nat.min_le_right _ _⟩
    · cases sel
      · refine Or.inr (Or.inr ⟨_, _, rfl, ?_, ?_⟩)
        · unfold ordered; split <;> simp <;> omega
        · have := Nat.min_le_right (dispatchWord s WKind.endBwd big (change && WKind.endBwd == WKind.startFwd) count cur) s.len
          unfold ordered; split <;> simp <;> omega
      · exact Or.inl ⟨_, rfl, Nat.min_le_right _ _⟩

/-- `b`, `B`, `ge`, `gE` on the first grapheme of the buffer fail. -/
theorem backward_word_at_start_fails (s : WS) (big : Bool) (count : Nat) (change sel : Bool) :
    evalWord s 0 .startBwd big count change sel = .null ∧ evalWord s 0 .endBwd big count change sel = .null := by
  constructor <;> simp [evalWord, WKind.backward]

/-! ## Non-vacuity: "ab  cd.e" classes -/
example : startFwd ⟨[2, 2, 1, 1, 2, 2, 0, 2]⟩ 0 false false = 4 := by decide
example : startFwd ⟨[2, 2, 1, 1, 2, 2, 0, 2]⟩ 4 false false = 6 := by decide
example : startFwd ⟨[2, 2, 1, 1, 2, 2, 0, 2]⟩ 4 true false = 8 := by decide
example : endFwd ⟨[2, 2, 1, 1, 2, 2, 0, 2]⟩ 0 false = 1 := by decide
example : startBwd ⟨[2, 2, 1, 1, 2, 2, 0, 2]⟩ 5 false = 4 := by decide
example : evalWord ⟨[2, 2, 1, 1, 2, 2, 0, 2]⟩ 0 .startFwd false 1 true = .on 2 := by decide

end Vicut.Words

/-! # Character search, cursor placement after a motion, word text objects -/
namespace Vicut.Motions
open Vicut

/-- **`f<c>`** lands on an occurrence of the character (or fails). -/
theorem f_lands_on_char (s : MS) (ch : Gr) (p : Nat)
    (h : evalCharSearch s true false ch 1 = .onto p) : s.gs[p]? = some ch := by
  unfold evalCharSearch at h
  split at h
  · rename_i q hq
    simp only [charSearchTarget, Bool.false_eq_true, Bool.false_and, Bool.and_false, ↓reduceIte] at h
    cases h
    simp only [charSearchGo, ↓reduceIte, Bool.false_eq_true] at hq
    split at hq
    · exact absurd hq (by simp)
    · rename_i i hi
      simp at hq
      have hp := List.find?_some hi
      have hp' : s.gs[i]? = some ch := by simpa using hp
      have hil : i < s.gs.length := by
        rcases List.getElem?_eq_some_iff.mp hp' with ⟨h1, _⟩; exact h1
      have hmin : min i (if s.excl = true then s.max - 1 else s.max) = i := by
        unfold MS.max; split <;> omega
      rw [hmin] at hq
      subst hq
      exact hp'
  · exact absurd h (by simp)

/-- **`F<c>`** lands on an occurrence of the character, to the left of the cursor (or fails). -/
theorem F_lands_on_char (s : MS) (ch : Gr) (p : Nat)
    (h : evalCharSearch s false false ch 1 = .onto p) : s.gs[p]? = some ch ∧ p < s.cur := by
  unfold evalCharSearch at h
  split at h
  · rename_i q hq
    simp only [charSearchTarget, Bool.false_eq_true, Bool.false_and, Bool.and_false, ↓reduceIte] at h
    cases h
    simp only [charSearchGo, Bool.false_eq_true, ↓reduceIte] at hq
    split at hq
    · exact absurd hq (by simp)
    · rename_i i hi
      simp at hq
      have hm := List.mem_of_find?_eq_some hi
      have hp := List.find?_some hi
      rw [List.mem_reverse, List.mem_range'_1] at hm
      have hp' : s.gs[i]? = some ch := by simpa using hp
      have hil : i < s.gs.length := by
        rcases List.getElem?_eq_some_iff.mp hp' with ⟨h1, _⟩; exact h1
      have hmin : min i (if s.excl = true then s.max - 1 else s.max) = i := by
        unfold MS.max; split <;> omega
      rw [hmin] at hq
      subst hq
      exact ⟨hp', by omega⟩
  · exact absurd h (by simp)

/-- `F` sees the character immediately before the cursor (it did not before fix 602f313). -/
example : evalCharSearch ⟨[['a'], ['b']], 1, true, false, []⟩ false false ['a'] 1 = .onto 0 := by decide
example : evalCharSearch ⟨[['a'], ['x'], ['b']], 2, true, false, []⟩ false false ['a'] 1 = .onto 0 := by decide
/-- `2ta` stops before the second occurrence (it used to stop before the first). -/
example : evalCharSearch ⟨[['a'], ['b'], ['a'], ['c'], ['a']], 0, true, false, []⟩ true true ['a'] 2 = .onto 3 := by decide
/-- `dta` with the `a` right after the cursor takes the cursor grapheme (it used to take nothing). -/
example : evalCharSearch ⟨[['x'], ['a'], ['\n']], 0, true, false, []⟩ true true ['a'] 1 true = .inclusive 0 0 := by decide
/-- `fa` does not leave the cursor line. -/
example : evalCharSearch ⟨[['x'], ['\n'], ['a']], 0, true, false, []⟩ true false ['a'] 1 = .null := by decide

end Vicut.Motions

namespace Vicut.Motions
open Vicut

theorem clampTo_le (v len : Nat) (excl : Bool) : clampTo v len excl ≤ (if excl then len - 1 else len) := Nat.min_le_right _ _

/-- **A motion command leaves the cursor under its clamp**, whatever `MotionKind` the motion engine
produced (in range or not), provided it was under the clamp before. -/
theorem moveCursor_under_clamp (s : MS) (mk : MK) (sc : Option Nat) (hc : s.cur ≤ (if s.excl then s.max - 1 else s.max)) :
    moveCursor s mk sc ≤ (if s.excl then s.max - 1 else s.max) := by
  unfold moveCursor
  cases mk with
  | to p =>
    simp only
    split
    · have := clampTo_le p s.max s.excl; omega
    · exact clampTo_le _ _ _
  | on p => exact clampTo_le _ _ _
  | onto p => exact clampTo_le _ _ _
  | inclusive a b => exact clampTo_le _ _ _
  | exclusive a b => exact clampTo_le _ _ _
  | line n => simp only; split <;> first | exact clampTo_le _ _ _ | exact hc
  | lineRange a b => simp only; split <;> first | exact clampTo_le _ _ _ | exact hc
  | lineOffset k =>
    simp only
    split <;> (split <;> first | exact clampTo_le _ _ _ | (split <;> first | exact clampTo_le _ _ _ | exact hc))
  | blockRange ws => simp only; split <;> first | exact clampTo_le _ _ _ | exact hc
  | inclTarget a b c => exact clampTo_le _ _ _
  | exclTarget a b c => exact clampTo_le _ _ _
  | lines l => exact hc
  | null => exact hc

/-- ... and, after the epilogue, never on the terminator of a non-empty line under the exclusive clamp. -/
theorem cursorAfterMotion_ok (s : MS) (mk : MK) (sc : Option Nat) (hc : s.cur ≤ (if s.excl then s.max - 1 else s.max)) :
    cursorAfterMotion s mk sc ≤ (if s.excl then s.max - 1 else s.max) ∧
    (s.excl = true → ¬ (s.isNlAt (cursorAfterMotion s mk sc) = true ∧ cursorAfterMotion s mk sc > 0 ∧
        s.isNlAt (cursorAfterMotion s mk sc - 1) = false)) := by
  have hm := moveCursor_under_clamp s mk sc hc
  unfold cursorAfterMotion
  simp only
  split
  · rename_i hcond
    simp only [Bool.and_eq_true, decide_eq_true_eq, Bool.not_eq_true'] at hcond
    refine ⟨by omega, fun _ h => ?_⟩
    -- we stepped onto v-1, which is not a newline
    have := hcond.2
    rw [this] at h
    exact absurd h.1 (by simp)
  · rename_i hcond
    refine ⟨hm, fun he h => hcond ?_⟩
    simp only [Bool.and_eq_true, decide_eq_true_eq, Bool.not_eq_true']
    exact ⟨⟨⟨he, h.1⟩, h.2.1⟩, h.2.2⟩

end Vicut.Motions

namespace Vicut.Words
open Vicut

/-- **`e` / `E` never move backwards** and stay inside the text. -/
theorem endFwd_ge (s : WS) (pos : Nat) (big : Bool) (hp : pos ≤ s.len) : pos ≤ endFwd s pos big ∧ endFwd s pos big ≤ s.len := by
  unfold endFwd
  split
  · omega
  · split
    · omega
    · cases big <;> simp only [Bool.false_eq_true, ↓reduceIte]
      · -- normal words
        cases hb : (!s.ws pos && s.otherOrWs (pos + 1) (s.c pos)) <;> simp only [Bool.false_eq_true, ↓reduceIte]
        · cases hw : s.ws pos <;> simp only [Bool.false_eq_true, ↓reduceIte]
          · cases hf : findUp (fun i => s.otherOrWs i (s.c pos)) (pos + 1) s.len with
            | none => simp; omega
            | some w => have := findUp_spec _ _ _ _ hf; simp only; omega
          · cases hj : findUp (fun i => !s.ws i) (pos + 1) s.len with
            | none => simp; omega
            | some j =>
              have hjs := findUp_spec _ _ _ _ hj
              simp only [Option.map_some]
              cases hf : findUp (fun i => s.otherOrWs i (s.c j)) (j + 1) s.len with
              | none => simp; omega
              | some w => have := findUp_spec _ _ _ _ hf; simp only; omega
        · cases hw : s.ws (pos + 1) <;> simp only [Bool.false_eq_true, ↓reduceIte]
          · cases hf : findUp (fun i => s.otherOrWs i (s.c (pos + 1))) (pos + 2) s.len with
            | none => simp; omega
            | some w => have := findUp_spec _ _ _ _ hf; simp only; omega
          · cases hj : findUp (fun i => !s.ws i) (pos + 2) s.len with
            | none => simp; omega
            | some j =>
              have hjs := findUp_spec _ _ _ _ hj
              simp only [Option.map_some]
              cases hf : findUp (fun i => s.otherOrWs i (s.c j)) (j + 1) s.len with
              | none => simp; omega
              | some w => have := findUp_spec _ _ _ _ hf; simp only; omega
      · -- big words
        cases hb : (!s.ws pos && s.ws (pos + 1)) <;> simp only [Bool.false_eq_true, ↓reduceIte]
        · cases hw : s.ws pos <;> simp only [Bool.false_eq_true, ↓reduceIte]
          · cases hf : findUp (fun i => s.ws i) (pos + 1) s.len with
            | none => simp; omega
            | some w => have := findUp_spec _ _ _ _ hf; simp only; omega
          · cases hj : findUp (fun i => !s.ws i) (pos + 1) s.len with
            | none => simp; omega
            | some j =>
              have hjs := findUp_spec _ _ _ _ hj
              simp only [Option.map_some]
              cases hf : findUp (fun i => s.ws i) (j + 1) s.len with
              | none => simp; omega
              | some w => have := findUp_spec _ _ _ _ hf; simp only; omega
        · cases hw : s.ws (pos + 1) <;> simp only [Bool.false_eq_true, ↓reduceIte]
          · cases hf : findUp (fun i => s.ws i) (pos + 2) s.len with
            | none => simp; omega
            | some w => have := findUp_spec _ _ _ _ hf; simp only; omega
          · cases hj : findUp (fun i => !s.ws i) (pos + 2) s.len with
            | none => simp; omega
            | some j =>
              have hjs := findUp_spec _ _ _ _ hj
              simp only [Option.map_some]
              cases hf : findUp (fun i => s.ws i) (j + 1) s.len with
              | none => simp; omega
              | some w => have := findUp_spec _ _ _ _ hf; simp only; omega

theorem wkind_lt (s : WS) (big : Bool) (i k : Nat) (h : wkind s big i = some k) : i < s.len := by
  unfold wkind at h
  cases hc : s.cls[i]? with
  | none => simp [hc] at h
  | some c => rcases List.getElem?_eq_some_iff.mp hc with ⟨h1, _⟩; exact h1

theorem runStart_spec (s : WS) (big : Bool) (k p : Nat) :
    runStart s big k p ≤ p ∧ ∀ i, runStart s big k p ≤ i → i < p → wkind s big i = some k := by
  induction p with
  | zero => exact ⟨Nat.le_refl _, fun i _ h => absurd h (by omega)⟩
  | succ p ih =>
    simp only [runStart]
    split
    · rename_i hk
      refine ⟨by omega, ?_⟩
      intro i h1 h2
      by_cases hip : i = p
      · rw [hip]; simpa using hk
      · exact ih.2 i h1 (by omega)
    · exact ⟨Nat.le_refl _, fun i h1 h2 => absurd h2 (by omega)⟩

theorem runEnd_spec (s : WS) (big : Bool) (k f e : Nat) :
    e ≤ runEnd s big k f e ∧ ∀ i, e < i → i ≤ runEnd s big k f e → wkind s big i = some k := by
  induction f generalizing e with
  | zero => exact ⟨Nat.le_refl _, fun i h1 h2 => absurd h2 (by simp [runEnd]; omega)⟩
  | succ f ih =>
    simp only [runEnd]
    split
    · rename_i hk
      obtain ⟨a, b⟩ := ih (e + 1)
      refine ⟨by omega, ?_⟩
      intro i h1 h2
      by_cases hie : i = e + 1
      · rw [hie]; simpa using hk
      · exact b i (by omega) h2
    · exact ⟨Nat.le_refl _, fun i h1 h2 => absurd h2 (by omega)⟩

/-- **A word run**: it contains the position, lies inside the text, and every grapheme of it has the kind
of the grapheme at the position — in particular no line terminator is in it. -/
theorem wordRun_spec (s : WS) (big : Bool) (pos a b : Nat) (h : wordRun s big pos = some (a, b)) :
    a ≤ pos ∧ pos ≤ b ∧ b < s.len ∧ ∀ i, a ≤ i → i ≤ b → wkind s big i = wkind s big pos := by
  unfold wordRun at h
  cases hk : wkind s big pos with
  | none => simp [hk] at h
  | some k =>
    simp only [hk, Option.some.injEq, Prod.mk.injEq] at h
    obtain ⟨h1, h2⟩ := h
    have rs := runStart_spec s big k pos
    have re := runEnd_spec s big k (s.len - pos) pos
    rw [h1] at rs; rw [h2] at re
    have hall : ∀ i, a ≤ i → i ≤ b → wkind s big i = some k := by
      intro i hi hib
      by_cases hlt : i < pos
      · exact rs.2 i hi hlt
      · by_cases heq : i = pos
        · rw [heq]; exact hk
        · exact re.2 i (by omega) hib
    exact ⟨rs.1, re.1, wkind_lt s big b k (hall b (by omega) (Nat.le_refl _)), hall⟩

/-- **`iw` / `iW`**: exactly one run of graphemes of the cursor's kind, around the cursor, on its line. -/
theorem iw_is_one_run (s : WS) (cur : Nat) (big : Bool) (a b : Nat) (h : textObjWord s cur big false = some (a, b)) :
    a ≤ cur ∧ cur ≤ b ∧ b < s.len ∧ ∀ i, a ≤ i → i ≤ b → wkind s big i = wkind s big cur := by
  unfold textObjWord at h
  cases hr : wordRun s big cur with
  | none => simp [hr] at h
  | some r =>
    obtain ⟨x, y⟩ := r
    simp only [hr, Bool.not_false, ↓reduceIte, Option.some.injEq, Prod.mk.injEq] at h
    obtain ⟨h1, h2⟩ := h
    subst h1; subst h2
    exact wordRun_spec s big cur _ _ hr

/-- **`iw` / `aw` / `iW` / `aW` contain the cursor** and both ends are graphemes of the text. -/
theorem textObjWord_contains_cursor (s : WS) (cur : Nat) (big around : Bool) (a b : Nat)
    (h : textObjWord s cur big around = some (a, b)) : a ≤ cur ∧ cur ≤ b ∧ b < s.len := by
  unfold textObjWord at h
  cases hr : wordRun s big cur with
  | none => simp [hr] at h
  | some r =>
    obtain ⟨st, en⟩ := r
    obtain ⟨c1, c2, c3, _⟩ := wordRun_spec s big cur st en hr
    simp only [hr] at h
    split at h
    · cases h; exact ⟨c1, c2, c3⟩
    · split at h
      · cases hr2 : wordRun s big (en + 1) with
        | none => simp [hr2] at h
        | some r2 =>
          obtain ⟨x, e2⟩ := r2
          obtain ⟨_, d2, d3, _⟩ := wordRun_spec s big (en + 1) x e2 hr2
          simp only [hr2, Option.some.injEq, Prod.mk.injEq] at h
          obtain ⟨h1, h2⟩ := h; subst h1; subst h2
          exact ⟨c1, by omega, d3⟩
      · split at h
        · cases hr2 : wordRun s big (en + 1) with
          | none => simp only [hr2] at h; cases h; exact ⟨c1, c2, c3⟩
          | some r2 =>
            obtain ⟨x, e2⟩ := r2
            obtain ⟨_, d2, d3, _⟩ := wordRun_spec s big (en + 1) x e2 hr2
            simp only [hr2, Option.some.injEq, Prod.mk.injEq] at h
            obtain ⟨h1, h2⟩ := h; subst h1; subst h2
            exact ⟨c1, by omega, d3⟩
        · split at h
          · cases hr2 : wordRun s big (st - 1) with
            | none => simp only [hr2] at h; cases h; exact ⟨c1, c2, c3⟩
            | some r2 =>
              obtain ⟨rs, y⟩ := r2
              obtain ⟨d1, _, _, _⟩ := wordRun_spec s big (st - 1) rs y hr2
              simp only [hr2] at h
              split at h
              · cases h; exact ⟨by omega, c2, c3⟩
              · cases h; exact ⟨c1, c2, c3⟩
          · cases h; exact ⟨c1, c2, c3⟩

/-- **`aw` covers `iw`**: the around-object is the inside-object plus blanks (and, on blanks, the next word). -/
theorem aw_covers_iw (s : WS) (cur : Nat) (big : Bool) (a b c d : Nat)
    (ha : textObjWord s cur big true = some (a, b)) (hi : textObjWord s cur big false = some (c, d)) :
    a ≤ c ∧ d ≤ b := by
  unfold textObjWord at ha hi
  cases hr : wordRun s big cur with
  | none => simp [hr] at hi
  | some r =>
    obtain ⟨st, en⟩ := r
    simp only [hr, Bool.not_false, ↓reduceIte, Option.some.injEq, Prod.mk.injEq] at hi
    obtain ⟨h1, h2⟩ := hi
    subst h1; subst h2
    simp only [hr, Bool.not_true, Bool.false_eq_true, ↓reduceIte] at ha
    split at ha
    · cases hr2 : wordRun s big (en + 1) with
      | none => simp [hr2] at ha
      | some r2 =>
        obtain ⟨x, e2⟩ := r2
        obtain ⟨_, d2, _, _⟩ := wordRun_spec s big (en + 1) x e2 hr2
        simp only [hr2, Option.some.injEq, Prod.mk.injEq] at ha
        obtain ⟨h1, h2⟩ := ha; subst h1; subst h2
        exact ⟨Nat.le_refl _, by omega⟩
    · split at ha
      · cases hr2 : wordRun s big (en + 1) with
        | none => simp only [hr2] at ha; cases ha; exact ⟨Nat.le_refl _, Nat.le_refl _⟩
        | some r2 =>
          obtain ⟨x, e2⟩ := r2
          obtain ⟨_, d2, _, _⟩ := wordRun_spec s big (en + 1) x e2 hr2
          simp only [hr2, Option.some.injEq, Prod.mk.injEq] at ha
          obtain ⟨h1, h2⟩ := ha; subst h1; subst h2
          exact ⟨Nat.le_refl _, by omega⟩
      · split at ha
        · cases hr2 : wordRun s big (st - 1) with
          | none => simp only [hr2] at ha; cases ha; exact ⟨Nat.le_refl _, Nat.le_refl _⟩
          | some r2 =>
            obtain ⟨rs, y⟩ := r2
            obtain ⟨d1, _, _, _⟩ := wordRun_spec s big (st - 1) rs y hr2
            simp only [hr2] at ha
            split at ha
            · cases ha; exact ⟨by omega, Nat.le_refl _⟩
            · cases ha; exact ⟨Nat.le_refl _, Nat.le_refl _⟩
        · cases ha; exact ⟨Nat.le_refl _, Nat.le_refl _⟩

/-- `daw` on "foo bar baz" with the cursor in `bar` takes "bar " (it used to take "ba"). -/
example : textObjWord ⟨[2, 2, 2, 1, 2, 2, 2, 1, 2, 2, 2, 4]⟩ 5 false true = some (4, 7) := by decide
/-- on the last word there are no blanks after it: the blanks before it are taken -/
example : textObjWord ⟨[2, 2, 2, 1, 2, 2, 2, 4]⟩ 5 false true = some (3, 6) := by decide
/-- but not the indent of the line -/
example : textObjWord ⟨[1, 1, 2, 2, 4]⟩ 2 false true = some (2, 3) := by decide
/-- `iw` on blanks is the blanks; a word does not run across a line terminator -/
example : textObjWord ⟨[2, 1, 1, 2, 4, 2]⟩ 1 false false = some (1, 2) := by decide
example : textObjWord ⟨[2, 2, 4, 2, 2]⟩ 1 false false = some (0, 1) := by decide
example : textObjWord ⟨[2, 4, 4, 2]⟩ 1 false false = none := by decide

end Vicut.Words

/-! # Whole-line commands, put and `r` after the line-end repairs -/
namespace Vicut.LineEnd
open Vicut

/-- **`dd` / `yy` / `cc` always have a line to work on**: with a count of one, `select_lines_down` is the
cursor line, also on the last line of the buffer (it used to fail there). -/
theorem whole_line_count_one (s : MS) : s.selectLinesDown 0 = some (s.sol, s.eol) := by
  simp [MS.selectLinesDown]

/-- A count larger than one fails exactly on the last line. -/
theorem whole_line_count_fails_on_last (s : MS) (n : Nat) (hn : n > 0) (hl : s.eol = s.max) :
    s.selectLinesDown n = none := by
  unfold MS.selectLinesDown
  have : ¬ n = 0 := by omega
  simp [this, hl]

/-- **`p` on an empty line (or in an empty buffer) inserts where the cursor is**, otherwise right after
the cursor grapheme; `P` always inserts at the cursor. -/
theorem putIdx_spec (lb : LB) :
    putIdx lb false = lb.cur ∧
    (endsLineAt lb.gs lb.cur = true → putIdx lb true = lb.cur) ∧
    (endsLineAt lb.gs lb.cur = false → putIdx lb true = lb.cur + 1) := by
  refine ⟨by simp [putIdx], ?_, ?_⟩ <;> intro h <;> simp [putIdx, h]

/-- `p` never inserts after a line terminator that the cursor is on, so the put text stays on the cursor's
line: the grapheme before the insertion point of `p` is the cursor grapheme, and it is not a terminator. -/
theorem put_after_stays_on_line (lb : LB) (h : putIdx lb true = lb.cur + 1) : isNlAtGs lb.gs lb.cur = false := by
  unfold putIdx at h
  split at h
  · rename_i hc
    simp only [Bool.and_eq_true, Bool.not_eq_eq_eq_not, Bool.not_true, true_and] at hc
    unfold endsLineAt at hc
    unfold isNlAtGs
    cases hg : lb.gs[lb.cur]? with
    | none => rfl
    | some g => simpa [hg] using hc
  · omega

/-- **`[n]r<c>` with fewer than `n` graphemes left on the line changes nothing.** -/
theorem replace_past_line_end_is_noop (lb : LB) (mk : MK) (reg : RegName) (regs : Regs) (c : Char) (n : Nat)
    (h : n > leftOnLine lb.gs (lb.gs.length - lb.cur) lb.cur) :
    execVerbText (.replaceInplace c n) mk reg lb regs = .ok ⟨lb.gs.flatten, regs⟩ := by
  simp [execVerbText, h]

/-- `left_on_line`: the graphemes it counts are all on the line (none is a terminator). -/
theorem leftOnLine_spec (gs : List Gr) (f i : Nat) :
    ∀ k, k < leftOnLine gs f i → isNlAtGs gs (i + k) = false ∧ i + k < gs.length := by
  induction f generalizing i with
  | zero => intro k hk; simp [leftOnLine] at hk
  | succ f ih =>
    intro k hk
    simp only [leftOnLine] at hk
    cases hg : gs[i]? with
    | none => simp [hg] at hk
    | some g =>
      simp only [hg] at hk
      split at hk
      · omega
      · rename_i hnl
        cases k with
        | zero =>
          refine ⟨?_, ?_⟩
          · simp only [isNlAtGs, Nat.add_zero, hg]; simpa using hnl
          · rcases List.getElem?_eq_some_iff.mp hg with ⟨h1, _⟩; simpa using h1
        | succ k =>
          have := ih (i + 1) k (by omega)
          have e : i + (k + 1) = i + 1 + k := by omega
          rw [e]; exact this

example : leftOnLine [['a'], ['b'], ['\n'], ['c']] 4 0 = 2 := by decide
example : putIdx ⟨[['a'], ['\n'], ['\n'], ['b']], 2, true⟩ true = 2 := by decide
example : putIdx ⟨[['a'], ['\n'], ['\n'], ['b']], 0, true⟩ true = 1 := by decide

end Vicut.LineEnd

/-! # Paragraph motions `}` and `{` -/
namespace Vicut.Paragraph
open Vicut

/-- **One step never passes the edges and never turns round**: going forward the line number does not
decrease and stays at or below the last line; going backward it does not increase. -/
theorem paraLoop_range (gs : List Gr) (last : Nat) (fwd : Bool) (left f curr : Nat) (ds first : Bool) (r : Nat)
    (hc : curr ≤ last) (h : paraLoop gs last fwd left f curr ds first = some r) :
    r ≤ last ∧ (fwd = true → curr ≤ r) ∧ (fwd = false → r ≤ curr) := by
  induction f generalizing curr ds first with
  | zero => simp [paraLoop] at h; subst h; exact ⟨hc, fun _ => Nat.le_refl _, fun _ => Nat.le_refl _⟩
  | succ f ih =>
    simp only [paraLoop] at h
    split at h
    · cases h; exact ⟨hc, fun _ => Nat.le_refl _, fun _ => Nat.le_refl _⟩
    · split at h
      · split at h
        · exact absurd h (by simp)
        · cases h; exact ⟨hc, fun _ => Nat.le_refl _, fun _ => Nat.le_refl _⟩
      · rename_i hedge
        cases fwd with
        | true =>
          simp only [Bool.true_and, Bool.not_true, Bool.false_and, Bool.or_false, beq_iff_eq] at hedge
          simp only [↓reduceIte] at h
          obtain ⟨a, b, c⟩ := ih (curr + 1) _ _ (by omega) h
          exact ⟨a, fun _ => by have := b rfl; omega, fun hf => absurd hf (by simp)⟩
        | false =>
          simp only [Bool.false_and, Bool.not_false, Bool.true_and, Bool.false_or, beq_iff_eq] at hedge
          simp only [Bool.false_eq_true, ↓reduceIte] at h
          obtain ⟨a, b, c⟩ := ih (curr - 1) _ _ (by omega) h
          exact ⟨a, fun hf => absurd hf (by simp), fun _ => by have := c rfl; omega⟩

/-- **`}` never goes up and `{` never goes down**, however many steps, and the line reached exists. -/
theorem paraGo_range (gs : List Gr) (last : Nat) (fwd : Bool) (count curr r : Nat) (hc : curr ≤ last)
    (h : paraGo gs last fwd count curr = some r) :
    r ≤ last ∧ (fwd = true → curr ≤ r) ∧ (fwd = false → r ≤ curr) := by
  induction count generalizing curr with
  | zero => simp [paraGo] at h; subst h; exact ⟨hc, fun _ => Nat.le_refl _, fun _ => Nat.le_refl _⟩
  | succ k ih =>
    simp only [paraGo] at h
    cases hl : paraLoop gs last fwd k (last + 2) curr false true with
    | none => simp [hl] at h
    | some c =>
      simp only [hl] at h
      obtain ⟨a1, b1, c1⟩ := paraLoop_range gs last fwd k (last + 2) curr false true c hc hl
      obtain ⟨a2, b2, c2⟩ := ih c a1 h
      exact ⟨a2, fun hf => Nat.le_trans (b1 hf) (b2 hf), fun hf => Nat.le_trans (c2 hf) (c1 hf)⟩

/-- A step that stops before the edge stops on an empty line. -/
theorem paraLoop_stops_on_empty (gs : List Gr) (last : Nat) (fwd : Bool) (left f curr : Nat) (ds first : Bool) (r : Nat)
    (h : paraLoop gs last fwd left f curr ds first = some r) (hf : f > last + 1 - (if fwd then curr else last - curr))
    (hc : curr ≤ last) (hne : (fwd = true → r ≠ last) ∧ (fwd = false → r ≠ 0)) : lineEmpty gs r = true := by
  induction f generalizing curr ds first with
  | zero => omega
  | succ f ih =>
    simp only [paraLoop] at h
    split at h
    · rename_i hstop
      cases h
      simp only [Bool.and_eq_true] at hstop
      exact hstop.2
    · split at h
      · rename_i hedge
        split at h
        · exact absurd h (by simp)
        · cases h
          cases fwd with
          | true =>
            simp only [Bool.true_and, Bool.not_true, Bool.false_and, Bool.or_false, beq_iff_eq] at hedge
            exact absurd hedge (hne.1 rfl)
          | false =>
            simp only [Bool.false_and, Bool.not_false, Bool.true_and, Bool.false_or, beq_iff_eq] at hedge
            exact absurd hedge (hne.2 rfl)
      · rename_i hedge
        cases fwd with
        | true =>
          simp only [Bool.true_and, Bool.not_true, Bool.false_and, Bool.or_false, beq_iff_eq] at hedge
          simp only [↓reduceIte] at h hf
          exact ih (curr + 1) _ _ h (by simp only [↓reduceIte]; omega) (by omega)
        | false =>
          simp only [Bool.false_and, Bool.not_false, Bool.true_and, Bool.false_or, beq_iff_eq] at hedge
          simp only [Bool.false_eq_true, ↓reduceIte] at h hf
          exact ih (curr - 1) _ _ h (by simp only [Bool.false_eq_true, ↓reduceIte]; omega) (by omega)

/-- "aa", "", "bb", "cc", "", "dd": `}` from the first line stops on the empty line 1, twice on line 4, three
times on the last line, and four times fails; `{` from line 3 stops on line 1. -/
example : paraGo [['a'], ['a'], ['\n'], ['\n'], ['b'], ['b'], ['\n'], ['c'], ['c'], ['\n'], ['\n'], ['d'], ['d'], ['\n']] 5 true 1 0 = some 1 := by decide
example : paraGo [['a'], ['a'], ['\n'], ['\n'], ['b'], ['b'], ['\n'], ['c'], ['c'], ['\n'], ['\n'], ['d'], ['d'], ['\n']] 5 true 2 0 = some 4 := by decide
example : paraGo [['a'], ['a'], ['\n'], ['\n'], ['b'], ['b'], ['\n'], ['c'], ['c'], ['\n'], ['\n'], ['d'], ['d'], ['\n']] 5 true 3 0 = some 5 := by decide
example : paraGo [['a'], ['a'], ['\n'], ['\n'], ['b'], ['b'], ['\n'], ['c'], ['c'], ['\n'], ['\n'], ['d'], ['d'], ['\n']] 5 true 4 0 = none := by decide
example : paraGo [['a'], ['a'], ['\n'], ['\n'], ['b'], ['b'], ['\n'], ['c'], ['c'], ['\n'], ['\n'], ['d'], ['d'], ['\n']] 5 false 1 3 = some 1 := by decide
example : evalParagraph ⟨[['a'], ['a'], ['\n'], ['\n'], ['b'], ['\n']], 1, true, false, []⟩ true 1 true = .on 3 := by decide
example : evalParagraph ⟨[['a'], ['a'], ['\n'], ['\n'], ['b'], ['\n']], 1, true, false, []⟩ true 2 true = .onto 4 := by decide

end Vicut.Paragraph

/-! # Paragraph objects `ip` and `ap` -/
namespace Vicut.ParaObj
open Vicut

theorem runUp_spec (p : PL) (k : Bool) (i : Nat) :
    p.runUp k i ≤ i ∧ ∀ j, p.runUp k i ≤ j → j < i → p.b j = k := by
  induction i with
  | zero => exact ⟨Nat.le_refl _, fun j _ h => absurd h (by omega)⟩
  | succ i ih =>
    simp only [PL.runUp]
    split
    · rename_i hk
      refine ⟨by omega, ?_⟩
      intro j h1 h2
      by_cases hji : j = i
      · rw [hji]; simpa using hk
      · exact ih.2 j h1 (by omega)
    · exact ⟨Nat.le_refl _, fun j h1 h2 => absurd h2 (by omega)⟩

theorem runDown_spec (p : PL) (k : Bool) (f l : Nat) :
    l ≤ p.runDown k f l ∧ (l ≤ p.last → p.runDown k f l ≤ p.last) ∧
    ∀ j, l < j → j ≤ p.runDown k f l → p.b j = k := by
  induction f generalizing l with
  | zero => exact ⟨Nat.le_refl _, fun h => h, fun j h1 h2 => absurd h2 (by simp [PL.runDown]; omega)⟩
  | succ f ih =>
    simp only [PL.runDown]
    split
    · rename_i hc
      simp only [Bool.and_eq_true, decide_eq_true_eq, beq_iff_eq] at hc
      obtain ⟨a, b, c⟩ := ih (l + 1)
      refine ⟨by omega, fun _ => b (by omega), ?_⟩
      intro j h1 h2
      by_cases hj : j = l + 1
      · rw [hj]; exact hc.2
      · exact c j (by omega) h2
    · exact ⟨Nat.le_refl _, fun h => h, fun j h1 h2 => absurd h2 (by omega)⟩

theorem extend_spec (p : PL) (l l' : Nat) (hl : l ≤ p.last) (h : p.extend l = some l') : l < l' ∧ l' ≤ p.last := by
  unfold PL.extend at h
  split at h
  · exact absurd h (by simp)
  · rename_i hne
    simp only [beq_iff_eq] at hne
    cases h
    obtain ⟨a, b, _⟩ := runDown_spec p (p.b (l + 1)) (p.last - l) (l + 1)
    exact ⟨by omega, b (by omega)⟩

theorem moreRuns_spec (p : PL) (k l l' : Nat) (hl : l ≤ p.last) (h : p.moreRuns k l = some l') : l ≤ l' ∧ l' ≤ p.last := by
  induction k generalizing l with
  | zero => simp [PL.moreRuns] at h; subst h; exact ⟨Nat.le_refl _, hl⟩
  | succ k ih =>
    simp only [PL.moreRuns] at h
    cases he : p.extend l with
    | none => simp [he] at h
    | some l1 =>
      simp only [he] at h
      obtain ⟨a, b⟩ := extend_spec p l l1 hl he
      obtain ⟨c, d⟩ := ih l1 b h
      exact ⟨by omega, d⟩

theorem moreParas_spec (p : PL) (ob : Bool) (k l l' : Nat) (hl : l ≤ p.last) (h : p.moreParas ob k l = some l') :
    l ≤ l' ∧ l' ≤ p.last := by
  induction k generalizing l with
  | zero => simp [PL.moreParas] at h; subst h; exact ⟨Nat.le_refl _, hl⟩
  | succ k ih =>
    simp only [PL.moreParas] at h
    cases he : p.extend l with
    | none => simp [he] at h
    | some l1 =>
      simp only [he] at h
      obtain ⟨a, b⟩ := extend_spec p l l1 hl he
      split at h
      · split at h
        · cases he2 : p.extend l1 with
          | none => simp [he2] at h
          | some l2 =>
            simp only [he2] at h
            obtain ⟨a2, b2⟩ := extend_spec p l1 l2 b he2
            obtain ⟨c, d⟩ := ih l2 b2 h
            exact ⟨by omega, d⟩
        · obtain ⟨c, d⟩ := ih l1 b h
          exact ⟨by omega, d⟩
      · split at h
        · cases he2 : p.extend l1 with
          | none =>
            simp only [he2, Option.getD_none] at h
            obtain ⟨c, d⟩ := ih l1 b h
            exact ⟨by omega, d⟩
          | some l2 =>
            simp only [he2, Option.getD_some] at h
            obtain ⟨a2, b2⟩ := extend_spec p l1 l2 b he2
            obtain ⟨c, d⟩ := ih l2 b2 h
            exact ⟨by omega, d⟩
        · obtain ⟨c, d⟩ := ih l1 b h
          exact ⟨by omega, d⟩

/-- **`ip` / `ap` (any count) are whole lines around the cursor line**, inside the buffer. -/
theorem textObj_contains_cursor_line (p : PL) (cur count : Nat) (around : Bool) (a b : Nat)
    (h : p.textObj cur count around = some (a, b)) : a ≤ min cur p.last ∧ min cur p.last ≤ b ∧ b ≤ p.last := by
  unfold PL.textObj at h
  have hc : min cur p.last ≤ p.last := Nat.min_le_right _ _
  have ru := runUp_spec p (p.b (min cur p.last)) (min cur p.last)
  have rd := runDown_spec p (p.b (min cur p.last)) (p.last - min cur p.last) (min cur p.last)
  have hl : p.runDown (p.b (min cur p.last)) (p.last - min cur p.last) (min cur p.last) ≤ p.last := rd.2.1 hc
  simp only at h
  split at h
  · -- ip
    cases hm : p.moreRuns (count - 1) (p.runDown (p.b (min cur p.last)) (p.last - min cur p.last) (min cur p.last)) with
    | none => simp [hm] at h
    | some l =>
      simp only [hm, Option.map_some, Option.some.injEq, Prod.mk.injEq] at h
      obtain ⟨h1, h2⟩ := h
      obtain ⟨c, d⟩ := moreRuns_spec p _ _ _ hl hm
      subst h1; subst h2
      exact ⟨ru.1, by omega, d⟩
  · split at h
    · cases he : p.extend (p.runDown (p.b (min cur p.last)) (p.last - min cur p.last) (min cur p.last)) with
      | none => simp [he] at h
      | some l1 =>
        simp only [he] at h
        obtain ⟨e1, e2⟩ := extend_spec p _ _ hl he
        cases hm : p.moreParas true (count - 1) l1 with
        | none => simp [hm] at h
        | some l =>
          simp only [hm, Option.map_some, Option.some.injEq, Prod.mk.injEq] at h
          obtain ⟨h1, h2⟩ := h
          obtain ⟨c, d⟩ := moreParas_spec p true _ _ _ e2 hm
          subst h1; subst h2
          exact ⟨ru.1, by omega, d⟩
    · cases he : p.extend (p.runDown (p.b (min cur p.last)) (p.last - min cur p.last) (min cur p.last)) with
      | some l1 =>
        simp only [he] at h
        obtain ⟨e1, e2⟩ := extend_spec p _ _ hl he
        cases hm : p.moreParas false (count - 1) l1 with
        | none => simp [hm] at h
        | some l =>
          simp only [hm, Option.map_some, Option.some.injEq, Prod.mk.injEq] at h
          obtain ⟨h1, h2⟩ := h
          obtain ⟨c, d⟩ := moreParas_spec p false _ _ _ e2 hm
          subst h1; subst h2
          exact ⟨ru.1, by omega, d⟩
      | none =>
        simp only [he] at h
        cases hm : p.moreParas false (count - 1) (p.runDown (p.b (min cur p.last)) (p.last - min cur p.last) (min cur p.last)) with
        | none => simp [hm] at h
        | some l =>
          simp only [hm, Option.map_some, Option.some.injEq, Prod.mk.injEq] at h
          obtain ⟨h1, h2⟩ := h
          obtain ⟨c, d⟩ := moreParas_spec p false _ _ _ hl hm
          have := (runUp_spec p true (p.runUp (p.b (min cur p.last)) (min cur p.last))).1
          subst h1; subst h2
          exact ⟨by omega, by omega, d⟩

/-- **`ip` is exactly one run**: every line of it is blank iff the cursor line is. -/
theorem ip_is_one_run (p : PL) (cur : Nat) (a b : Nat) (h : p.textObj cur 1 false = some (a, b)) :
    ∀ j, a ≤ j → j ≤ b → p.b j = p.b (min cur p.last) := by
  unfold PL.textObj at h
  simp only [Bool.not_false, ↓reduceIte, Nat.sub_self, PL.moreRuns, Option.map_some, Option.some.injEq, Prod.mk.injEq] at h
  obtain ⟨h1, h2⟩ := h
  have ru := runUp_spec p (p.b (min cur p.last)) (min cur p.last)
  have rd := runDown_spec p (p.b (min cur p.last)) (p.last - min cur p.last) (min cur p.last)
  intro j ha hb
  by_cases hlt : j < min cur p.last
  · exact ru.2 j (by omega) hlt
  · by_cases heq : j = min cur p.last
    · rw [heq]
    · exact rd.2.2 j (by omega) (by omega)

/-- lines "aa","bb","","cc","dd","","ee": `ip` on line 3 is lines 3–4, `ap` adds the blank line 5, `ap` on
the last paragraph takes the blank line before it, `2ap` from the top takes lines 0–5, `3ap` the whole
buffer, `4ap` fails. -/
example : (PL.mk [false, false, true, false, false, true, false]).textObj 3 1 false = some (3, 4) := by decide
example : (PL.mk [false, false, true, false, false, true, false]).textObj 3 1 true = some (3, 5) := by decide
example : (PL.mk [false, false, true, false, false, true, false]).textObj 6 1 true = some (5, 6) := by decide
example : (PL.mk [false, false, true, false, false, true, false]).textObj 0 2 true = some (0, 5) := by decide
example : (PL.mk [false, false, true, false, false, true, false]).textObj 0 3 true = some (0, 6) := by decide
example : (PL.mk [false, false, true, false, false, true, false]).textObj 0 4 true = none := by decide
example : (PL.mk [false, false, true, false, false, true, false]).textObj 2 1 true = some (2, 4) := by decide

end Vicut.ParaObj

/-! # Sentence motions `)` and `(` -/
namespace Vicut.Sentence
open Vicut

theorem skip_ge (s : SK) (v f i : Nat) : i ≤ s.skip v f i := by
  induction f generalizing i with
  | zero => simp [SK.skip]
  | succ f ih => simp only [SK.skip]; split
                 · have := ih (i + 1); omega
                 · omega

/-- **Every sentence start is a position of the text.** -/
theorem starts_in_text (s : SK) (i : Nat) (h : s.isStart i = true) : i < s.len := by
  unfold SK.isStart SK.startsList at h
  simp only [List.contains_eq_mem, List.mem_append, List.mem_flatMap, List.mem_range, decide_eq_true_eq] at h
  rcases h with h | ⟨q, hq, hc⟩
  · split at h
    · simp at h; omega
    · simp at h
  · unfold SK.contrib at hc
    split at hc
    · simp only [List.mem_append] at hc
      rcases hc with hc | hc
      · split at hc
        · simp at hc; omega
        · simp at hc
      · split at hc
        · rename_i hk
          simp only [Bool.and_eq_true, decide_eq_true_eq] at hk
          simp at hc; omega
        · simp at hc
    · split at hc
      · simp only at hc
        split at hc
        · simp at hc
          first | omega | (obtain ⟨h1, h2⟩ := hc; omega)
        · simp at hc
          first | omega | (obtain ⟨_, h1, h2⟩ := hc; omega) | (obtain ⟨h1, h2⟩ := hc; omega)
      · simp at hc

/-- **`)` goes forward and `(` goes backward, onto sentence starts.** -/
theorem nextStart_spec (s : SK) (pos p : Nat) (h : s.nextStart pos = some p) : pos < p ∧ s.isStart p = true := by
  unfold SK.nextStart at h
  have hm := List.mem_of_find?_eq_some h
  have hp := List.find?_some h
  rw [List.mem_range'_1] at hm
  exact ⟨by omega, hp⟩

theorem prevStart_spec (s : SK) (pos p : Nat) (h : s.prevStart pos = some p) : p < pos ∧ s.isStart p = true := by
  unfold SK.prevStart at h
  have hm := List.mem_of_find?_eq_some h
  have hp := List.find?_some h
  rw [List.mem_reverse, List.mem_range] at hm
  exact ⟨hm, hp⟩

theorem backGo_spec (s : SK) (n pos p : Nat) (h : s.backGo n pos = some p) :
    p ≤ pos ∧ (n > 0 → p < pos ∧ s.isStart p = true) := by
  induction n generalizing pos with
  | zero => simp [SK.backGo] at h; subst h; exact ⟨Nat.le_refl _, fun h => absurd h (by omega)⟩
  | succ n ih =>
    simp only [SK.backGo] at h
    cases hp : s.prevStart pos with
    | none => simp [hp] at h
    | some q =>
      simp only [hp] at h
      obtain ⟨a, b⟩ := prevStart_spec s pos q hp
      obtain ⟨c, d⟩ := ih q h
      refine ⟨by omega, fun _ => ?_⟩
      by_cases hn : n > 0
      · obtain ⟨e, f⟩ := d hn; exact ⟨by omega, f⟩
      · have : n = 0 := by omega
        subst this
        simp [SK.backGo] at h
        subst h
        exact ⟨a, b⟩

/-- **The first sentence starts with the buffer**, and an empty line after text starts one. -/
theorem buffer_start_is_a_start (s : SK) (h : s.len > 0) : s.isStart 0 = true := by
  unfold SK.isStart SK.startsList
  simp [h]

/-- "Hi. Yo!  X" + terminator: kinds 0 0 3 1 0 0 3 1 1 0 2 — the starts are 0, 4 and 9. -/
example : (SK.mk [0, 0, 3, 1, 0, 0, 3, 1, 1, 0, 2]).nextStart 0 = some 4 := by decide
example : (SK.mk [0, 0, 3, 1, 0, 0, 3, 1, 1, 0, 2]).nextStart 4 = some 9 := by decide
example : (SK.mk [0, 0, 3, 1, 0, 0, 3, 1, 1, 0, 2]).prevStart 5 = some 4 := by decide
example : (SK.mk [0, 0, 3, 1, 0, 0, 3, 1, 1, 0, 2]).prevStart 4 = some 0 := by decide
example : (SK.mk [0, 0, 3, 1, 0, 0, 3, 1, 1, 0, 2]).evalSentence 9 1 true false = .null := by decide
example : (SK.mk [0, 0, 3, 1, 0, 0, 3, 1, 1, 0, 2]).evalSentence 5 2 false false = .on 0 := by decide
/-- an empty line is a sentence of its own: "a" nl nl "b" nl -/
example : (SK.mk [0, 2, 2, 0, 2]).nextStart 0 = some 2 := by decide
example : (SK.mk [0, 2, 2, 0, 2]).nextStart 2 = some 3 := by decide
/-- a dot inside a word ends nothing: "a.b c" -/
example : (SK.mk [0, 3, 0, 1, 0, 2]).nextStart 0 = none := by decide

end Vicut.Sentence

/-! ## Delimiter motions: `%` and `[(` `])` `[{` `]}` (model `Vicut.Model.Delims`)

The nesting scan of `%` is characterised exactly (sound and complete): the answer is the first partner
delimiter at which the nesting of that kind returns to zero. `%` from a closer was broken at the pinned
commit (the motion always failed: a `u32` depth wrapped); it is repaired (fix 3a24e4e) and the pre-fix scan is
kept as `scanMatchOld` with a kernel-checked witness. -/
namespace Vicut.DelimThms
open Vicut Vicut.Delim

/-- **Soundness of the nesting scan**: the answer is a `tgt`, there the depth is back to zero, and nowhere
before. -/
theorem scanMatch_sound (new tgt : Gr) (hne : new ≠ tgt) :
    ∀ (xs : List Gr) (d k : Nat), 1 ≤ d → scanMatch new tgt xs d = some k →
      xs[k]? = some tgt ∧ d + (xs.take (k + 1)).count new = (xs.take (k + 1)).count tgt ∧
      ∀ j, j < k → (xs.take (j + 1)).count tgt < d + (xs.take (j + 1)).count new := by
  intro xs
  induction xs with
  | nil => intro d k _ h; simp [scanMatch] at h
  | cons g rest ih =>
    intro d k hd h
    unfold scanMatch at h
    by_cases h1 : g = new
    · subst h1
      simp only [if_true] at h
      cases hs : scanMatch g tgt rest (d + 1) with
      | none => simp [hs] at h
      | some k' =>
        simp [hs] at h
        subst h
        obtain ⟨a, b, c⟩ := ih (d + 1) k' (by omega) hs
        refine ⟨by simpa using a, ?_, ?_⟩
        · simp [List.take_succ_cons, hne] at b ⊢ <;> omega
        · intro j hj
          cases j with
          | zero => simp [hne] <;> omega
          | succ j' =>
            have := c j' (by omega)
            simp [List.take_succ_cons, hne] at this ⊢ <;> omega
    · simp only [h1, if_false] at h
      by_cases h2 : g = tgt
      · subst h2
        simp only [if_true] at h
        by_cases h3 : d - 1 = 0
        · simp [h3] at h
          subst h
          have hne' : ¬ (g = new) := h1
          refine ⟨by simp, ?_, by intro j hj; omega⟩
          simp [hne'] <;> omega
        · simp only [h3, if_false] at h
          cases hs : scanMatch new g rest (d - 1) with
          | none => simp [hs] at h
          | some k' =>
            simp [hs] at h
            subst h
            obtain ⟨a, b, c⟩ := ih (d - 1) k' (by omega) hs
            have hne' : ¬ (g = new) := h1
            refine ⟨by simpa using a, ?_, ?_⟩
            · simp [List.take_succ_cons, hne'] at b ⊢ <;> omega
            · intro j hj
              cases j with
              | zero => simp [hne'] <;> omega
              | succ j' =>
                have := c j' (by omega)
                simp [List.take_succ_cons, hne'] at this ⊢ <;> omega
      · simp only [h2, if_false] at h
        cases hs : scanMatch new tgt rest d with
        | none => simp [hs] at h
        | some k' =>
          simp [hs] at h
          subst h
          obtain ⟨a, b, c⟩ := ih d k' hd hs
          refine ⟨by simpa using a, ?_, ?_⟩
          · simp [List.take_succ_cons, h1, h2] at b ⊢ <;> omega
          · intro j hj
            cases j with
            | zero => simp [h1, h2] <;> omega
            | succ j' =>
              have := c j' (by omega)
              simp [List.take_succ_cons, h1, h2] at this ⊢ <;> omega


/-- **Completeness**: when the scan fails the depth never comes back to zero. -/
theorem scanMatch_none (new tgt : Gr) (hne : new ≠ tgt) :
    ∀ (xs : List Gr) (d : Nat), 1 ≤ d → scanMatch new tgt xs d = none →
      ∀ k, k < xs.length → (xs.take (k + 1)).count tgt < d + (xs.take (k + 1)).count new := by
  intro xs
  induction xs with
  | nil => intro d _ _ k hk; simp at hk
  | cons g rest ih =>
    intro d hd h k hk
    unfold scanMatch at h
    by_cases h1 : g = new
    · subst h1
      simp only [if_true, Option.map_eq_none_iff] at h
      cases k with
      | zero => simp [hne] <;> omega
      | succ k' =>
        have := ih (d + 1) (by omega) h k' (by simpa using hk)
        simp [List.take_succ_cons, hne] at this ⊢ <;> omega
    · simp only [h1, if_false] at h
      by_cases h2 : g = tgt
      · subst h2
        simp only [if_true] at h
        by_cases h3 : d - 1 = 0
        · simp [h3] at h
        · simp only [h3, if_false, Option.map_eq_none_iff] at h
          have hne' : ¬ (g = new) := h1
          cases k with
          | zero => simp [hne'] <;> omega
          | succ k' =>
            have := ih (d - 1) (by omega) h k' (by simpa using hk)
            simp [List.take_succ_cons, hne'] at this ⊢ <;> omega
      · simp only [h2, if_false, Option.map_eq_none_iff] at h
        cases k with
        | zero => simp [h1, h2] <;> omega
        | succ k' =>
          have := ih d hd h k' (by simpa using hk)
          simp [List.take_succ_cons, h1, h2] at this ⊢ <;> omega

theorem partner_ne (g tgt : Gr) (b : Bool) (h : partner g = some (tgt, b)) : g ≠ tgt := by
  unfold partner at h
  repeat' split at h
  all_goals first | (simp at h; obtain ⟨rfl, _⟩ := h; subst_vars; decide) | simp at h

/-- **`%` from an opener** lands on its closer: the first later closer of the same kind at which the
nesting of that kind (openers of the kind minus closers of the kind, counted from the opener on) is back to
zero. -/
theorem matchFrom_forward (gs : List Gr) (idx j : Nat) (g tgt : Gr)
    (hg : gs[idx]? = some g) (hp : partner g = some (tgt, true)) (h : matchFrom gs idx = some j) :
    ∃ k, j = idx + 1 + k ∧ gs[j]? = some tgt ∧
      1 + ((gs.drop (idx + 1)).take (k + 1)).count g = ((gs.drop (idx + 1)).take (k + 1)).count tgt ∧
      ∀ i, i < k → ((gs.drop (idx + 1)).take (i + 1)).count tgt < 1 + ((gs.drop (idx + 1)).take (i + 1)).count g := by
  have hne := partner_ne g tgt true hp
  unfold matchFrom at h
  simp only [hg, hp] at h
  have hd : gs.drop idx = g :: gs.drop (idx + 1) := by
    have hlt : idx < gs.length := by
      rcases Nat.lt_or_ge idx gs.length with h' | h'
      · exact h'
      · simp [List.getElem?_eq_none_iff.mpr h'] at hg
    rw [List.drop_eq_getElem_cons hlt]
    simp [List.getElem?_eq_getElem hlt] at hg
    rw [hg]
  rw [hd] at h
  unfold scanMatch at h
  simp only [if_true] at h
  cases hs : scanMatch g tgt (gs.drop (idx + 1)) (0 + 1) with
  | none => simp [hs] at h
  | some k =>
    simp [hs] at h
    obtain ⟨a, b, c⟩ := scanMatch_sound g tgt hne _ 1 k (by omega) (by simpa using hs)
    refine ⟨k, by omega, ?_, b, c⟩
    have : j = idx + 1 + k := by omega
    subst this
    simpa [List.getElem?_drop] using a

/-- **`%` from a closer** lands on its opener (this is what the repair made true): the nearest earlier
opener of the same kind at which the nesting, counted backwards from the closer, is back to zero. -/
theorem matchFrom_backward (gs : List Gr) (idx j : Nat) (g tgt : Gr)
    (hg : gs[idx]? = some g) (hp : partner g = some (tgt, false)) (h : matchFrom gs idx = some j) :
    ∃ k, j + 1 + k = idx ∧ gs[j]? = some tgt ∧
      1 + (((gs.take idx).reverse).take (k + 1)).count g = (((gs.take idx).reverse).take (k + 1)).count tgt ∧
      ∀ i, i < k → (((gs.take idx).reverse).take (i + 1)).count tgt < 1 + (((gs.take idx).reverse).take (i + 1)).count g := by
  have hne := partner_ne g tgt false hp
  unfold matchFrom at h
  simp only [hg, hp] at h
  have hlt : idx < gs.length := by
    rcases Nat.lt_or_ge idx gs.length with h' | h'
    · exact h'
    · simp [List.getElem?_eq_none_iff.mpr h'] at hg
  have hd : (gs.take (idx + 1)).reverse = g :: (gs.take idx).reverse := by
    rw [List.take_succ_eq_append_getElem hlt]
    simp [List.getElem?_eq_getElem hlt] at hg
    simp [hg]
  rw [hd] at h
  unfold scanMatch at h
  simp only [if_true] at h
  cases hs : scanMatch g tgt (gs.take idx).reverse (0 + 1) with
  | none => simp [hs] at h
  | some k =>
    simp [hs] at h
    obtain ⟨a, b, c⟩ := scanMatch_sound g tgt hne _ 1 k (by omega) (by simpa using hs)
    have hk : k < idx := by
      have := (List.getElem?_eq_some_iff.mp a).1
      simp at this; omega
    refine ⟨k, by omega, ?_, b, c⟩
    have hj : j = idx - 1 - k := by omega
    subst hj
    rw [List.getElem?_reverse (by simp; omega)] at a
    simp at a
    have e : min idx gs.length - 1 - k = idx - 1 - k := by omega
    rw [e] at a
    rw [List.getElem?_take] at a
    simp at a
    exact a.2

/-- `%` never leaves the text. -/
theorem evalDelimMatch_inside (s : MS) (p : Nat) (h : evalDelimMatch s = .onto p) : p < s.max := by
  unfold evalDelimMatch at h
  split at h
  · cases h
  · rename_i q hq
    cases h
    unfold findMatching at hq
    split at hq
    · cases hq
    · rename_i idx _
      cases hg : s.gs[idx]? with
      | none => simp [matchFrom, hg] at hq
      | some g =>
        cases hp : partner g with
        | none => simp [matchFrom, hg, hp] at hq
        | some tb =>
          obtain ⟨tgt, b⟩ := tb
          cases b with
          | true =>
            obtain ⟨k, _, a, _⟩ := matchFrom_forward s.gs idx p g tgt hg hp hq
            have := (List.getElem?_eq_some_iff.mp a).1
            exact this
          | false =>
            obtain ⟨k, _, a, _⟩ := matchFrom_backward s.gs idx p g tgt hg hp hq
            have := (List.getElem?_eq_some_iff.mp a).1
            exact this

/-- `a (b [c] d) e`: from the `)` at 10 back to the `(` at 2; before the repair the motion failed. -/
example : matchFrom ("a (b [c] d) e".toList.map (fun c => [c])) 10 = some 2 := by decide
example : matchFromOld ("a (b [c] d) e".toList.map (fun c => [c])) 10 = none := by decide
example : matchFrom ("a (b [c] d) e".toList.map (fun c => [c])) 2 = some 10 := by decide
example : matchFrom ("a (b [c] d) e".toList.map (fun c => [c])) 7 = some 5 := by decide
/-- nesting of the same kind is respected, other kinds are ignored: `((]))` -/
example : matchFrom ("((]))".toList.map (fun c => [c])) 0 = some 4 := by decide
example : matchFrom ("((]))".toList.map (fun c => [c])) 3 = some 1 := by decide
/-- an unbalanced closer has no match -/
example : matchFrom ("a) b".toList.map (fun c => [c])) 1 = none := by decide
/-- the cursor need not be on a delimiter: the next one on the line is taken, else the opener before -/
example : evalDelimMatch ⟨"ab (cd) e\n".toList.map (fun c => [c]), 0, true, false, []⟩ = .onto 6 := by decide
example : evalDelimMatch ⟨"ab (cd) e\n".toList.map (fun c => [c]), 4, true, false, []⟩ = .onto 3 := by decide
example : evalDelimMatch ⟨"ab (cd) e\n".toList.map (fun c => [c]), 8, true, false, []⟩ = .onto 6 := by decide

end Vicut.DelimThms

namespace Vicut.DelimThms
open Vicut Vicut.Delim

/-- **`[(` `])` `[{` `]}`** answer with an unescaped delimiter of the kind asked for, at one of the
positions scanned (after the cursor for the closers, before it for the openers). -/
theorem scanUnmatched_sound (gs : List Gr) (up down : Gr) :
    ∀ (ps : List Nat) (d i : Nat), scanUnmatched gs up down ps d = some i →
      i ∈ ps ∧ gs[i]? = some down ∧ escaped gs i = false := by
  intro ps
  induction ps with
  | nil => intro d i h; simp [scanUnmatched] at h
  | cons p rest ih =>
    intro d i h
    unfold scanUnmatched at h
    by_cases he : escaped gs p = true
    · simp only [he, if_true] at h
      obtain ⟨a, b⟩ := ih d i h
      exact ⟨List.mem_cons_of_mem _ a, b⟩
    · simp only [he] at h
      cases hg : gs[p]? with
      | none => simp [hg] at h
      | some g =>
        simp only [hg] at h
        by_cases h1 : g = up
        · simp only [h1, if_true] at h
          obtain ⟨a, b⟩ := ih _ i h
          exact ⟨List.mem_cons_of_mem _ a, b⟩
        · simp only [h1, if_false] at h
          by_cases h2 : g = down
          · simp only [h2, if_true] at h
            by_cases h3 : d = 0
            · simp only [h3, if_true] at h
              cases h
              refine ⟨List.mem_cons_self, by rw [hg, h2], by simpa using he⟩
            · simp only [h3, if_false] at h
              obtain ⟨a, b⟩ := ih _ i h
              exact ⟨List.mem_cons_of_mem _ a, b⟩
          · simp only [h2, if_false] at h
            obtain ⟨a, b⟩ := ih _ i h
            exact ⟨List.mem_cons_of_mem _ a, b⟩

theorem findUnmatched_fwd (s : MS) (o c : Gr) (i : Nat) (h : findUnmatched s o c true = some i) :
    s.cur ≤ i ∧ i < s.max ∧ s.gs[i]? = some c ∧ escaped s.gs i = false := by
  unfold findUnmatched at h
  simp only [if_true] at h
  obtain ⟨a, b, e⟩ := scanUnmatched_sound _ _ _ _ _ _ h
  simp [List.mem_range'] at a
  exact ⟨by omega, by omega, b, e⟩

theorem findUnmatched_bwd (s : MS) (o c : Gr) (i : Nat) (h : findUnmatched s o c false = some i) :
    i < s.cur ∧ s.gs[i]? = some o ∧ escaped s.gs i = false := by
  unfold findUnmatched at h
  simp only [Bool.false_eq_true, if_false] at h
  obtain ⟨a, b, e⟩ := scanUnmatched_sound _ _ _ _ _ _ h
  simp at a
  exact ⟨a, b, e⟩

/-- `f(a, g(b), c)`: from `a` (2) `])` goes to the last `)` (12), `[(` to the first `(` (1); inner pairs are skipped -/
example : evalUnmatched ⟨"f(a, g(b), c)".toList.map (fun c => [c]), 2, true, false, []⟩ ['('] [')'] true = .on 12 := by decide
example : evalUnmatched ⟨"f(a, g(b), c)".toList.map (fun c => [c]), 11, true, false, []⟩ ['('] [')'] false = .on 1 := by decide
/-- an escaped delimiter is not one -/
example : evalUnmatched ⟨"a \\) b)".toList.map (fun c => [c]), 0, true, false, []⟩ ['('] [')'] true = .on 6 := by decide

end Vicut.DelimThms

/-! ## Bracket text objects `i(` `a(` `i[` `a]` `i{` `a}` `i<` `a>` (`text_obj_delim`) -/
namespace Vicut.DelimThms
open Vicut Vicut.Delim

/-- the pair scan answers with an unescaped opener and a later unescaped closer, both among the positions scanned -/
theorem scanPair_sound (gs : List Gr) (o c : Gr) :
    ∀ (ps : List Nat) (oc : Nat) (st : Option Nat) (r : Nat × Nat),
      ps.Pairwise (· < ·) →
      (∀ a, st = some a → gs[a]? = some o ∧ escaped gs a = false ∧ ∀ i ∈ ps, a < i) →
      scanPair gs o c ps oc st = some r →
      gs[r.1]? = some o ∧ escaped gs r.1 = false ∧ gs[r.2]? = some c ∧ escaped gs r.2 = false ∧
        r.1 < r.2 ∧ r.2 ∈ ps := by
  intro ps
  induction ps with
  | nil => intro oc st r _ _ h; simp [scanPair] at h
  | cons p rest ih =>
    intro oc st r hp hst h
    have hp' : rest.Pairwise (· < ·) := (List.pairwise_cons.mp hp).2
    have hlt : ∀ i ∈ rest, p < i := (List.pairwise_cons.mp hp).1
    have hst' : ∀ a, st = some a → gs[a]? = some o ∧ escaped gs a = false ∧ ∀ i ∈ rest, a < i := by
      intro a ha
      obtain ⟨x, y, z⟩ := hst a ha
      exact ⟨x, y, fun i hi => z i (List.mem_cons_of_mem _ hi)⟩
    have lift : ∀ {r : Nat × Nat}, (gs[r.1]? = some o ∧ escaped gs r.1 = false ∧ gs[r.2]? = some c ∧ escaped gs r.2 = false ∧
        r.1 < r.2 ∧ r.2 ∈ rest) → (gs[r.1]? = some o ∧ escaped gs r.1 = false ∧ gs[r.2]? = some c ∧ escaped gs r.2 = false ∧
        r.1 < r.2 ∧ r.2 ∈ p :: rest) := by
      intro r ⟨a1, a2, a3, a4, a5, a6⟩
      exact ⟨a1, a2, a3, a4, a5, List.mem_cons_of_mem _ a6⟩
    unfold scanPair at h
    by_cases he : escaped gs p = true
    · simp only [he, if_true] at h
      exact lift (ih oc st r hp' hst' h)
    · simp only [he] at h
      cases hg : gs[p]? with
      | none => simp [hg] at h
      | some g =>
        simp only [hg] at h
        by_cases h1 : g = o
        · simp only [h1, if_true] at h
          refine lift (ih _ _ r hp' ?_ h)
          intro a ha
          by_cases h0 : oc = 0
          · simp only [h0, if_true] at ha
            cases ha
            exact ⟨by rw [hg, h1], by simpa using he, hlt⟩
          · simp only [h0, if_false] at ha
            exact hst' a ha
        · simp only [h1, if_false] at h
          by_cases h2 : g = c
          · simp only [h2, if_true] at h
            by_cases h3 : oc = 1
            · simp only [h3, if_true] at h
              cases hs : st with
              | none => simp [hs] at h
              | some a =>
                simp [hs] at h
                cases h
                obtain ⟨x, y, z⟩ := hst a hs
                exact ⟨x, y, by rw [hg, h2], by simpa using he, z p List.mem_cons_self, List.mem_cons_self⟩
            · simp only [h3, if_false] at h
              exact lift (ih _ _ r hp' hst' h)
          · simp only [h2, if_false] at h
            exact lift (ih _ _ r hp' hst' h)

theorem extendWs_ge (s : MS) (eol : Nat) : ∀ f e, e ≤ extendWs s eol f e := by
  intro f
  induction f with
  | zero => intro e; simp [extendWs]
  | succ f ih =>
    intro e
    unfold extendWs
    split
    · have := ih (e + 1); omega
    · omega

theorem extendWs_le (s : MS) (eol : Nat) : ∀ f e, e ≤ s.max → extendWs s eol f e ≤ s.max := by
  intro f
  induction f with
  | zero => intro e h; simpa [extendWs] using h
  | succ f ih =>
    intro e h
    unfold extendWs
    split
    · rename_i hc
      simp at hc
      exact ih (e + 1) (by omega)
    · exact h

/-- the pair `i(` / `a(` work on: an unescaped opener and a later unescaped closer of the kind asked for -/
theorem textObjDelim_pair (s : MS) (o c : Gr) (around : Bool) (a b : Nat)
    (h : textObjDelim s o c around = some (a, b)) :
    ∃ st e, s.gs[st]? = some o ∧ escaped s.gs st = false ∧ s.gs[e]? = some c ∧ escaped s.gs e = false ∧ st < e ∧
      (around = false → a = st + 1 ∧ b = e) ∧
      (around = true → a = st ∧ e + 1 ≤ b ∧ b ≤ s.max) := by
  unfold textObjDelim at h
  simp only [Option.map_eq_some_iff] at h
  obtain ⟨⟨st, e⟩, hpair, hr⟩ := h
  have key : s.gs[st]? = some o ∧ escaped s.gs st = false ∧ s.gs[e]? = some c ∧ escaped s.gs e = false ∧ st < e := by
    split at hpair
    · rename_i st' hst
      simp only [Option.map_eq_some_iff] at hpair
      obtain ⟨e', he', hq⟩ := hpair
      cases hq
      obtain ⟨_, x, y⟩ := scanUnmatched_sound _ _ _ _ _ _ hst
      obtain ⟨m, x', y'⟩ := scanUnmatched_sound _ _ _ _ _ _ he'
      simp [List.mem_range'] at m
      exact ⟨x, y, x', y', by omega⟩
    · obtain ⟨x1, x2, x3, x4, x5, _⟩ := scanPair_sound s.gs o c _ 0 none (st, e)
        (by simp [List.pairwise_lt_range']) (by intro a ha; cases ha) hpair
      exact ⟨x1, x2, x3, x4, x5⟩
  refine ⟨st, e, key.1, key.2.1, key.2.2.1, key.2.2.2.1, key.2.2.2.2, ?_, ?_⟩
  · intro ha
    simp [ha] at hr
    omega
  · intro ha
    simp [ha] at hr
    have hlt : e < s.gs.length := (List.getElem?_eq_some_iff.mp key.2.2.1).1
    have h1 := extendWs_ge s s.eol (s.eol - (e + 1)) (e + 1)
    have h2 := extendWs_le s s.eol (s.eol - (e + 1)) (e + 1) (by show e + 1 ≤ s.gs.length; omega)
    omega

/-- `f(a, g(b), c)`: inside the outer pair from `a`; the inner pair from `b`; the first pair after the cursor from `f` -/
example : evalTextObjDelim ⟨"f(a, g(b), c) z".toList.map (fun c => [c]), 2, true, false, []⟩ ['('] [')'] false = .exclusive 2 12 := by decide
example : evalTextObjDelim ⟨"f(a, g(b), c) z".toList.map (fun c => [c]), 7, true, false, []⟩ ['('] [')'] false = .exclusive 7 8 := by decide
example : evalTextObjDelim ⟨"f(a, g(b), c) z".toList.map (fun c => [c]), 0, true, false, []⟩ ['('] [')'] false = .exclusive 2 12 := by decide
/-- `a(` takes the blanks after the closer -/
example : evalTextObjDelim ⟨"f(a)  z".toList.map (fun c => [c]), 2, true, false, [false, false, false, false, true, true, false]⟩ ['('] [')'] true = .exclusive 1 6 := by decide
/-- no pair: the object fails -/
example : evalTextObjDelim ⟨"a) b(".toList.map (fun c => [c]), 2, true, false, []⟩ ['('] [')'] false = .null := by decide

end Vicut.DelimThms

/-! ## Quote text objects `i"` `a"` `i'` `a'` (`text_obj_quote`) -/
namespace Vicut.DelimThms
open Vicut Vicut.Quote

theorem back_sound (gs : List Gr) (q : Gr) :
    ∀ (f : Nat) (ps : List Nat) (i : Nat), back gs q f ps = some i → i ∈ ps ∧ gs[i]? = some q := by
  intro f
  induction f with
  | zero => intro ps i h; simp [back] at h
  | succ f ih =>
    intro ps i h
    cases ps with
    | nil => simp [back] at h
    | cons p rest =>
      unfold back at h
      cases hg : gs[p]? with
      | none => simp [hg] at h
      | some g =>
        simp only [hg] at h
        by_cases h1 : g = q
        · simp only [h1, if_true] at h
          split at h
          · cases h; exact ⟨List.mem_cons_self, by rw [hg, h1]⟩
          · obtain ⟨a, b⟩ := ih _ i h
            have : i ∈ rest := (List.dropWhile_sublist _).subset (List.mem_of_mem_drop a)
            exact ⟨List.mem_cons_of_mem _ this, b⟩
        · simp only [h1, if_false] at h
          obtain ⟨a, b⟩ := ih _ i h
          exact ⟨List.mem_cons_of_mem _ a, b⟩

theorem fwd_sound (gs : List Gr) (q : Gr) :
    ∀ (f : Nat) (ps : List Nat) (r : Nat × List Nat), fwd gs q f ps = some r →
      r.1 ∈ ps ∧ gs[r.1]? = some q ∧ ∀ j ∈ r.2, j ∈ ps := by
  intro f
  induction f with
  | zero => intro ps r h; simp [fwd] at h
  | succ f ih =>
    intro ps r h
    cases ps with
    | nil => simp [fwd] at h
    | cons p rest =>
      unfold fwd at h
      cases hg : gs[p]? with
      | none => simp [hg] at h
      | some g =>
        simp only [hg] at h
        by_cases h1 : g = bs
        · simp only [h1, if_true] at h
          obtain ⟨a, b, c⟩ := ih _ r h
          exact ⟨List.mem_cons_of_mem _ (List.mem_of_mem_drop a), b,
            fun j hj => List.mem_cons_of_mem _ (List.mem_of_mem_drop (c j hj))⟩
        · simp only [h1, if_false] at h
          by_cases h2 : g = q
          · simp only [h2, if_true] at h
            cases h
            exact ⟨List.mem_cons_self, by rw [hg, h2], fun j hj => List.mem_cons_of_mem _ hj⟩
          · simp only [h2, if_false] at h
            obtain ⟨a, b, c⟩ := ih _ r h
            exact ⟨List.mem_cons_of_mem _ a, b, fun j hj => List.mem_cons_of_mem _ (c j hj)⟩

/-- **Quote objects**: the span lies between two quote characters of the kind asked for, both on the
cursor's line; `i"` is what is strictly between them, `a"` starts on the first and ends after the second. -/
theorem textObjQuote_pair (s : MS) (q : Gr) (around : Bool) (a b : Nat) (hsc : s.sol ≤ s.cur)
    (h : textObjQuote s q around = some (a, b)) :
    ∃ st e, s.gs[st]? = some q ∧ s.gs[e]? = some q ∧ s.sol ≤ st ∧ e < s.eol ∧
      (around = false → a = st + 1 ∧ b = e) ∧ (around = true → a = st ∧ e + 1 ≤ b ∧ b ≤ s.max) := by
  unfold textObjQuote at h
  simp only [Option.map_eq_some_iff] at h
  obtain ⟨⟨st, e⟩, hpair, hr⟩ := h
  have key : s.gs[st]? = some q ∧ s.gs[e]? = some q ∧ s.sol ≤ st ∧ e < s.eol := by
    split at hpair
    · rename_i st' hst
      simp only [Option.map_eq_some_iff] at hpair
      obtain ⟨r, hr', hq⟩ := hpair
      cases hq
      obtain ⟨m, x⟩ := back_sound _ _ _ _ _ hst
      obtain ⟨m', x', _⟩ := fwd_sound _ _ _ _ _ hr'
      simp [List.mem_range'] at m m'
      exact ⟨x, x', by omega, by omega⟩
    · split at hpair
      · cases hpair
      · rename_i st' rest hf
        simp only [Option.map_eq_some_iff] at hpair
        obtain ⟨r, hr', hq⟩ := hpair
        cases hq
        obtain ⟨m, x, sub⟩ := fwd_sound _ _ _ _ _ hf
        obtain ⟨m', x', _⟩ := fwd_sound _ _ _ _ _ hr'
        have m'' := sub _ m'
        simp [List.mem_range'] at m m''
        exact ⟨x, x', by omega, by omega⟩
  refine ⟨st, e, key.1, key.2.1, key.2.2.1, key.2.2.2, ?_, ?_⟩
  · intro ha
    simp [ha] at hr
    omega
  · intro ha
    simp [ha] at hr
    have hlt : e < s.gs.length := (List.getElem?_eq_some_iff.mp key.2.1).1
    have h1 := extendWs_ge s s.eol (s.eol - (e + 1)) (e + 1)
    have h2 := extendWs_le s s.eol (s.eol - (e + 1)) (e + 1) (by show e + 1 ≤ s.gs.length; omega)
    omega

/-- the same for every cursor inside a text whose terminators are graphemes of their own -/
theorem textObjQuote_pair_in_text (s : MS) (q : Gr) (around : Bool) (a b : Nat) (hc : s.cur ≤ s.max) (hnl : C09.NlAlone s.gs)
    (h : textObjQuote s q around = some (a, b)) :
    ∃ st e, s.gs[st]? = some q ∧ s.gs[e]? = some q ∧ s.sol ≤ st ∧ e < s.eol ∧
      (around = false → a = st + 1 ∧ b = e) ∧ (around = true → a = st ∧ e + 1 ≤ b ∧ b ≤ s.max) :=
  textObjQuote_pair s q around a b (Motions.thisLine_bounds s hc hnl).1 h

/-- `say "hi \" there" now`: from inside the string, and from before it (the first pair after the cursor) -/
example : evalTextObjQuote ⟨"say \"hi \\\" x\" now\n".toList.map (fun c => [c]), 7, true, false, []⟩ [Char.ofNat 34] false = .exclusive 5 12 := by decide
example : evalTextObjQuote ⟨"say \"hi \\\" x\" now\n".toList.map (fun c => [c]), 0, true, false, []⟩ [Char.ofNat 34] false = .exclusive 5 12 := by decide
/-- a lone quote is no object -/
example : evalTextObjQuote ⟨"it`s\n".toList.map (fun c => [c]), 0, true, false, []⟩ ['`'] false = .null := by decide

end Vicut.DelimThms

/-! ## `%`: the scan is characterised exactly, and `%` from an opener is undone by `%` -/
namespace Vicut.DelimThms
open Vicut Vicut.Delim

/-- **The nesting scan finds exactly the first return to zero** (converse of `scanMatch_sound`): if `k` is
a `tgt` at which the nesting is back to zero and it was positive at every earlier position, the scan answers `k`. -/
theorem scanMatch_first_zero (new tgt : Gr) (hne : new ≠ tgt) :
    ∀ (xs : List Gr) (d k : Nat), 1 ≤ d → xs[k]? = some tgt →
      d + (xs.take (k + 1)).count new = (xs.take (k + 1)).count tgt →
      (∀ j, j < k → (xs.take (j + 1)).count tgt < d + (xs.take (j + 1)).count new) →
      scanMatch new tgt xs d = some k := by
  intro xs d k hd hk hb hpos
  cases hs : scanMatch new tgt xs d with
  | none =>
    have hlt : k < xs.length := (List.getElem?_eq_some_iff.mp hk).1
    have := scanMatch_none new tgt hne xs d hd hs k hlt
    omega
  | some k' =>
    obtain ⟨a, b, c⟩ := scanMatch_sound new tgt hne xs d k' hd hs
    rcases Nat.lt_trichotomy k k' with h | h | h
    · have := c k h; omega
    · rw [h]
    · have := hpos k' h; omega

/-- … hence the answer of the scan is characterised completely. -/
theorem scanMatch_iff (new tgt : Gr) (hne : new ≠ tgt) (xs : List Gr) (d k : Nat) (hd : 1 ≤ d) :
    scanMatch new tgt xs d = some k ↔
      (xs[k]? = some tgt ∧ d + (xs.take (k + 1)).count new = (xs.take (k + 1)).count tgt ∧
        ∀ j, j < k → (xs.take (j + 1)).count tgt < d + (xs.take (j + 1)).count new) :=
  ⟨scanMatch_sound new tgt hne xs d k hd, fun ⟨a, b, c⟩ => scanMatch_first_zero new tgt hne xs d k hd a b c⟩

end Vicut.DelimThms
namespace Vicut.DelimThms
open Vicut Vicut.Delim

theorem count_take_add_drop (a : Gr) (l : List Gr) (n : Nat) : (l.take n).count a + (l.drop n).count a = l.count a := by
  rw [← List.count_append, List.take_append_drop]

theorem partner_symm_fwd (g tgt : Gr) (h : partner g = some (tgt, true)) : partner tgt = some (g, false) := by
  unfold partner at h
  repeat' split at h
  all_goals first | (simp at h; obtain ⟨rfl, _⟩ := h; subst_vars; decide) | simp at h

end Vicut.DelimThms

namespace Vicut.DelimThms
open Vicut Vicut.Delim

/-- **`%` is its own inverse on an opener**: from an opener `%` lands on a closer from which `%` comes back. -/
theorem matchFrom_involutive_fwd (gs : List Gr) (idx j : Nat) (g tgt : Gr)
    (hg : gs[idx]? = some g) (hp : partner g = some (tgt, true)) (h : matchFrom gs idx = some j) :
    matchFrom gs j = some idx := by
  have hne := partner_ne g tgt true hp
  obtain ⟨k, hj, hgj, hb, hpos⟩ := matchFrom_forward gs idx j g tgt hg hp h
  subst hj
  have hp' := partner_symm_fwd g tgt hp
  have hjlt : idx + 1 + k < gs.length := (List.getElem?_eq_some_iff.mp hgj).1
  have hidx : idx < gs.length := by omega
  unfold matchFrom
  simp only [hgj, hp']
  -- the reversed prefix: the closer, then the stretch between, then the opener
  have hrev : (gs.take (idx + 1 + k + 1)).reverse = tgt :: (gs.take (idx + 1 + k)).reverse := by
    rw [List.take_succ_eq_append_getElem hjlt]
    simp [List.getElem?_eq_getElem hjlt] at hgj
    simp [hgj]
  rw [hrev]
  unfold scanMatch
  simp only [if_true]
  obtain ⟨xs, hxs⟩ : ∃ xs, xs = gs.drop (idx + 1) := ⟨_, rfl⟩
  obtain ⟨T, hT⟩ : ∃ T, T = xs.take k := ⟨_, rfl⟩
  rw [← hxs] at hb hpos
  have hTlen : T.length = k := by simp [hT, hxs]; omega
  have hsplit : gs.take (idx + 1 + k) = gs.take (idx + 1) ++ T := by
    rw [List.take_add, hT, hxs]
  have hys : (gs.take (idx + 1 + k)).reverse = T.reverse ++ (gs.take (idx + 1)).reverse := by
    rw [hsplit, List.reverse_append]
  have hhead : (gs.take (idx + 1)).reverse = g :: (gs.take idx).reverse := by
    rw [List.take_succ_eq_append_getElem hidx]
    simp [List.getElem?_eq_getElem hidx] at hg
    simp [hg]
  -- counts on prefixes of xs in terms of T
  have hpre : ∀ m, m ≤ k → xs.take m = T.take m := by
    intro m hm
    rw [hT, List.take_take, Nat.min_eq_left hm]
  have hxk : xs[k]? = some tgt := by
    simpa [hxs, List.getElem?_drop, Nat.add_assoc] using hgj
  have htk1 : xs.take (k + 1) = T ++ [tgt] := by
    have hlt : k < xs.length := (List.getElem?_eq_some_iff.mp hxk).1
    rw [List.take_succ_eq_append_getElem hlt]
    simp [List.getElem?_eq_getElem hlt] at hxk
    simp [hT, hxk]
  have hbal : T.count g = T.count tgt := by
    rw [htk1] at hb
    simp [List.count_append, hne, Ne.symm hne] at hb
    omega
  have hprefix : ∀ m, m ≤ k → (T.take m).count tgt ≤ (T.take m).count g := by
    intro m hm
    cases m with
    | zero => simp
    | succ i =>
      have := hpos i (by omega)
      rw [hpre (i + 1) hm] at this
      omega
  have hscan : scanMatch tgt g (T.reverse ++ g :: (gs.take idx).reverse) (0 + 1) = some k := by
    apply scanMatch_first_zero tgt g (Ne.symm hne) _ 1 k (by omega)
    · rw [List.getElem?_append_right (by simp [hTlen])]
      simp [hTlen]
    · have : (T.reverse ++ g :: (gs.take idx).reverse).take (k + 1) = T.reverse ++ [g] := by
        rw [List.take_append]
        have e : List.take (k + 1) T.reverse = T.reverse := List.take_of_length_le (by simp [hTlen])
        simp [hTlen, e]
      rw [this]
      simp [List.count_append, hne, Ne.symm hne]
      omega
    · intro i hi
      have : (T.reverse ++ g :: (gs.take idx).reverse).take (i + 1) = (T.drop (k - (i + 1))).reverse := by
        rw [List.take_append_of_le_length (by simp [hTlen]; omega)]
        rw [List.take_reverse]
        simp [hTlen]
      rw [this]
      simp only [List.count_reverse]
      have e1 := count_take_add_drop g T (k - (i + 1))
      have e2 := count_take_add_drop tgt T (k - (i + 1))
      have := hprefix (k - (i + 1)) (by omega)
      omega
  rw [hys, hhead, hscan]
  simp
  omega

example : matchFrom ("a (b [c] d) e".toList.map (fun c => [c])) 2 = some 10 ∧
    matchFrom ("a (b [c] d) e".toList.map (fun c => [c])) 10 = some 2 := by decide

end Vicut.DelimThms
namespace Vicut.DelimThms
open Vicut Vicut.Delim

theorem partner_symm_bwd (g tgt : Gr) (h : partner g = some (tgt, false)) : partner tgt = some (g, true) := by
  unfold partner at h
  repeat' split at h
  all_goals first | (simp at h; obtain ⟨rfl, _⟩ := h; subst_vars; decide) | simp at h

/-- **… and on a closer**: from a closer `%` lands on an opener from which `%` comes back. -/
theorem matchFrom_involutive_bwd (gs : List Gr) (idx j : Nat) (g tgt : Gr)
    (hg : gs[idx]? = some g) (hp : partner g = some (tgt, false)) (h : matchFrom gs idx = some j) :
    matchFrom gs j = some idx := by
  have hne := partner_ne g tgt false hp
  obtain ⟨k, hj, hgj, hb, hpos⟩ := matchFrom_backward gs idx j g tgt hg hp h
  subst hj
  have hp' := partner_symm_bwd g tgt hp
  have hidx : j + 1 + k < gs.length := (List.getElem?_eq_some_iff.mp hg).1
  have hjlt : j < gs.length := by omega
  unfold matchFrom
  simp only [hgj, hp']
  have hd : gs.drop j = tgt :: gs.drop (j + 1) := by
    rw [List.drop_eq_getElem_cons hjlt]
    simp [List.getElem?_eq_getElem hjlt] at hgj
    rw [hgj]
  rw [hd]
  unfold scanMatch
  simp only [if_true]
  obtain ⟨zs, hzs⟩ : ∃ zs, zs = gs.drop (j + 1) := ⟨_, rfl⟩
  obtain ⟨T, hT⟩ : ∃ T, T = zs.take k := ⟨_, rfl⟩
  have hTlen : T.length = k := by simp [hT, hzs]; omega
  have hsplit : gs.take (j + 1 + k) = gs.take (j + 1) ++ T := by
    rw [List.take_add, hT, hzs]
  have hhead : (gs.take (j + 1)).reverse = tgt :: (gs.take j).reverse := by
    rw [List.take_succ_eq_append_getElem hjlt]
    simp [List.getElem?_eq_getElem hjlt] at hgj
    simp [hgj]
  have hys : (gs.take (j + 1 + k)).reverse = T.reverse ++ tgt :: (gs.take j).reverse := by
    rw [hsplit, List.reverse_append, hhead]
  rw [hys] at hb hpos
  have hzk : zs[k]? = some g := by
    simpa [hzs, List.getElem?_drop, Nat.add_assoc] using hg
  have htk1 : zs.take (k + 1) = T ++ [g] := by
    have hlt : k < zs.length := (List.getElem?_eq_some_iff.mp hzk).1
    rw [List.take_succ_eq_append_getElem hlt]
    simp [List.getElem?_eq_getElem hlt] at hzk
    simp [hT, hzk]
  have hbal : T.count g = T.count tgt := by
    have : (T.reverse ++ tgt :: (gs.take j).reverse).take (k + 1) = T.reverse ++ [tgt] := by
      rw [List.take_append]
      have e : List.take (k + 1) T.reverse = T.reverse := List.take_of_length_le (by simp [hTlen])
      simp [hTlen, e]
    rw [this] at hb
    simp [List.count_append, hne, Ne.symm hne] at hb
    omega
  have hsuffix : ∀ n, n ≤ k → (T.drop n).count tgt ≤ (T.drop n).count g := by
    intro n hn
    rcases Nat.lt_or_ge n k with hlt | hge
    · have hi := hpos (k - n - 1) (by omega)
      have : (T.reverse ++ tgt :: (gs.take j).reverse).take (k - n - 1 + 1) = (T.drop n).reverse := by
        rw [List.take_append_of_le_length (by simp [hTlen]; omega)]
        rw [List.take_reverse]
        simp [hTlen]
        congr 1
        omega
      rw [this] at hi
      simp only [List.count_reverse] at hi
      omega
    · have : T.drop n = [] := List.drop_eq_nil_of_le (by omega)
      simp [this]
  have hscan : scanMatch tgt g zs (0 + 1) = some k := by
    apply scanMatch_first_zero tgt g (Ne.symm hne) _ 1 k (by omega) hzk
    · rw [htk1]
      simp [List.count_append, hne, Ne.symm hne]
      omega
    · intro i hi
      have : zs.take (i + 1) = T.take (i + 1) := by
        rw [hT, List.take_take, Nat.min_eq_left (by omega)]
      rw [this]
      have e1 := count_take_add_drop g T (i + 1)
      have e2 := count_take_add_drop tgt T (i + 1)
      have := hsuffix (i + 1) (by omega)
      omega
  rw [← hzs, hscan]
  simp
  omega

/-- so on a delimiter that has a match, `%` `%` is the identity -/
theorem matchFrom_twice (gs : List Gr) (idx j : Nat) (h : matchFrom gs idx = some j) : matchFrom gs j = some idx := by
  cases hg : gs[idx]? with
  | none => simp [matchFrom, hg] at h
  | some g =>
    cases hp : partner g with
    | none => simp [matchFrom, hg, hp] at h
    | some tb =>
      obtain ⟨tgt, b⟩ := tb
      cases b with
      | true => exact matchFrom_involutive_fwd gs idx j g tgt hg hp h
      | false => exact matchFrom_involutive_bwd gs idx j g tgt hg hp h

end Vicut.DelimThms
namespace Vicut.DelimThms
open Vicut Vicut.Delim

/-- with the cursor on a delimiter (inside its line) `%` starts from that delimiter -/
theorem pick_on_delim (s : MS) (g : Gr) (hg : s.gs[s.cur]? = some g) (hall : all.contains g = true)
    (hl : s.cur < s.eol) : pick s = some s.cur := by
  have hlt : s.cur < s.gs.length := (List.getElem?_eq_some_iff.mp hg).1
  have hseg : seg s.gs s.cur s.eol = g :: ((s.gs.take s.eol).drop (s.cur + 1)) := by
    unfold seg
    have h2 : s.cur < (s.gs.take s.eol).length := by simp; omega
    rw [List.drop_eq_getElem_cons h2]
    congr 1
    rw [List.getElem_take]
    simp [List.getElem?_eq_getElem hlt] at hg
    exact hg
  unfold pick findFwd
  rw [hseg]
  have hmem : g ∈ all := by simpa using hall
  simp [List.findIdx?_cons, hmem]

/-- … so there `%` is `matchFrom` at the cursor, and by `matchFrom_twice` a second `%` from the place reached
leads back -/
theorem findMatching_on_delim (s : MS) (g : Gr) (hg : s.gs[s.cur]? = some g) (hall : all.contains g = true)
    (hl : s.cur < s.eol) : findMatching s = matchFrom s.gs s.cur := by
  unfold findMatching
  rw [pick_on_delim s g hg hall hl]

end Vicut.DelimThms
