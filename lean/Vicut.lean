import Vicut.Model.Format
import Vicut.Model.Exec
