#!/bin/sh
# Build the framework from files on disk only (offline).
set -e
cd "$(dirname "$0")"
export CARGO_NET_OFFLINE=true
python3 tools/extract_tables.py
(cd lean && lake build Vicut driver)
(cd /repo && RUSTFLAGS='--cfg vicut_verif' cargo build --release --offline --target-dir /verif/.build/hooked)
