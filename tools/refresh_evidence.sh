#!/bin/sh
# Re-run every claimed check (quick) on the unchanged tree so that the committed evidence is current.
cd /verif
for p in $(python3 -c "import json; print(' '.join(c['property_id'] for c in json.load(open('MANIFEST.json'))['checks']))"); do
  ./check "$p" --tier quick 2>&1 | grep -E "VIOLATION|^\["
done
