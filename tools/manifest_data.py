HOOK_COMMITS = ["7de202d", "7f6c320", "bd5f58f", "f5c511f", "6cf08df", "6a57454"]
FIX_COMMITS = ["7a73b90", "307c7cf", "73e9739", "b6ad768", "06a0422", "37593fd", "b26bda1", "ef4414e", "83534a3", "9d32858", "8df6799", "bfa46be", "d5169bc", "e984a30", "8e975df", "0e9fd95", "93bc5a2", "0df18c2", "dae6c16", "f32a1a0", "6b14b06", "641f662", "5fd891f", "12b678f", "5af4846", "35b9151", "1a0d573", "4dd26bc", "3419442", "a44aef0", "bfa15ff", "db4d047", "05ea952", "1883869", "befdf8c", "bcd23fd", "1927f9b", "ac62d90", "f75f317", "6a8014c", "daaa51f", "ba3fa7b", "5bbf9b9", "92b62e9", "81b93bb", "ccfba48", "848110b", "1f0fadd", "2e48913", "c4716f8", "602f313", "8ad806a", "f7e2646", "a761f43", "a95d6d3", "1f4e5d1", "5968289", "67f7513", "0cdfd90", "f9149ef", "24a4bde", "6db7650", "7be5856", "12116d5", "8fa59dd", "302302f", "1a27068", "aec32a0", "1ed8bc1", "0954d9e", "30a6747", "377b03c", "819437b", "dd2e4f2", "7751e1d", "b2198dd", "8117828", "708f7e5", "5530bbc", "6285bcf", "3a24e4e", "687f35a", "673f6a4"]

NOTE_COMMON = ("Trusted: Lean kernel (axioms propext/Classical.choice/Quot.sound only), the hand-written model's "
               "fidelity outside the sampled correspondence, rustc/std and third-party crates as black boxes, the guarded hooks.")

CLAIMS = {
    "C02": {
        "level": "PARTIAL. The oracle is real Vim: a committed recording of Vim 9.0 on 274 547 cases (every buffer over a 5-symbol alphabet up to length 3 x every "
                 "cursor x 641 commands of the supported subset with counts, plus realistic multi-line and multi-byte records with 1-3 command sequences) is replayed "
                 "on vicut through the key loop and compared on text and cursor; the deviations present on the current tree are pinned by corpus id (one open finding), "
                 "any other deviating case is a violation with the case as replay; a sample is re-recorded with /usr/bin/vim on every run to check the recording. "
                 "Kernel-checked only for VimSpec, the documented single-line fragment {h l 0 $ x X with counts}: the normal-mode cursor invariant for every key "
                 "string, motions never change the text, what [n]x / [n]X remove, and [n+1]x = x;[n]x exactly when enough characters remain (with the end-of-line "
                 "counter-example); and conformance of the vicut model with VimSpec on that fragment: for every one-line buffer, cursor and count the C08 "
                 "motion/operator model (tied to the real eval_motion/exec_verb by the correspondence check) computes VimSpec's result for [n]h, [n]l, 0 and $ and leaves "
                 "VimSpec's text for [n]x and [n]X. VimSpec itself is compared with the recorded Vim on every case of its fragment.",
        "note": NOTE_COMMON + " This property is conformance to an external program over a finite recorded corpus: outside the VimSpec fragment the replay is a differential "
                "test, not a proof, and is labelled as such. 33% of the corpus deviated at the pinned commit (70 717 cases: line-end and final-newline handling, whole-line "
                "commands, put, word/sentence/paragraph objects and motions); the root causes were repaired in 33 fix commits and 4% of the first corpus (11 193 of 214 934 cases) is left; a multi-line family recorded afterwards (59 613 cases) added 4 656 more, most of them repaired since; 11 485 of 274 547 are left, recorded by corpus id.",
        "technique": "recorded-oracle differential replay (Vim 9 corpus) + Lean 4 proofs: laws of the VimSpec fragment and conformance of the vicut model with it; VimSpec validated against the corpus",
    },
    "C10": {
        "level": "Kernel-checked for the modelled functions: reading a field never panics for any cursors, selection and text; drain accepts every range; delete, "
                 "change and yank never panic for any MotionKind (in range or not), register and register bank; this_line().unwrap() is safe for every cursor inside the "
                 "text; the argument parser and the key reader are total (their definitions are accepted without `partial`: no hang). Every run is a crash census of the "
                 "real process over generated command lines (CLI grammar and malformed variants, per-mode key strings and raw fuzz, vic scripts and token-deleted "
                 "variants) against empty, newline-only, 5000-column, multi-byte, combining, ZWJ, CRLF and NUL texts: any panic, signal, status other than 0/1, silent "
                 "status 1, invalid UTF-8 or timeout is a violation with the command line as replay.",
        "note": NOTE_COMMON + " PARTIAL by nature: absence of panics in the unmodelled code (motion engine, ex parser, regex handling, vic evaluator) is only sampled by "
                "the census, not proved; the process-level properties (signals, UTF-8 validity of stdout, exit status) cannot be expressed in the model at all. Six crash "
                "classes found by the census were repaired.",
        "technique": "Lean 4 proof (totality / no-failure theorems for the modelled functions) + process-level crash census with backtrace classification",
    },
    "C17": {
        "level": "A reference interpreter of the vic core is written in Lean (total, fuel-indexed). Kernel-checked about it: the parser's left fold makes arithmetic "
                 "strictly left to right (value of a chain = left-to-right application of the operators to the operand values, errors included); block scoping for "
                 "every program, fuel and environment: after any if/elif/else, while/until or for statement - whatever its bodies declare, assign, loop over, call "
                 "or return - and after any function call, the visible variable names are frame by frame those from before (proved by a nine-way mutual invariant "
                 "over the whole interpreter), hence a name not visible before a block is not visible after it. Every run generates programs from the core grammar "
                 "(depth <= 4, ~40 statements), runs the real `vicut '<script>'` and compares stdout and exit status with the interpreter on the same AST; scope "
                 "probes read a block-local variable after the block.",
        "note": NOTE_COMMON + " PARTIAL: the tie between vic.pest/parse_vic and the AST the generator emits is by construction of the generator (source and AST are "
                "produced together) and validated only through the output comparison; built-ins fed from an input buffer are not generated; break/continue, ternaries, "
                "regex values, registers, buffers and the Vim-command statements are outside the core. Eight genuine defects were repaired on the way (call arguments, "
                "negative literals, && || chains, <= and **, for over a literal array, element assignment in a block, nested return).",
        "technique": "Lean 4 reference interpreter + proof (mutual invariant by induction on fuel; left-fold lemma) + differential run of generated programs against the real CLI",
    },
    "C20": {
        "level": "Kernel-checked for every command content (verbs and motions are opaque), every count, every register and every in-between history: '.' after a "
                 "repeatable X hands exactly X to the editor; non-repeatable commands (motions, yanks, searches, failed commands) in between leave the recorded "
                 "replay unchanged; a count given to '.' yields X with that count where the parser would put it (normalize_counts) and replaces X's own count; k dots "
                 "execute X k times; '.' after an insert/replace session replays opening command, typed text (session count times) and <esc>, with a count going to "
                 "the motion of a change and to the repetitions otherwise; equal command lists from equal states have equal effects for any editor. Every run "
                 "compares histories 'X, between, dots' with 'X, between, X retyped' through the real key loop (final text, cursor, all registers), compares the "
                 "commands each '.' hands to LineBuf::exec_cmd with those of the retyped X, and runs the Lean repeat machine on the recorded X against the commands "
                 "the '.' really executed.",
        "note": NOTE_COMMON + " What a command does once handed to LineBuf::exec_cmd is outside C20 (C08 / C02). Visual-mode changes repeated with '.' (range capture) "
                "are not in the generated set. Four genuine defects were repaired ('.' with a count, g? not repeatable, session replay, and counts on a/A/I).",
        "technique": "Lean 4 proof (repeat machine: recorded replay -> commands executed; induction over in-between commands and chains) + metamorphic check and command-trace correspondence through the key-loop hook",
    },
    "C11": {
        "level": "Kernel-checked for every key engine (per-key transition, end-of-argument flush and reset are parameters): if every command of a sequence is complete "
                 "(from a settled state - flush and reset are no-ops - its keys reach a settled state), then every grouping of the commands into arguments, with or "
                 "without --keep-mode, reaches the state of typing all keys in one go, any two groupings agree, and they still agree after any later arguments "
                 "(fields); without --keep-mode every argument starts in ViNormal::new() whatever the previous one left open, so the next argument depends on the "
                 "previous one only through the editor part; with --keep-mode an argument is its keys plus the flush. Every run executes 2-5 (thorough 2-8) "
                 "complete commands under all 2^(k-1) splittings through the real driver loop and compares text, cursor, registers, mode and two later fields, "
                 "checks the theorem's hypothesis at every boundary on the real state (normal mode, nothing pending, set_normal_mode changes nothing), and checks "
                 "unfinished arguments (pending count/register/operator/prefix dropped; open insert/visual/replace mode: the next argument acts as in a fresh "
                 "session started from the text, cursor and registers left; --keep-mode: [OPEN, t] = [OPEN t]).",
        "note": NOTE_COMMON + " The key engine itself is a parameter of the theorems; their hypotheses are validated on the implementation per case, not proved of it. "
                "History-dependent followers (., u, n, ;) are excluded from the open-mode comparison because the repeat/undo/search state legitimately persists.",
        "technique": "Lean 4 proof parametric in the key engine (split invariance by induction over the grouping) + hypothesis validation and all-splittings metamorphic check through the session hook",
    },
    "C09": {
        "level": "Kernel-checked for every text, cursor and command: every sequence of ClampedUsize operations keeps the cursor under its bound; whatever a verb did, "
                 "the exec_cmd epilogue re-establishes bound = grapheme count, cursor under bound, offset table absent-or-fresh whenever the text changed, and under the "
                 "normal clamp leaves the cursor off the terminator of a non-empty line; set_normal_mode / enforce_cursor_clamp (the three mode-return sites, after fix "
                 "4dd26bc) end on a character and off any terminator; with a well-formed table the reported byte position is the byte length of the printed text before "
                 "the cursor and every cut is at a grapheme boundary (a stale table provably is not); this_line() always exists and contains the cursor, so the column "
                 "cannot underflow and counts graphemes since the line start (texts without CR LF); the charwise selection update keeps the selection ordered, inside the "
                 "text and containing the cursor. Every run dumps the real editor's state after every key command of random histories (1-40 commands, all modes) and of "
                 "every history up to depth 2 (quick) / 3 (thorough) over a 69-command alphabet, and checks the invariants directly, against the editor's own "
                 "line/col/pos/char reports, and against the Lean predicates and set_normal_mode model.",
        "note": NOTE_COMMON + " PARTIAL: the inductive step 'every command preserves the invariants' is proved for the bookkeeping around the verb (clamp, epilogue, "
                "mode return, charwise selection), not for each verb/motion body — those are covered only by the per-state runtime check; linewise and block selection "
                "updates are checked at run time only. Open findings: visual.cursor_at_end, crlf.geometry.",
        "technique": "Lean 4 proof (invariant re-establishment for arbitrary verbs; table/line-geometry theorems) + Lean-evaluated invariant on every observed state through the key-loop trace hook",
    },
    "C08": {
        "level": "Kernel-checked for every buffer, cursor, register bank, register name and *every* MotionKind the motion engine can hand to a verb (so for every "
                 "motion and text object, present or future): delete/change remove exactly the span s..e (text = before-span ++ after-span) and store exactly the "
                 "removed text; yank leaves the text alone and stores the covered text; linewise delete stores a line register; a lower-case/unnamed register is "
                 "overwritten and no other register changes, an upper-case one appends, an invalid name changes nothing; put inserts exactly the register text at "
                 "one grapheme boundary; typing inserts exactly the typed character; r replaces exactly the grapheme under the cursor; g~ gu gU ~ keep every "
                 "grapheme's length, change only single ASCII letters and only inside the span; g? keeps the text outside the span, maps char by char, is an "
                 "involution and fixes non-letters. Every run traces the real editor at LineBuf::exec_cmd (MotionKind, verb, register, text, real segmentation, "
                 "cursor/clamp, all registers before and after) and checks each pair directly against the property and against the Lean verb model.",
        "note": NOTE_COMMON + " Simple motions (h l 0 ^ $ | gg G, whole buffer) are modelled (Model/Motions.lean): l and h never cross or land on a line terminator, every position they produce lies inside the text, so an operator applied to them gets a range s <= e <= len; the model's MotionKind is compared with the real eval_motion's on every such command of the run. The word scanners (w W e E b B, counts, cw) are modelled over character classes (Model/Words.lean): w/W never move backwards and land on a non-blank or at the end, b/B never move forwards, results inside the text; compared with the real scanners on every word motion of the run. The delimiter layer is modelled (Model/Delims.lean): `%` (the nesting scan is characterised soundly and completely: the answer is the first partner delimiter at which the nesting of that kind returns to zero; `%` from a closer was broken at the pinned commit and is repaired by fix 3a24e4e, the old scan kept with a kernel-checked witness), `[(` `])` `[{` `]}` (an unescaped delimiter of the kind asked for on the right side of the cursor), the bracket objects i( a( i[ a] i{ a} i< a> and the quote objects (the span lies between an unescaped opener and a later unescaped closer / between two quotes on the cursor's line); each is compared with the real eval_motion's MotionKind on every such command of the run, with a generated family of nested, unbalanced and escaped delimiters and quotes. For the other motions and text objects the motion engine (which span a motion denotes) is an input here, not verified; puts from line/block registers and visual-block "
                "register contents are compared on the implementation only through the direct oracle (text side), not modelled; Indent/Dedent/JoinLines/Equalize and ex "
                "verbs are outside C08's operator list (ex is C16). Pre-states with a stale offset cache are skipped and counted (C09 owns freshness).",
        "technique": "Lean 4 proof (frame theorems quantified over MotionKind, registers and buffers) + per-verb correspondence and direct property oracle through the exec_cmd trace hook",
    },
    "C16": {
        "level": "Kernel-checked facts about the line-oriented reference and vicut's address evaluation, for every text, range and matcher: a resolved line/range lies "
                 "inside the buffer and is ordered; a backwards range addresses the same lines; $ is the last line and % every line, also on the real buffer "
                 "(last_line_number of any decomposed buffer = number of bodies - 1, terminated or not); addresses past the end name nothing and ranges are clipped; "
                 ":s changes exactly the addressed lines and never a terminator; one match = before ++ replacement ++ after, without g only the first; :d removes exactly "
                 "the addressed lines; :g/pat/d keeps exactly the non-matching lines. Every run executes chains of 1-4 ex commands through the real editor and compares "
                 "the buffer after every command with a Python line-oriented reference and (s, d, g) with the Lean reference fed with the same regex verdicts.",
        "note": NOTE_COMMON + " PARTIAL: the refinement 'vicut's grapheme-level Substitute/Delete = the reference' is established per run by the correspondence, not by a theorem (the theorems are about the reference and the address layer). Texts are NFC (a match boundary inside a grapheme cluster is outside the claim); replacement strings are literal.",
        "technique": "Lean 4 proof about an executable line-oriented reference + address model (reusing C13's line decomposition) + three-way differential (real editor / Python reference / Lean reference)",
    },
    "C19": {
        "level": "Kernel-checked for every ascending list of match positions (any regex engine, text and pattern), every cursor and count: /P lands on the least match "
                 "start greater than the cursor, else (wrapping) on the least one; ?P mirrors; the landing point is always a match start; with matches present a search "
                 "always lands, with none nothing moves; a count takes the count-th match in visiting order (cyclically); n follows and N opposes the direction of the "
                 "last search; the byte-offset-to-grapheme conversion is exact for every text with non-empty graphemes. Every run drives chains of / ? n N with counts "
                 "through the real editor (-m: cursor, -c: field) and compares the cursors with the property evaluated literally and with the model; the text must not change.",
        "note": NOTE_COMMON + " The regex engine is an input (match starts); patterns are restricted to the subset on which Python's re and the regex crate agree. 'count = k repetitions' is checked per run, the theorem states the cyclic-index form.",
        "technique": "Lean 4 proof parametric in the matcher (ordering/rotation of match starts, offset table inversion) + literal-specification oracle and model correspondence through the session hook",
    },
    "C07": {
        "level": "Kernel-checked for every history of commands, undos and redos, where a command is *any* transformation of the text (the machine is parametric in the "
                 "editor): the two stacks always chain back from the current text; u gives the text before the most recent undoable change (for an insert run: before "
                 "the run); <c-r> after u gives back exactly the text u replaced; |undo| u's reach the original input; undo/redo only ever show texts that were states of "
                 "the buffer; no transition fails (the pre-fix splice needed pos = 0: kept as a lemma). Every run replays histories of 1-12 edits interleaved with u/<c-r> "
                 "through the real editor, feeds the observed (verb class, text) sequence to the machine and compares text and both stacks after every LineBuf::exec_cmd.",
        "note": NOTE_COMMON + " Edit::diff's byte prefix/suffix is not part of the machine (only whole-buffer snapshots matter after fix 307c7cf); cursor placement after undo is outside C07.",
        "technique": "Lean 4 proof (invariant by induction over operations, refinement to 'list of earlier texts') + per-command correspondence through the key-loop trace hook",
    },
    "C01": {
        "level": "Kernel-checked for every post-command buffer, every start cursor, every end cursor and every selection (hence every command, including failing "
                 "and overshooting ones): the field is the graphemes between the two cursor positions, both included, clamped to the text; it is cut at grapheme "
                 "boundaries (text = before ++ field ++ after); empty buffer gives the empty field; charwise/linewise/block selections give exactly the selected "
                 "graphemes; the only panic (selection ending past the text) is excluded by the selection-inside-text invariant, with the pre-fix witness kept. "
                 "Every run feeds the real read_field's own (start cursor, post text, real segmentation, end cursor, selection) to the model and compares the field, "
                 "checks that motion/selection/yank commands leave the text byte-identical, and checks the field against the cursor-span / whole-line specification.",
        "note": NOTE_COMMON + " PARTIAL: 'passive commands keep the text' is checked on the implementation for every generated command (and thorough: exhaustively on a small scope) but is not yet a theorem about the editor model; for text objects the selected text is the editor's own select_range; for block selections it is additionally computed from the two cursors alone (the rectangle between them, each row cut at its line's last character), corners on line terminators included (fix 673f6a4 made that true). get_block_select_windows is modelled (Model/Block.lean): every window is the row of one line between the anchor's and the cursor's, ordered, inside its line, no wider than the rectangle, never taking the line's terminator; the model's windows are compared with the editor's own on every block case.",
        "technique": "Lean 4 proof parametric in the key engine (quantified over cursors, text and selection) + correspondence at read_field's boundary through the session hook",
    },
    "C18": {
        "level": "Kernel-checked: the source's two flag tables (regenerated every run) put each documented short/long pair in one arm, are disjoint, and the scope "
                 "table covers every command flag; in the model parser a long spelling at the head of the remaining arguments takes exactly the step of its short "
                 "spelling in every parser state; an option flag at top level sets its field and nothing else and is rejected inside an open scope; parsing commutes with setting a "
                 "boolean option for every argument list, scope stack and parser state (parse_comm, induction over the whole parser), so a flag met now equals the "
                 "option set at the very end and may stand before or after any self-contained top-level prefix of command flags (option_position). The vic "
                 "translation and -d/-t positions are decided per run on the real code: every variant's parsed Opts/Cmd tree must equal the short-flag one and "
                 "stdout/exit must be byte-identical; the model parser is compared on every flag spelling.",
        "note": NOTE_COMMON + " -d/-t (options with an operand) commute with everything except a second -d/-t (last wins): covered by the one-step lemma and the position sweep, not by parse_comm; the pest-generated vic parser is compared, not modelled.",
        "technique": "Lean 4 proof (decide over translator-generated flag tables; commutation of the parser with option setting by induction over argv) + parser correspondence + four-spelling differential runs of the real binary",
    },
    "C13": {
        "level": "Kernel-checked, for every buffer given by its line decomposition (any line bodies without newline, last line terminated or not; every buffer "
                 "without CR-LF clusters has one: theorem decompose), every match predicate (any regex engine) and both polarities: line_bounds gives each "
                 "line's start and extent, the Global/NotGlobal motion returns exactly the numbers of the lines whose text (without terminator) matches / does not "
                 "match, bottom-up, each once; -v is the complement of -g; the cursor is put on the line's first character; --else runs iff no line is selected. "
                 "Every run compares total_lines/line_bounds and the Global motion model-vs-code (graphemes from the real segmenter, verdicts from the real regex crate) "
                 "and runs marking commands inside -g/-v/--else on the real binary against a simulation over the reference lines.",
        "note": NOTE_COMMON + " CR-LF texts are outside the claim (line_bounds compares graphemes with \"\\n\" while total_lines counts characters). The regex crate is a black box: its verdicts are inputs.",
        "technique": "Lean 4 proof (induction over the line decomposition) parametric in the matcher + differential correspondence + marking-command runs on the real binary",
    },
    "C04": {
        "level": "Kernel-checked: for every assignment of units to workers (any worker count, any stealing), every completion order, every register-bank "
                 "type and every editor core, the parallel run returns exactly the --serial result, because execute() resets the thread's registers first; each "
                 "unit's records are those of the unit run alone; the pre-fix behaviour is kept with a kernel-checked two-schedule counterexample. Every run probes "
                 "read-before-write command lists through the real execute() on one thread (registers incl. line/block kinds, search pattern, dot/char-search/gv state) and "
                 "compares the real binary under RAYON_NUM_THREADS 1..32 x seeded jitter with --serial (stdin, files, --linewise, -i).",
        "note": NOTE_COMMON + " PARTIAL with respect to the runtime: that rayon runs each closure once and returns a permutation of the units is assumed by the theorem and only explored (thread counts x jitter), not proved.",
        "technique": "Lean 4 proof over a schedule model (workers with thread-local state, arbitrary assignment + completion permutation) + same-thread unit probes and schedule exploration of the real binary",
    },
    "C05": {
        "level": "Kernel-checked theorems over an abstract file system, for any per-file processing function (every command list, mode and renderer): "
                 "after a successful -i run each named file holds exactly the output computed for it, identity processing leaves files byte-identical, "
                 "a path whose content changed is a named file or the backup sibling of one, and with --backup the sibling holds the original bytes "
                 "(under the stated separation of names and backup paths); execute()'s records do not depend on -i. Every run compares the real binary's "
                 "directory after `-i` with the stdout of the same invocation without -i per file, with the originals for motion-only lists, and with the model's write-back plan, in all four modes, with and without --backup.",
        "note": NOTE_COMMON + " The file system is modelled as an association list; fs::write/fs::copy are assumed atomic-or-abort.",
        "technique": "Lean 4 proof over a file-system plan model (parametric processing) + twin-run comparison on the real binary + model plan correspondence",
    },
    "C06": {
        "level": "Kernel-checked: for every fault pattern (which files cannot be read / whose processing aborts), every file list, backup setting and "
                 "processing function, a run that exits non-zero leaves the file system exactly as it was (no partial writes, no half-done backup), and it "
                 "exits non-zero iff a fault exists; the pre-fix serial driver is kept with a kernel-checked counterexample. Every run executes the full fault "
                 "matrix on the real binary (2-4 files, every subset/position, invalid UTF-8 / template abort / directory / vanished, five modes, +-backup) and compares the whole directory listing and exit status with the model's plan.",
        "note": NOTE_COMMON + " Not modelled: a write that fails midway, a crash inside fs::write, races between argument validation and reading.",
        "technique": "Lean 4 proof over a file-system plan model with arbitrary fault plan + exhaustive small-scope fault matrix on the real binary",
    },
    "C15": {
        "level": "Kernel-checked theorems over the reader's byte queue, for arbitrary following bytes: an unescaped <name> whose name is in the alias "
                 "table is consumed as that one key; a non-alias <...> and an escaped \\< are the literal character; each documented alias and its raw "
                 "byte/escape sequence yield the same KeyEvent and leave the same reader (esc, enter/return, BS, del, arrows, home, end, c-<letter>); "
                 "read_key always consumes at least one byte; equal key sequences give equal behaviour for any mode function. The alias, control-byte and "
                 "escape-sequence tables are regenerated from reader.rs/keys.rs on every run and re-checked against the model by decide. The model "
                 "reader is compared with the real RawReader on grammar strings, raw fuzz and random bytes, and both spellings are run through the real editor in every mode.",
        "note": NOTE_COMMON + " Open findings: <CR> vs raw CR (Normal/Visual/Replace), <tab> vs raw TAB. UTF-8 losslessness is proved for ASCII and tested for multi-byte; raw ESC followed by '[' and a multi-byte character splits that character (explored, not claimed).",
        "technique": "Lean 4 proof over a byte-level reader model + table translator (decide over generated tables) + differential correspondence + behavioural comparison through the hook",
    },
    "C12": {
        "level": "Kernel-checked theorems for every editor (read_field, set_normal_mode, global motion and line jump are parameters): the parser "
                 "turns -r N R into Repeat{last N commands in order, R+1} at top level and in -g/-v/--else scopes (clamping N, counting a closed "
                 "scope as one command); a Repeat runs exactly like its body written out; unrolling every Repeat at any depth and inside any scope "
                 "leaves execSeq and the whole execute() result (including the whole-buffer fallback decision) unchanged. The model parser is compared "
                 "with the real Opts::parse on generated and malformed argv every run, and the -r form is compared with the written-out form on the real binary.",
        "note": NOTE_COMMON + " Editor hypotheses of the theorem: set_normal_mode idempotent, line jump keeps Normal mode. vic `repeat k {B}` is covered by the same execution theorem; its pest parser is compared, not modelled.",
        "technique": "Lean 4 proof (mutual structural induction over the nested Cmd tree, parametric editor) + parser correspondence (process-level Opts dump) + metamorphic runs of the real binary",
    },
    "C03": {
        "level": "Kernel-checked theorems, for every input text, every `execute` function (hence every command list and option set) and every "
                 "completion order of the workers: get_lines is lossless and cuts exactly after each newline; sorting by index undoes any "
                 "permutation, so the collected records / the rewritten file are the in-order concatenation of the per-line results; the "
                 "plain, delimiter and template renderers commute with concatenation, with the exact framing-newline and whole-buffer-sentinel "
                 "relation stated for stdout. get_lines is compared model-vs-code every run and the proved relation is evaluated on the real "
                 "binary (--linewise vs one run per line; stdin/file/-i, serial/parallel, plain/delimiter/template/JSON).",
        "note": NOTE_COMMON + " rayon is assumed to run each closure once and to deliver results that are a permutation of the indexed units (the theorem covers every permutation).",
        "technique": "Lean 4 proof (induction; core mergeSort/Perm lemmas) parametric in execute + differential correspondence + metamorphic relation on the real binary",
    },
    "C14": {
        "level": "Kernel-checked theorems for every record list / field content / template / delimiter: sentinel passthrough, "
                 "join-by-delimiter, JSON string escape round trip and control-freedom, object = last-wins key-sorted map, template "
                 "interpolation/escape/unknown/unclosed laws, field numbering of the ExecCtx state machine for every editor, trim. "
                 "The model's three formatters are byte-compared with the real ones on generated records every run, and the real "
                 "binary's records/stdout are checked against the numbering spec and a reference JSON parser.",
        "note": NOTE_COMMON + " serde_json's pretty printer is modelled (not verified) and compared byte-for-byte; a full JSON-document parser is not modelled (string-literal round trip + structural shape theorem instead).",
        "technique": "Lean 4 proof (induction over records/templates/strings, decide on finite tables) + differential correspondence model vs hooked code",
    },
}

_ALL = ["C%02d" % i for i in range(1, 21)]
PENDING = {p: "check not built yet in this round (planned: DESIGN.md section 8 %s); not claimed until its quick check passes on the unchanged tree" % p
           for p in _ALL if p not in CLAIMS}
