HOOK_COMMITS = ["7de202d"]

NOTE_COMMON = ("Trusted: Lean kernel (axioms propext/Classical.choice/Quot.sound only), the hand-written model's "
               "fidelity outside the sampled correspondence, rustc/std and third-party crates as black boxes, the guarded hooks.")

CLAIMS = {
    "C14": {
        "level": "Kernel-checked theorems for every record list / field content / template / delimiter: sentinel passthrough, "
                 "join-by-delimiter, JSON string escape round trip and control-freedom, object = last-wins key-sorted map, template "
                 "interpolation/escape/unknown/unclosed laws, field numbering of the ExecCtx state machine for every editor, trim. "
                 "The model's three formatters are byte-compared with the real ones on generated records every run, and the real "
                 "binary's records/stdout are checked against the numbering spec and a reference JSON parser.",
        "note": NOTE_COMMON + " serde_json's pretty printer is modelled (not verified) and compared byte-for-byte; a full JSON-document parser is not modelled (string-literal round trip + structural shape theorem instead).",
        "technique": "Lean 4 proof (induction over records/templates/strings, decide on finite tables) + differential correspondence model vs hooked code",
    },
}

_ALL = ["C%02d" % i for i in range(1, 21)]
PENDING = {p: "check not built yet in this round (planned: DESIGN.md section 8 %s); not claimed until its quick check passes on the unchanged tree" % p
           for p in _ALL if p not in CLAIMS}
