#!/usr/bin/env python3
"""Replay the witness of every entry of known_findings.json on the current build:
fixed entries must pass, open entries with a witness must (still) fail."""
import json, os, sys
sys.path.insert(0, os.path.dirname(__file__))
from vlib import *

build_hooked()
bad = 0
for f in (lambda k: k["entries"] if isinstance(k, dict) else k)(json.load(open(os.path.join(VERIF, "known_findings.json")))):
    w = f.get("witness")
    if not w:
        continue
    ok, detail = run_witness(w)
    want_ok = f["status"] == "fixed"
    if ok != want_ok:
        bad += 1
        print("MISMATCH %s %s (%s): witness %s: %s" % (f["property"], f["id"], f["status"], "passes" if ok else "fails", detail))
close_servers()
print("witnesses checked, %d mismatches" % bad)
sys.exit(1 if bad else 0)
