#!/usr/bin/env python3
"""Regenerate MANIFEST.json from tools/manifest_data.py (single source of truth for claims)."""
import json, os, sys
HERE = os.path.dirname(os.path.abspath(__file__))
sys.path.insert(0, HERE)
from manifest_data import CLAIMS, PENDING, HOOK_COMMITS
VERIF = os.path.dirname(HERE)
checks = []
for pid, c in sorted(CLAIMS.items()):
    checks.append({
        "property_id": pid,
        "quick_cmd": f"./check {pid} --tier quick",
        "thorough_cmd": f"./check {pid} --tier thorough",
        "evidence_file": f"/verif/evidence/{pid}.json",
        "replay_cmd_template": f"./check {pid} --replay {{path}}",
        "engine": "lean4-model+correspondence",
        "level_claimed": {"category": "proof", "text": c["level"], "design_ref": c.get("ref", "DESIGN.md §8 " + pid)},
        "level_note": c["note"],
        "technique": c["technique"],
    })
m = {
    "version": 1,
    "setup_cmd": "./setup.sh",
    "hooks": {
        "guard": "--cfg vicut_verif",
        "enable": "RUSTFLAGS='--cfg vicut_verif' cargo build --release --offline --target-dir /verif/.build/hooked (run by every check from /repo's working tree)",
        "baseline_off_cmd": "cd /repo && cargo nextest run --workspace --no-fail-fast --tool-config-file pb:/w/lib/nextest.toml --profile pb --test-threads 8 --offline",
        "source_commits": HOOK_COMMITS,
        "add_only": True,
    },
    "engines": [
        {"name": "lean4-model+correspondence", "path": "/verif/lean", "serves_properties": sorted(CLAIMS.keys()),
         "kind_free_text": "Lean 4 theorems about a hand-written executable model (lean/Vicut/Model, lean/Vicut/Props), tied to /repo on every run by a differential correspondence check (hook server src/verif.rs vs compiled model driver lean/Driver.lean) and a small table translator; property oracles are then evaluated on the real binary to turn a broken tie into a replay"},
    ],
    "checks": checks,
    "not_applicable": [{"property_id": p, "reason": r} for p, r in sorted(PENDING.items())],
    "notes": "All checks: cwd /verif, honour VERIF_SEED / VERIF_TIER, rebuild the hooked binary from /repo's working tree, rewrite evidence/<id>.json. Known findings: known_findings.json.",
}
json.dump(m, open(os.path.join(VERIF, "MANIFEST.json"), "w"), indent=1)
print("claimed:", sorted(CLAIMS), "pending:", sorted(PENDING))
