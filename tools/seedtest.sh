#!/bin/sh
# usage: tools/seedtest.sh <patch> <prop> [<prop>...]  — apply a seeded change to /repo, run quick checks, undo.
patch="$1"; shift
cd /repo && git apply "$patch" || { echo "PATCH DOES NOT APPLY"; exit 2; }
cd /verif
for p in "$@"; do ./check "$p" --tier quick 2>&1 | grep -E "VIOLATION|KNOWN|^\[" ; done
cd /repo && git checkout -- . && git status --short | grep -v '^??' | head -3
