#!/bin/sh
# usage: tools/seedtest.sh <patch> <prop> [<prop>...]  — apply a seeded change to /repo, run quick checks, undo.
# Evidence files are saved and restored: evidence must only ever describe runs on the unchanged tree.
patch="$1"; shift
cd /repo && git apply "$patch" || { echo "PATCH DOES NOT APPLY"; exit 2; }
cd /verif
rm -rf .build/evidence_saved; mkdir -p .build/evidence_saved; cp evidence/*.json .build/evidence_saved/ 2>/dev/null
for p in "$@"; do ./check "$p" --tier quick 2>&1 | grep -E "VIOLATION|^\[" ; done
cp .build/evidence_saved/*.json evidence/ 2>/dev/null
cd /repo && git checkout -- . && git status --short | grep -v '^??' | head -3
