#!/usr/bin/env python3
"""Maintenance tool (never run by a check): record an additional case family with Vim and append it to
corpus/vim_corpus.json.gz. Family added on 2026-09-30: `dot:counted` — a counted command repeated by a counted
dot (`2x3.`), which the first corpus lacked (a seeded change that multiplies the two counts went unnoticed).
Usage: tools/extend_corpus.py out.json   (then merge with --merge out.json)"""
import gzip, json, os, sys
sys.path.insert(0, os.path.dirname(__file__))
import record_vim
from vlib import graphemes_of  # noqa

CORPUS = os.path.join(os.path.dirname(__file__), "..", "corpus", "vim_corpus.json.gz")
TEXTS = ["abcdefghij\n", "ab cd ef gh ij kl mn\n", "aB cD eF\nGh iJ kL\nmn op\nq\n", "a,b;c.d e-f\nxy z\n",
         "naïve café 日本語 テキスト ok\nwörld done.\n", "  indented line here\n\n  more text\nlast\n"]
KEYS = ["2x3.", "3x2.", "2x2.", "2X2.", "3X2.", "d2w2.", "2dw3.", "d2l3.", "2dl2.", "2dd2.", "2rZ3.", "3rZ2.", "2~3.", "g~2l3.", "gU2w2.",
        "2J2.", "2x.", "x3.", "3x.", "d2w.", "dw3."]


def main():
    if sys.argv[1] == "--merge":
        new = json.load(open(sys.argv[2]))
        with gzip.open(CORPUS, "rt", encoding="utf-8") as f:
            corpus = json.load(f)
        have = {(c["text"], c["cursor"], c["keys"]) for c in corpus}
        nid = max(c["id"] for c in corpus) + 1
        added = 0
        for c in new:
            if (c["text"], c["cursor"], c["keys"]) in have:
                continue
            c = dict(c, id=nid)
            nid += 1
            corpus.append(c)
            added += 1
        with gzip.GzipFile(CORPUS, "wb", mtime=0) as f:
            f.write(json.dumps(corpus, ensure_ascii=False, separators=(",", ":")).encode())
        print("added", added, "cases; corpus now", len(corpus))
        return


ML_TEXTS = ["alpha beta\n  gamma delta.\n\nepsilon (zeta) eta\nlast\n", "one two. Three!\nfour\n\n\nfive six\n", "aa bb\ncc dd\nee ff\ngg\n"]


def gen_ml():
    """family added on 2026-09-30: every command of the corpus' command list at every cursor of three multi-line
    texts — the first corpus had its systematic part on buffers of up to three characters, whose lines all start
    near offset 0, and a cursor-placement regression on later lines went unnoticed."""
    import vimcorpus
    cases = []
    for t in ML_TEXTS:
        for cur in vimcorpus.cursors(t):
            for cls, keys in vimcorpus.commands():
                cases.append({"id": len(cases), "text": t, "cursor": cur, "keys": keys, "cls": "ml:" + cls})
    return cases


def gen():
    cases = []
    for t in TEXTS:
        gs = record_vim.graphemes(t)
        for cur, g in enumerate(gs):
            if g == "\n" and not (cur == 0 or gs[cur - 1] == "\n"):
                continue                       # normal-mode cursor positions only
            for k in KEYS:
                cases.append({"id": len(cases), "text": t, "cursor": cur, "keys": k, "cls": "dot:counted"})
    return cases


if __name__ == "__main__":
    if sys.argv[1] == "--merge":
        main()
    else:
        cases = gen_ml() if "--ml" in sys.argv else gen()
        from concurrent.futures import ThreadPoolExecutor
        rec = record_vim.record(cases)
        out = [{"id": c["id"], "text": c["text"], "cursor": c["cursor"], "keys": c["keys"], "cls": c["cls"],
                "vim_text": v["vim_text"], "vim_cursor": v["vim_cursor"]} for c, v in zip(cases, rec)]
        json.dump(out, open(sys.argv[1], "w"), ensure_ascii=False)
        print("recorded", len(out))
