#!/bin/bash
# usage: confirm_seed.sh <seed_id> <out_dir> <patch> <demo> <meta>
# Confirms a seeded change in a scratch worktree of /repo's HEAD: applies, builds, runs the pinned
# test suite, runs the demo on base and mutant. Writes /verif/seeded/<seed_id>/ on success.
set -u
id="$1"; out="$2"; patch="$out/$3"; demo="$out/$4"; meta="$out/$5"
WT=/tmp/seed/confirm_wt_$id; TGT=/tmp/seed/confirm_target
mkdir -p /tmp/seed; exec 9>/tmp/seed/confirm.lock; flock 9
cd /repo && git worktree remove --force "$WT" 2>/dev/null; git worktree add -q --detach "$WT" HEAD || exit 2
cd "$WT"
res="{}"
export CARGO_NET_OFFLINE=true CARGO_TARGET_DIR=$TGT
cargo build --release --offline -q 2>/dev/null; cp $TGT/release/vicut /tmp/seed/confirm_base_$id
if ! git apply "$patch"; then echo "[$id] PATCH DOES NOT APPLY to HEAD"; git -C /repo worktree remove --force "$WT"; exit 3; fi
if ! cargo build --release --offline -q 2>/tmp/seed/confirm_build_$id.log; then echo "[$id] DOES NOT COMPILE"; git -C /repo worktree remove --force "$WT"; exit 4; fi
cp $TGT/release/vicut /tmp/seed/confirm_mut_$id
testlog=$(cargo nextest run --workspace --no-fail-fast --tool-config-file pb:/w/lib/nextest.toml --profile pb --test-threads 8 --offline 2>&1)
tests=$(echo "$testlog" | grep -E "Summary" | tail -1)
# the pinned baseline: 119 stable passes; only these three may fail (two of them pass since fix 1f0fadd)
newfail=$(echo "$testlog" | grep -E "^\s+FAIL " | grep -v -E "normal_to_end_of_line|del_inner_line|put_block_preserve_formatting" | head -1)
bash "$demo" /tmp/seed/confirm_base_$id >/dev/null 2>&1; b=$?
bash "$demo" /tmp/seed/confirm_mut_$id >/dev/null 2>&1; m=$?
echo "[$id] tests: $tests | demo base=$b mutant=$m"
ok=0
case "$tests" in *"119 passed, 3 failed"*|*"120 passed, 2 failed"*|*"121 passed, 1 failed"*|*"122 passed"*) ok=1;; esac
[ -n "$newfail" ] && ok=0
if [ $ok = 1 ] && [ $b = 0 ] && [ $m != 0 ]; then
  d=/verif/seeded/$id; mkdir -p $d
  cp "$patch" $d/patch.diff; cp "$demo" $d/demo.sh
  python3 - "$meta" "$d/meta.json" "$tests" "$b" "$m" <<'PY'
import json,sys
m=json.load(open(sys.argv[1]))
m["confirmed"]={"base":"git -C /repo rev-parse HEAD at confirmation time","tests":sys.argv[3].strip(),"demo_exit_base":int(sys.argv[4]),"demo_exit_mutant":int(sys.argv[5]),
 "ran":["git worktree add (scratch) HEAD","git apply patch.diff","cargo build --release --offline","cargo nextest run (pinned baseline command)","demo.sh <base binary>","demo.sh <mutant binary>"]}
json.dump(m,open(sys.argv[2],"w"),indent=1)
PY
  echo "[$id] CONFIRMED -> $d"
else
  echo "[$id] NOT CONFIRMED"
fi
rm -f /tmp/seed/confirm_base_$id /tmp/seed/confirm_mut_$id
git -C /repo worktree remove --force "$WT"
