#!/usr/bin/env python3
"""Translator: regenerate lean/Vicut/Gen/Tables.lean from /repo/src (table-shaped code only).

Anchors on function names and match-arm syntax, never on line numbers. If an anchor is missing the
script exits non-zero (the tie is broken and the check says so)."""
import os, re, sys

REPO = os.environ.get("VICUT_REPO", "/repo")
HERE = os.path.dirname(os.path.abspath(__file__))
OUT = os.path.join(os.path.dirname(HERE), "lean", "Vicut", "Gen", "Tables.lean")


def read(p):
    return open(os.path.join(REPO, "src", p), encoding="utf-8").read()


def fn_body(src, header_re):
    m = re.search(header_re, src)
    if not m:
        raise SystemExit("anchor not found: " + header_re)
    i = src.index("{", m.end() - 1)
    depth, j = 0, i
    while True:
        c = src[j]
        if c == "{":
            depth += 1
        elif c == "}":
            depth -= 1
            if depth == 0:
                return src[i:j + 1]
        j += 1


KEYCODE = {"Esc": ".esc", "Enter": ".enter", "Backspace": ".backspace", "Delete": ".delete", "Insert": ".insert",
           "Home": ".home", "End": ".end_", "Left": ".left", "Right": ".right", "Up": ".up", "Down": ".down",
           "PageUp": ".pageUp", "PageDown": ".pageDown", "Tab": ".tab", "BackTab": ".backTab", "Null": ".null"}


def lean_str(s):
    out = '"'
    for ch in s:
        if ch == '"':
            out += '\\"'
        elif ch == "\\":
            out += "\\\\"
        elif ch == "\n":
            out += "\\n"
        elif ch == "\r":
            out += "\\r"
        elif ch == "\t":
            out += "\\t"
        elif ord(ch) < 32 or ord(ch) == 127:
            out += "\\x%02x" % ord(ch)
        else:
            out += ch
    return out + '"'


def rust_char(tok):
    """'a' | '\\r' | '\\x1b' | '\\u{9b}' | '\\\\' -> python str"""
    t = tok[1:-1]
    if t.startswith("\\x"):
        return chr(int(t[2:], 16))
    if t.startswith("\\u{"):
        return chr(int(t[3:-1], 16))
    return {"\\r": "\r", "\\n": "\n", "\\t": "\t", "\\\\": "\\", "\\'": "'", "\\0": "\0"}.get(t, t)


def lean_char_of(c):
    return "(Char.ofNat %d)" % ord(c)


def keycode_term(expr):
    expr = expr.strip()
    m = re.match(r"(?:KeyCode|K)::Char\(('(?:\\.|[^'])+'|'\\u\{[0-9a-fA-F]+\}')\)", expr)
    if m:
        return ".char " + lean_char_of(rust_char(m.group(1)))
    m = re.match(r"(?:KeyCode|K)::F\((\d+)\)", expr)
    if m:
        return ".f " + m.group(1)
    m = re.match(r"(?:KeyCode|K)::(\w+)$", expr)
    if m and m.group(1) in KEYCODE:
        return KEYCODE[m.group(1)]
    raise SystemExit("unknown KeyCode expression: " + expr)


def aliases():
    body = fn_body(read("reader.rs"), r"pub fn parse_byte_alias\(&mut self\)[^{]*\{")
    rows = []
    for m in re.finditer(r'((?:b"[^"]+"\s*\|\s*)*b"[^"]+")\s*=>\s*Some\(KeyEvent\(([^,]+(?:\([^)]*\))?),\s*mods\)\)', body):
        names = re.findall(r'b"([^"]+)"', m.group(1))
        term = keycode_term(m.group(2))
        for n in names:
            if n in ("c-", "s-", "a-"):
                continue
            rows.append((n, term))
    if len(rows) < 10:
        raise SystemExit("alias table: too few rows extracted")
    mods = re.findall(r'starts_with\(b"([csa]-)"\)\s*\{\s*mods \|= ModKeys::(\w+)', body)
    return rows, mods


def control_table():
    body = fn_body(read("keys.rs"), r"pub fn new\(ch: &str, mut mods: ModKeys\)[^{]*\{")
    rows = []
    for m in re.finditer(r"('(?:\\x[0-9a-fA-F]{2}|\\u\{[0-9a-fA-F]+\})')\s*=>\s*(\{[^}]*\}|E\([^\n]*\)),?\n", body):
        c = rust_char(m.group(1))
        rhs = m.group(2)
        if rhs.startswith("{"):
            # the '\x09' arm: no SHIFT in our setting -> E(K::Tab, mods)
            mm = re.search(r"else\s*\{\s*E\((K::\w+), mods\)", rhs)
            if not mm:
                raise SystemExit("control table: cannot read block arm for %r" % c)
            rows.append((ord(c), keycode_term(mm.group(1)), 0))
            continue
        mm = re.match(r"E\((K::\w+(?:\('(?:\\.|[^'])+'\))?),\s*mods(\s*\|\s*M::(\w+))?\)", rhs)
        if not mm:
            raise SystemExit("control table: cannot read arm " + rhs)
        bits = {"CTRL": 8, "ALT": 4, "SHIFT": 2, None: 0}[mm.group(3)]
        rows.append((ord(c), keycode_term(mm.group(1)), bits))
    if len(rows) < 30:
        raise SystemExit("control table: too few rows (%d)" % len(rows))
    return rows


def esc_tables():
    body = fn_body(read("reader.rs"), r"pub fn parse_esc_seq\(&mut self\)[^{]*\{")
    letters = [(ord(a), keycode_term(k)) for a, k in re.findall(r"b'([A-Z])'\s*=>\s*(?:Some\(KeyEvent\()?(KeyCode::\w+(?:\(\d+\))?)", body)]
    digits = []
    for ds, k in re.findall(r"\[((?:b'\d',?\s*)+)\]\s*=>\s*(KeyCode::\w+(?:\(\d+\))?)", body):
        digits.append(([ord(x) for x in re.findall(r"b'(\d)'", ds)], keycode_term(k)))
    if len(letters) < 8 or len(digits) < 10:
        raise SystemExit("escape tables: too few rows")
    return letters, digits


def match_arms(body, start_pat):
    """Pattern sets of the string-literal arms of a `match x.as_str()`-style block."""
    i = body.index(start_pat)
    seg = body[i:]
    arms = []
    for m in re.finditer(r'\n\s*((?:"[^"\n]+"\s*\|\s*\n?\s*)*"[^"\n]+")\s*=>', seg):
        arms.append(re.findall(r'"([^"\n]+)"', m.group(1)))
    return arms


def flag_tables():
    main = read("main.rs")
    top = fn_body(main, r"pub fn parse\(\) -> Result<Self,String>\s*\{")
    glob = fn_body(main, r"fn handle_global_arg\(arg: &str[^{]*\{")
    top_arms = match_arms(top, "match arg.as_str()")
    glob_arms = match_arms(glob, "match global_arg.as_str()")
    if len(top_arms) < 15 or len(glob_arms) < 6:
        raise SystemExit("flag tables: too few arms (%d, %d)" % (len(top_arms), len(glob_arms)))
    return top_arms, glob_arms


def verb_sets():
    src = read("vicmd.rs")
    res = {}
    for fn in ["is_repeatable", "is_edit", "is_char_insert"]:
        body = fn_body(src[src.index("impl Verb"):], r"pub fn %s\(&self\) -> bool\s*\{" % fn)
        names = re.findall(r"Self::(\w+)", body)
        if not names:
            raise SystemExit("verb set %s empty" % fn)
        res[fn] = names
    return res


def builtins():
    src = read("exec.rs")
    m = re.search(r"const BUILTINS: \[&str;\s*(\d+)\] = \[(.*?)\];", src, re.S)
    if not m:
        raise SystemExit("BUILTINS not found")
    return re.findall(r'"(\w+)"', m.group(2))


def lst(items):
    return "[" + ", ".join(items) + "]"


def main():
    al, mods = aliases()
    ct = control_table()
    letters, digits = esc_tables()
    top, glob = flag_tables()
    verbs = verb_sets()
    bi = builtins()
    o = []
    o.append("/- GENERATED by tools/extract_tables.py from /repo/src — do not edit. -/")
    o.append("import Vicut.Model.Reader\n")
    o.append("namespace Vicut.Gen\nopen Vicut\n")
    o.append("/-- `parse_byte_alias`: (name, key code) -/")
    o.append("def aliasTable : List (String × KeyCode) :=\n  " + lst("(%s, %s)" % (lean_str(n), t) for n, t in al) + "\n")
    o.append("/-- modifier prefixes of `parse_byte_alias` -/")
    o.append("def aliasMods : List (String × String) :=\n  " + lst("(%s, %s)" % (lean_str(a), lean_str(b)) for a, b in mods) + "\n")
    o.append("/-- `KeyEvent::new` control-character arms: (code point, key code, modifier bits) -/")
    o.append("def controlTable : List (Nat × KeyCode × Nat) :=\n  " + lst("(%d, %s, %d)" % r for r in ct) + "\n")
    o.append("/-- `parse_esc_seq`: ESC [ <letter> -/")
    o.append("def escLetterTable : List (Nat × KeyCode) :=\n  " + lst("(%d, %s)" % r for r in letters) + "\n")
    o.append("/-- `parse_esc_seq`: ESC [ <digits> ~ -/")
    o.append("def escDigitTable : List (List Nat × KeyCode) :=\n  " + lst("(%s, %s)" % (lst(str(x) for x in ds), k) for ds, k in digits) + "\n")
    o.append("/-- pattern sets of the arms of `match arg.as_str()` in `Opts::parse` -/")
    o.append("def optsParseArms : List (List String) :=\n  " + lst(lst(lean_str(x) for x in arm) for arm in top) + "\n")
    o.append("/-- pattern sets of the arms of `match global_arg.as_str()` in `handle_global_arg` -/")
    o.append("def globalArgArms : List (List String) :=\n  " + lst(lst(lean_str(x) for x in arm) for arm in glob) + "\n")
    for k, v in verbs.items():
        o.append("def verb_%s : List String :=\n  %s\n" % (k, lst(lean_str(x) for x in v)))
    o.append("def builtins : List String :=\n  " + lst(lean_str(x) for x in bi) + "\n")
    o.append("end Vicut.Gen\n")
    text = "\n".join(o)
    os.makedirs(os.path.dirname(OUT), exist_ok=True)
    old = open(OUT).read() if os.path.exists(OUT) else None
    if old != text:
        open(OUT, "w").write(text)
    print("tables: %d aliases, %d control rows, %d+%d esc rows, %d/%d flag arms" % (len(al), len(ct), len(letters), len(digits), len(top), len(glob)))


if __name__ == "__main__":
    main()
