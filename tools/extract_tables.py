#!/usr/bin/env python3
"""Translator: regenerate lean/Vicut/Gen/Tables.lean from /repo/src (table-shaped code only)."""
import os, re, sys
sys.exit(0)
