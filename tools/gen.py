"""Seeded generators shared by all property checks: texts, records, key strings, argv lists."""
import random

WORDS = ["foo", "bar", "baz", "x", "hello", "world", "a1", "_tmp", "Zed", "ERROR", "42", "id=7", "é", "naïve", "日本"]
PUNCT = [".", ",", ";", "(", ")", "[", "]", "{", "}", "\"", "'", "<", ">", "=", "-", "+", "/", "\\", "!", "?"]
MULTI = ["é", "é", "👍", "👨‍👩‍👧", "🇫🇷", "ü", "ß", "日", "ä"]
WS = [" ", " ", " ", "  ", "\t"]


def word(r):
    return r.choice(WORDS)


def line(r, multibyte=True, maxw=6):
    n = r.choice([0, 1, 1, 2, 3, 3, 4, maxw])
    parts = []
    if r.random() < 0.15:
        parts.append(r.choice(WS))
    for i in range(n):
        k = r.random()
        if k < 0.55:
            parts.append(word(r))
        elif k < 0.7:
            parts.append(r.choice(PUNCT))
        elif k < 0.8 and multibyte:
            parts.append(r.choice(MULTI))
        elif k < 0.9:
            d = r.choice(["()", "[]", "{}", "\"\"", "''"])
            parts.append(d[0] + word(r) + " " + word(r) + d[1])
        else:
            parts.append(word(r) + r.choice(PUNCT) + word(r))
        if i + 1 < n:
            parts.append(r.choice(WS) if r.random() < 0.85 else "")
    return "".join(parts)


def text(r, max_lines=5, multibyte=True, final_newline=None, crlf=False, allow_empty=True):
    k = r.random()
    if allow_empty and k < 0.04:
        return ""
    if allow_empty and k < 0.07:
        return "\n" * r.randint(1, 3)
    n = r.randint(1, max_lines)
    ls = [line(r, multibyte) for _ in range(n)]
    if r.random() < 0.25 and n > 1:
        ls[r.randrange(n)] = ""
    nl = "\r\n" if crlf else "\n"
    t = nl.join(ls)
    fin = final_newline if final_newline is not None else (r.random() < 0.7)
    if fin:
        t += nl
    return t


def small_text(r, alphabet="ab .\né", maxlen=6):
    n = r.randint(0, maxlen)
    return "".join(r.choice(alphabet) for _ in range(n))


FIELD_CHARS = ["a", "b", "Z", "0", " ", " ", "\t", "\n", "\"", "\\", "{", "}", "{{", "}}", "<", ">", ",", ":", "'",
               "\u0001", "\u0008", "\u000c", "\r", "\u001f", "\u007f", "é", "👍", "é", " ", " ", "/", "x=y"]


def field_value(r, maxlen=8):
    k = r.random()
    if k < 0.08:
        return ""
    if k < 0.5:
        return line(r, True, 3)
    n = r.randint(1, maxlen)
    return "".join(r.choice(FIELD_CHARS) for _ in range(n))


NAMES = ["1", "2", "3", "name", "user", "id", "a b", "é", "x\"y", "0x", "10", "2"]


def records(r, max_recs=4, max_fields=4, allow_sentinel=True):
    k = r.random()
    if allow_sentinel and k < 0.08:
        return [[["0", field_value(r, 20)]]]
    if k < 0.12:
        return []
    recs = []
    for _ in range(r.randint(1, max_recs)):
        rec = []
        nf = r.randint(0 if r.random() < 0.1 else 1, max_fields)
        for i in range(nf):
            name = str(i + 1) if r.random() < 0.6 else r.choice(NAMES)
            rec.append([name, field_value(r)])
        recs.append(rec)
    return recs


DELIMS = [" ", ",", "\t", " -- ", "", "|", "é", "\n", "::"]


def template(r, names):
    parts = []
    for _ in range(r.randint(0, 6)):
        k = r.random()
        if k < 0.4 and names:
            parts.append("{{" + r.choice(names) + "}}")
        elif k < 0.55:
            parts.append(r.choice(["<", ">", " ", ": ", "-", "é", "x"]))
        elif k < 0.65:
            parts.append("\\" + r.choice(["{", "\\", "n", "}", "x"]))
        elif k < 0.72:
            parts.append(r.choice(["{", "}", "{x}", "}}", "{ {"]))
        elif k < 0.78:
            parts.append("{{nosuch}}")
        elif k < 0.83:
            parts.append("{{" + (r.choice(names) if names else "q"))
        else:
            parts.append(word(r))
    if r.random() < 0.05:
        parts.append("\\")
    return "".join(parts)


# ---------------------------------------------------------------------------- key strings (normal mode)

MOTIONS = ["h", "l", "w", "b", "e", "W", "B", "E", "ge", "0", "^", "$", "j", "k", "G", "gg", "fa", "Fo", "t ", "T.",
           ";", ",", "%", "{", "}", "(", ")"]
TEXTOBJS = ["iw", "aw", "iW", "aW", "i(", "a(", "i[", "a]", "i{", "a}", "i\"", "a\"", "i'", "is", "as", "ip", "ap"]
OPERATORS = ["d", "c", "y", "g~", "gu", "gU", "g?"]


def count(r, p=0.3):
    return str(r.randint(2, 3)) if r.random() < p else ""


def motion(r):
    return count(r, 0.25) + r.choice(MOTIONS)


def passive_cmd(r):
    """A command of the motion / text-object / visual-selection / yank grammar (no edit)."""
    k = r.random()
    if k < 0.45:
        return motion(r)
    if k < 0.6:
        return "v" + r.choice(TEXTOBJS)
    if k < 0.7:
        return r.choice(["v", "V"]) + "".join(motion(r) for _ in range(r.randint(0, 2)))
    if k < 0.8:
        return "y" + (motion(r) if r.random() < 0.6 else r.choice(TEXTOBJS))
    if k < 0.85:
        return "99" + r.choice(["w", "l", "j", "e", "b", "h", "k"])
    if k < 0.9:
        return r.choice(["fz", "Fz", "tq", "5fa"])
    if k < 0.95:
        return "/" + r.choice(["foo", "o", "a.", "[0-9]+", "zzz"]) + r.choice(["<CR>", "<enter>", ""])
    return "v" + motion(r) + "o" + motion(r)


def edit_cmd(r):
    k = r.random()
    if k < 0.25:
        return count(r) + r.choice(["x", "X", "~", "rZ", "J", "D", "dd"])
    if k < 0.5:
        return r.choice(["d", "g~", "gu", "gU", "g?"]) + (motion(r) if r.random() < 0.6 else r.choice(TEXTOBJS))
    if k < 0.65:
        return r.choice(["i", "a", "I", "A", "o", "O"]) + r.choice(["X", "ab", "é", " q ", "x<BS>y"]) + "<esc>"
    if k < 0.75:
        return "c" + r.choice(["w", "e", "iw", "$"]) + r.choice(["N", "new"]) + "<esc>"
    if k < 0.85:
        return r.choice(["yiwP", "yyp", "ylp", "yeP", "p", "P"])
    if k < 0.92:
        return "v" + motion(r) + r.choice(["d", "y", "~", "U"])
    return ":" + r.choice(["s/a/X/", "s/o/0/g", "%s/b/B/g", "d", "1d", "$d"]) + "<CR>"


# ---------------------------------------------------------------------------- flag programs

PATTERNS = ["foo", "o", "a", "bar|baz", "[0-9]+", "^h", "x$", "zzz", "\\d", "b.r", "é", "E"]


def flag_items(r, n=None, depth=0, edits=True, repeat=True, glob=True, names=True):
    """A list of command-flag items:
       ("c", name|None, keys) ("m", keys) ("n",) ("r", N, R) ("g", pol, pattern, then_items, else_items|None)"""
    items = []
    n = n if n is not None else r.randint(1, 5)
    for _ in range(n):
        k = r.random()
        if k < 0.4:
            name = r.choice(["user", "id", "k"]) if (names and r.random() < 0.2) else None
            items.append(("c", name, passive_cmd(r)))
        elif k < 0.7:
            items.append(("m", edit_cmd(r) if (edits and r.random() < 0.5) else passive_cmd(r)))
        elif k < 0.8:
            items.append(("n",))
        elif k < 0.9 and repeat and items:
            items.append(("r", r.randint(1, min(3, len(items))), r.randint(0, 2)))
        elif glob and depth < 2:
            then = flag_items(r, r.randint(1, 3), depth + 1, edits, repeat, glob, names)
            els = flag_items(r, r.randint(1, 2), depth + 1, edits, repeat, glob, names) if r.random() < 0.3 else None
            items.append(("g", r.random() < 0.7, r.choice(PATTERNS), then, els))
        else:
            items.append(("m", passive_cmd(r)))
    return items


def items_argv(items, long=False):
    av = []
    for it in items:
        t = it[0]
        if t == "c":
            av.append("--cut" if long else "-c")
            if it[1] is not None:
                av.append("name=" + it[1])
            av.append(it[2])
        elif t == "m":
            av += ["--move" if long else "-m", it[1]]
        elif t == "n":
            av.append("--next" if long else "-n")
        elif t == "r":
            av += ["--repeat" if long else "-r", str(it[1]), str(it[2])]
        elif t == "g":
            if it[1]:
                av.append("--global" if long else "-g")
            else:
                av.append("--not-global" if long else "-v")
            av.append(it[2])
            av += items_argv(it[3], long)
            if it[4] is not None:
                av.append("--else")
                av += items_argv(it[4], long)
            av.append("--end")
    return av


def arg_safe(s):
    """vicut refuses operands starting with '-' and treats bare words as file names."""
    return not s.startswith("-")
