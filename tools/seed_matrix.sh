#!/bin/bash
# Run every kept seeded change against the quick check of its property; one line per seed in seeded/RESULTS.tsv
cd /verif
out=seeded/RESULTS.tsv
echo -e "seed\tproperty\tverdict\tdetail" > $out
for d in seeded/*/; do
  id=$(basename $d); prop=${id%%-*}
  [ -f $d/patch.diff ] || continue
  if grep -q '"obsolete"' $d/meta.json; then echo -e "$id\t$prop\tobsolete\tno longer breaks the property on the current tree (see meta.json)" >> $out; continue; fi
  res=$(tools/seedtest.sh /verif/$d/patch.diff $prop 2>&1)
  if echo "$res" | grep -q "PATCH DOES NOT APPLY"; then echo -e "$id\t$prop\tnot-applicable\tpatch does not apply to the current tree" >> $out; continue; fi
  v=$(echo "$res" | grep -m1 "^VIOLATION" )
  s=$(echo "$res" | grep -m1 "^\[" )
  if [ -z "$v" ]; then verdict="MISSED"; elif echo "$v" | grep -q "no-failing-input-found"; then verdict="caught (tie/proof broken, no failing input found)"; else verdict="caught (failing input replayed)"; fi
  echo -e "$id\t$prop\t$verdict\t$s" >> $out
done
cd /repo && git status --short | grep -v '^??' | head -3
