#!/usr/bin/env python3
"""Regenerate the seed table of DESIGN.md section 10 from seeded/RESULTS.tsv and the seeds' meta.json."""
import json, os, re
V = os.path.join(os.path.dirname(__file__), "..")
rows = [l.rstrip("\n").split("\t") for l in open(os.path.join(V, "seeded", "RESULTS.tsv"))][1:]
out = ["| seed | what the change does (short) | caught by | how |", "|---|---|---|---|"]
for seed, prop, verdict, detail in rows:
    m = json.load(open(os.path.join(V, "seeded", seed, "meta.json")))
    summ = re.sub(r"\s+", " ", m.get("summary", ""))[:150].replace("|", "/")
    if verdict == "obsolete":
        why = re.sub(r"\s+", " ", str(m.get("obsolete", "")))[:170].replace("|", "/")
        out.append("| %s | %s | — | obsolete: %s |" % (seed, summ, why))
        continue
    mm = re.search(r"disagreements=(\d+) violations=(\d+)", detail)
    how = verdict + (" (%s violations, %s disagreements in the quick run)" % (mm.group(2), mm.group(1)) if mm else "")
    if m.get("ported"):
        how += "; patch ported by hand after a fix rewrote the lines"
    out.append("| %s | %s | `./check %s` | %s |" % (seed, summ, prop, how))
p = os.path.join(V, "DESIGN.md")
s = open(p).read()
a = s.index("| seed | what the change does (short) | caught by | how |")
b = s.index("\n\n", a)
s = s[:a] + "\n".join(out) + s[b:]
open(p, "w").write(s)
print(len(rows), "rows")
