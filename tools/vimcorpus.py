"""The C02 case family: small-scope-exhaustive buffers x cursors x commands, plus realistic records."""
import itertools, random

ALPHA = ["a", "b", " ", ".", "\n"]
MOTIONS = ["h", "l", "j", "k", "w", "b", "e", "W", "B", "E", "ge", "0", "^", "$", "G", "gg", "fa", "Fa", "ta", "Ta", "f.", ";", ",", "%", "{", "}", "(", ")"]
TEXTOBJS = ["iw", "aw", "iW", "aW", "i(", "a(", "i[", "a]", "i{", "a}", "i\"", "a\"", "i'", "is", "as", "ip", "ap"]
OPS = ["d", "c", "y", "g~", "gu", "gU", "g?"]
SIMPLE = ["x", "X", "rZ", "~", "J", "p", "P", "D", "C", "Y", "dd", "yy", "cc", "S", "s"]
INSERTS = ["iX<esc>", "aX<esc>", "IX<esc>", "AX<esc>", "oX<esc>", "OX<esc>", "ixy<esc>", "a<esc>"]


def commands():
    """[(class, keys)] — the class is the command's name without count (used to group deviations)."""
    out = []
    for m in MOTIONS:
        for c in ["", "2", "3"]:
            if m in ("0", "^", "%", "gg") and c:
                continue
            out.append(("motion:" + m, c + m))
    for op in OPS:
        tail = "X<esc>" if op == "c" else ""
        for m in MOTIONS:
            if m in (";", ","):
                continue
            for c in ["", "2"]:
                if m in ("0", "^", "%", "gg") and c:
                    continue
                out.append(("%s+motion:%s" % (op, m), op + c + m + tail))
        for t in TEXTOBJS:
            out.append(("%s+textobj:%s" % (op, t), op + t + tail))
    for s in SIMPLE:
        for c in ["", "2", "3"]:
            tail = "Q<esc>" if s in ("C", "cc", "S", "s") else ""
            out.append(("simple:" + s, c + s + tail))
    for i in INSERTS:
        for c in ["", "3"]:
            out.append(("insert:" + i[0], c + i))
    for x in ["x", "dw", "rZ", "~", "iX<esc>", "A!<esc>", "dd", "J"]:
        out.append(("dot:" + x, x + "."))
        out.append(("dot:" + x, x + "w."))
        out.append(("dot:" + x, x + "2."))
    for v in ["vld", "vey", "vwd", "Vd", "Vjd", "vlc!<esc>", "viwd", "vU", "vly", "Vy", "v$d", "vbd", "vjd", "Vjy", "vl~", "vawd"]:
        out.append(("visual:" + v[:2], v))
    for y in ["yiwP", "yyp", "ylp", "yeP", "yyP", "ywwP", "xp", "ddp", "dwP"]:
        out.append(("yankput:" + y, y))
    return out


def small_texts(maxlen):
    seen = []
    for n in range(1, maxlen + 1):
        for t in itertools.product(ALPHA, repeat=n):
            s = "".join(t)
            if s.endswith("\n"):
                continue
            seen.append(s + "\n")
    return seen


REALISTIC = ["2024-01-15 12:30:45 ERROR [main] Connection refused (retry 3)\n2024-01-15 12:30:46 INFO [main] ok\n",
             "id,name,email\n1,Ann Lee,ann@example.com\n2,\"Bob, Jr.\",bob@example.com\n",
             "fn main() {\n\tlet x = foo(1, [2, 3]);\n\tprintln!(\"{}\", x);\n}\n",
             "naïve café — 日本語 テキスト\nwörld 👍 done.\n",
             "First sentence. Second one!  Third?\n\nNew paragraph here.\nStill here.\n\nLast.\n",
             "  indented line\n\ttabbed line\n\nkey = \"value with spaces\" # comment\n",
             "a (b [c {d} e] f) g\n'q' \"double \\\" quoted\" end\n"]


def cursors(text):
    """normal-mode cursor positions: every character that is not a line terminator, plus empty lines"""
    out, i = [], 0
    chars = list(text)
    for k, ch in enumerate(chars):
        if ch != "\n" or k == 0 or chars[k - 1] == "\n":
            out.append(k)
    if out and out[-1] == len(chars) - 1 and chars[-1] == "\n" and len(chars) > 1 and chars[-2] != "\n":
        out.pop()
    return out


def family(r, maxlen=3, per_text=None, realistic_cmds=60):
    cmds = commands()
    cases = []
    for t in small_texts(maxlen):
        for c in cursors(t):
            pick = cmds if per_text is None else r.sample(cmds, per_text)
            for cls, k in pick:
                cases.append({"text": t, "cursor": c, "keys": k, "cls": cls})
    for t in REALISTIC:
        cs = cursors(t)
        for _ in range(realistic_cmds):
            n = r.choice([1, 1, 2, 3])
            ks = [r.choice(cmds) for _ in range(n)]
            cases.append({"text": t, "cursor": r.choice(cs), "keys": "".join(k for _, k in ks), "cls": "seq:" + ks[0][0] if n > 1 else ks[0][0], "realistic": True})
    # remembered column (curswant): vertical motion, an edit that moves the cursor, vertical motion, observable edit
    GRID = ["abc def ghi\nabc def ghi\nabc def ghi\n", "1,alpha,x\n22,beta,yy\n333,gamma,zzz\n", "short\na much longer line here\nmid size\n\nlast\n"]
    PRE = ["", "w", "2w", "$", "4l", "e"]
    VERT = ["j", "k", "2j"]
    EDIT = ["db", "d0", "X", "x", "dw", "diw", "rZ", "~", "iQ<esc>", "D", "dFa", "p", "yw"]
    OBS = ["x", "rZ", "dw", ""]
    for t in GRID:
        for _ in range(330):
            keys = r.choice(PRE) + r.choice(VERT) + r.choice(EDIT) + r.choice(VERT) + r.choice(OBS)
            cases.append({"text": t, "cursor": r.choice(cursors(t)), "keys": keys, "cls": "curswant", "realistic": True})
    for i, c in enumerate(cases):
        c["id"] = i
    return cases
