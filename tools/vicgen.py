"""Generator of vic programs from the well-defined core: returns (source text, AST for the Lean reference interpreter)."""
import random

OPS = ["+", "-", "*", "/", "%"]
CMPS = ["==", "!=", "<", "<=", ">", ">="]


class G:
    def __init__(self, r, max_depth=3, budget=30):
        self.r = r
        self.max_depth = max_depth
        self.budget = budget
        self.counter = 0
        self.funcs = []        # (name, nparams)
        self.inner_only = []   # variables declared only inside some block (for the scope probe)

    def fresh(self, p="v"):
        self.counter += 1
        return "%s%d" % (p, self.counter)

    # ---- arithmetic: (text, ast). nums = visible numeric variables
    def atom(self, nums):
        r = self.r
        if nums and r.random() < 0.5:
            x = r.choice(nums)
            return "$" + x, ["var", x]
        n = r.randint(-9, 20) if r.random() < 0.2 else r.randint(0, 12)
        return str(n), ["int", n]

    def arith(self, nums, depth=0, nonzero_div=True):
        """left-to-right chain, like the parser folds it; parenthesised sub-chains as atoms"""
        r = self.r
        n = r.choice([1, 1, 2, 2, 3])
        t, a = self.arith_atom(nums, depth)
        for _ in range(n - 1):
            op = r.choice(OPS)
            if op in "/%":
                k = r.randint(1, 7)
                t2, a2 = str(k), ["int", k]
            else:
                t2, a2 = self.arith_atom(nums, depth)
            t = "%s %s %s" % (t, op, t2)
            a = ["bin", op, a, a2]
        return t, a

    def arith_atom(self, nums, depth):
        if depth < 2 and self.r.random() < 0.2:
            t, a = self.arith(nums, depth + 1)
            if a[0] == "bin":
                return "(" + t + ")", a
            return t, a
        return self.atom(nums)

    def cond(self, nums):
        r = self.r
        def catom():
            t, a = self.atom(nums)
            if a[0] == "int" and a[1] < 0:
                return str(-a[1]), ["int", -a[1]]
            return t, a

        def one():
            t1, a1 = catom()
            t2, a2 = catom()
            op = r.choice(CMPS)
            return "%s %s %s" % (t1, op, t2), ["cmp", op, a1, a2]
        t, a = one()
        for _ in range(r.choice([0, 0, 1, 1, 2])):
            cj = r.choice(["&&", "||"])
            t2, a2 = one()
            t = "%s %s %s" % (t, cj, t2)
            a = ["and" if cj == "&&" else "or", a, a2]
        return t, a

    # ---- statements. scope = list of dicts name -> kind ("num","str","arr")
    def visible(self, scope, kind):
        seen, out = set(), []
        for fr in reversed(scope):
            for k, v in fr.items():
                if k not in seen:
                    seen.add(k)
                    if v == kind or (kind == "num" and v == "ctr" and not getattr(self, "_writable", False)):
                        out.append(k)
        return out

    def writable(self, scope):
        self._writable = True
        try:
            return self.visible(scope, "num")
        finally:
            self._writable = False

    def block(self, scope, depth, in_func=False, loopvar=None):
        outer_wr = self.writable(scope)
        scope = scope + [{}]
        n = self.r.randint(1, 4)
        src, ast = [], []
        if outer_wr and self.r.random() < 0.3:
            # use an outer variable, then shadow it inside this block: the next pass of a loop (and the code after
            # the block) must see the outer one again
            x = self.r.choice(outer_wr)
            kk = self.r.randint(1, 3)
            t, a = self.arith(self.visible(scope, "num"))
            src += ["%s += %d" % (x, kk), "let %s = %s" % (x, t), "echo $%s" % x]
            ast += [["op", x, "+", ["int", kk]], ["let", x, ["arith", a]], ["echo", [["var", x]]]]
            scope[-1][x] = "num"
        for _ in range(n):
            if self.budget <= 0:
                break
            s, a = self.stmt(scope, depth, in_func)
            src += s
            ast += a
        if not src:
            src, ast = ["echo 0"], [["echo", [["arith", ["int", 0]]]]]
        return src, ast

    def stmt(self, scope, depth, in_func=False):
        r = self.r
        self.budget -= 1
        nums = self.visible(scope, "num")
        arrs = self.visible(scope, "arr")
        strs = self.visible(scope, "str")
        k = r.random()
        ind = ""
        wr = self.writable(scope)
        if k < 0.16 or not nums:
            x = self.fresh() if r.random() < 0.7 or not wr else r.choice(wr)   # sometimes shadow / redeclare
            t, a = self.arith(nums)
            scope[-1][x] = "num"
            return ["let %s = %s" % (x, t)], [["let", x, ["arith", a]]]
        if k < 0.24 and wr:
            x = r.choice(wr)
            t, a = self.arith(nums)
            return ["%s = %s" % (x, t)], [["assign", x, ["arith", a]]]
        if k < 0.32 and wr:
            x = r.choice(wr)
            op = r.choice(["+", "-", "*", "/", "%"])
            if op in "/%":
                kk = r.randint(1, 5)
                t, a = str(kk), ["int", kk]
            else:
                t, a = self.atom(nums)
            return ["%s %s= %s" % (x, op, t)], [["op", x, op, a]]
        if k < 0.44:
            # echo a few things
            items, asts = [], []
            for _ in range(r.randint(1, 3)):
                kk = r.random()
                if kk < 0.45 and nums:
                    x = r.choice(nums)
                    items.append("$" + x); asts.append(["var", x])
                elif kk < 0.55 and arrs:
                    x = r.choice(arrs)
                    items.append("$" + x); asts.append(["var", x])
                elif kk < 0.65 and strs:
                    x = r.choice(strs)
                    items.append("$" + x); asts.append(["var", x])
                elif kk < 0.85:
                    parts, pa = [], []
                    for _ in range(r.randint(1, 3)):
                        if r.random() < 0.5 and (nums or strs):
                            x = r.choice(nums + strs)
                            parts.append("${{%s}}" % x); pa.append(["i", x])
                        else:
                            w = r.choice(["a", "b c", "=", "x:", "-", "é", " ", "#1"])
                            parts.append(w); pa.append(["t", w])
                    items.append('"' + "".join(parts) + '"'); asts.append(["lit", pa])
                else:
                    n = r.randint(0, 99)
                    items.append(str(n)); asts.append(["arith", ["int", n]])
            return ["echo " + " ".join(items)], [["echo", asts]]
        if k < 0.52 and depth < self.max_depth:
            conds_s, conds_a = [], []
            nb = r.choice([1, 1, 2, 3])
            out = []
            for i in range(nb):
                ct, ca = self.cond(nums)
                bs, ba = self.block(scope, depth + 1, in_func)
                out.append(("if " if i == 0 else "elif ") + ct + " {")
                out += ["  " + l for l in bs]
                out.append("}")
                conds_a.append([ca, ba])
            els = None
            if r.random() < 0.5:
                bs, ba = self.block(scope, depth + 1, in_func)
                out[-1] = "} else {"
                out += ["  " + l for l in bs] + ["}"]
                els = ba
            # join "}" + "elif" on one line, as the grammar wants the chain contiguous
            joined = []
            for l in out:
                if (l.startswith("elif ") or l == "} else {") and joined and joined[-1] == "}":
                    joined[-1] = "} " + l if l.startswith("elif") else l
                else:
                    joined.append(l)
            for cb in conds_a:
                for st in cb[1]:
                    if st[0] == "let" and st[1] not in [k2 for fr in scope for k2 in fr]:
                        self.inner_only.append(st[1])
            return joined, [["if", conds_a, els]]
        if k < 0.60 and depth < self.max_depth:
            # counting loop (terminates): while i < n / until i >= n
            i = self.fresh("i")
            n = r.randint(0, 4)
            neg = r.random() < 0.35
            scope[-1][i] = "ctr"
            bs, ba = self.block(scope, depth + 1, in_func)
            bs.append("%s += 1" % i)
            ba.append(["op", i, "+", ["int", 1]])
            head = ("until $%s >= %d {" % (i, n)) if neg else ("while $%s < %d {" % (i, n))
            ca = ["cmp", ">=" if neg else "<", ["var", i], ["int", n]]
            return ["let %s = 0" % i, head] + ["  " + l for l in bs] + ["}"], [["let", i, ["arith", ["int", 0]]], ["while", neg, ca, ba]]
        if k < 0.68 and depth < self.max_depth:
            x = self.fresh("e")
            kk = r.random()
            if kk < 0.4:
                a, b = r.randint(0, 3), r.randint(0, 5)
                incl = r.random() < 0.4
                it_s, it_a = "%d..%s%d" % (a, "=" if incl else "", b), ["range", ["int", a], ["int", b], incl]
            elif kk < 0.7 and arrs:
                y = r.choice(arrs)
                it_s, it_a = "$" + y, ["var", y]
            else:
                vals = [r.randint(0, 9) for _ in range(r.randint(0, 3))]
                it_s, it_a = "[" + ", ".join(map(str, vals)) + "]", ["arr", [["int", v] for v in vals]]
            inner = scope + [{x: "ctr"}]
            bs, ba = self.block(inner, depth + 1, in_func)
            return ["for %s in %s {" % (x, it_s)] + ["  " + l for l in bs] + ["}"], [["for", x, it_a, ba]]
        if k < 0.74:
            x = self.fresh("a")
            vals = [self.atom(nums) for _ in range(r.randint(0, 4))]
            scope[-1][x] = "arr"
            return ["let %s = [%s]" % (x, ", ".join(v[0] for v in vals))], [["let", x, ["arr", [v[1] for v in vals]]]]
        if k < 0.80 and arrs:
            x = r.choice(arrs)
            t, a = self.atom(nums)
            return ["push $%s %s" % (x, t)], [["push", x, ["arith", a]]]
        if k < 0.84 and arrs:
            x = r.choice(arrs)
            if r.random() < 0.5:
                return ["pop $%s" % x], [["pop", x]]
            y = self.fresh("p")
            # the popped value may be null (empty array): keep it out of the numeric pool
            scope[-1][y] = "any"
            return ["let %s = pop $%s" % (y, x), "echo $%s" % y], [["let", y, ["pop", x]], ["echo", [["var", y]]]]
        if k < 0.86 and arrs and nums:
            # assignment to an element, possibly from inside a nested block
            x = r.choice(arrs)
            v, va = self.atom(nums)
            idx = r.randint(0, 2)
            guard_s = "if %d < %d {" % (idx, 99)
            # only index what is certainly there: push first, then set the last pushed slot by its length-free index 0
            return ["push $%s %s" % (x, v), "%s[0] = %d" % (x, idx)], [["push", x, ["arith", va]], ["setidx", x, ["int", 0], ["arith", ["int", idx]]]]
        if k < 0.88:
            x = self.fresh("s")
            w = r.choice(["hi", "a b", "é!", ""])
            scope[-1][x] = "str"
            return ['let %s = "%s"' % (x, w)], [["let", x, ["lit", [["t", w]] if w else []]]]
        if k < 0.888 and (strs or arrs):
            # plain assignment to a string or an array variable
            if strs and (not arrs or r.random() < 0.5):
                x = r.choice(strs)
                w = r.choice(["new", "x y", "é", ""])
                return ['%s = "%s"' % (x, w)], [["assign", x, ["lit", [["t", w]] if w else []]]]
            x = r.choice(arrs)
            vals = [self.atom(nums) for _ in range(r.randint(0, 3))]
            return ["%s = [%s]" % (x, ", ".join(v[0] for v in vals))], [["assign", x, ["arr", [v[1] for v in vals]]]]
        if k < 0.895 and strs:
            x = r.choice(strs)
            if r.random() < 0.5:
                w = r.choice(["z", "é", "12"])
                return ['push $%s "%s"' % (x, w)], [["push", x, ["lit", [["t", w]]]]]
            c = self.fresh("c")
            return ["for %s in $%s {" % (c, x), "  echo $%s" % c, "}"], [["for", c, ["var", x], [["echo", [["var", c]]]]]]
        if k < 0.91 and self.funcs and nums:
            f, np_ = r.choice(self.funcs)
            args = [self.atom(nums) for _ in range(np_)]
            return ["%s(%s)" % (f, ", ".join(a[0] for a in args))], [["call", f, [["arith", a[1]] for a in args]]]
        if k < 0.93 and self.funcs and nums:
            f, np_ = r.choice(self.funcs)
            args = [self.atom(nums) for _ in range(np_)]
            y = self.fresh("r")
            scope[-1][y] = "num"
            return ["let %s = %s(%s)" % (y, f, ", ".join(a[0] for a in args))], [["let", y, ["call", f, [["arith", a[1]] for a in args]]]]
        # default: another let
        x = self.fresh()
        t, a = self.arith(nums)
        scope[-1][x] = "num"
        return ["let %s = %s" % (x, t)], [["let", x, ["arith", a]]]

    def func(self):
        r = self.r
        f = self.fresh("f")
        params = [self.fresh("q") for _ in range(r.randint(0, 2))]
        scope = [{p: "num" for p in params}]
        saved = self.budget
        self.budget = 6
        bs, ba = [], []
        for _ in range(r.randint(0, 3)):
            s, a = self.stmt(scope, 1, True)
            bs += s
            ba += a
        self.budget = saved
        nums = self.visible(scope, "num")
        if nums and r.random() < 0.4:
            ct, ca = self.cond(nums)
            early = self.fresh("t")
            k2 = r.randint(0, 50)
            bs += ["if %s {" % ct, "  let %s = %d" % (early, k2), "  return $%s" % early, "}"]
            ba += [["if", [[ca, [["let", early, ["arith", ["int", k2]]], ["ret", ["var", early]]]]], None]]
        t, a = self.arith(nums)
        res = self.fresh("t")
        bs += ["let %s = %s" % (res, t), "return $%s" % res]
        ba += [["let", res, ["arith", a]], ["ret", ["var", res]]]
        self.funcs.append((f, len(params)))
        return ["def %s(%s) {" % (f, ", ".join(params))] + ["  " + l for l in bs] + ["}"], [["def", f, params, ba]]

    def program(self):
        r = self.r
        src, ast = [], []
        for _ in range(r.choice([0, 1, 1, 2])):
            s, a = self.func()
            src += s
            ast += a
        scope = [{}]
        while self.budget > 0:
            s, a = self.stmt(scope, 0)
            src += s
            ast += a
        # make every top-level numeric visible at the end, and probe block scoping
        nums = self.visible(scope, "num")
        if nums:
            src.append("echo " + " ".join("$" + x for x in nums[:6]))
            ast.append(["echo", [["var", x] for x in nums[:6]]])
        self.probe = None
        top = [k2 for fr in scope for k2 in fr]
        cands = [y for y in self.inner_only if y not in top]
        if cands and r.random() < 0.3:
            # block scoping: a variable declared inside a block is not visible after it
            self.probe = r.choice(cands)
            src.append("echo $%s" % self.probe)
        return "\n".join(src) + "\n", ast


def program(r, max_depth=3, budget=None):
    """(source, AST, probe): with a probe, the source ends with `echo $probe` for a variable that only exists
    inside a block; the AST does not contain that last statement."""
    g = G(r, max_depth=max_depth, budget=budget or r.choice([6, 12, 20, 40]))
    src, ast = g.program()
    return src, ast, g.probe
