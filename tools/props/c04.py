"""C04 — parallel execution never changes the result."""
import json
from vlib import *
import gen

PROP = "C04"

# commands that READ some piece of state (register, search pattern, repeat state, last selection) ...
READERS = ["p", "P", '"ap', '"bP', "n", "N", ".", ";", ",", "gv", ":&&<CR>", ":s<CR>", "&"]
# ... and commands that WRITE it
WRITERS = ["yiw", "yy", '"ayw', '"Ayw', "<c-v>ly", "<c-v>jd", ":y<CR>", ":d<CR>", "dd", "/two<CR>", "/[0-9]<CR>", "?o<CR>", "x", "dw", "fa", "Fo", "to",
           ":s/a/b/<CR>", ":s/o/0/g<CR>", "vl<esc>", "Vy", "iZ<esc>", "rQ", '"byy', "yl"]
MARK = ["ix<esc>", "iX<esc>", "r#", "~", ""]


def leaky_program(r):
    """read-before-write: what the reader sees is whatever a previous unit on the same thread left behind"""
    items = []
    for _ in range(r.randint(1, 2)):
        items.append(("m", r.choice(READERS)))
        items.append(("m", r.choice(MARK)))
    for _ in range(r.randint(1, 2)):
        items.append(("m", r.choice(WRITERS)))
    if r.random() < 0.4:
        items.append(("c", None, r.choice(["e", "$", "iw"])))
    if r.random() < 0.2:
        # only some units write: the leak then needs a particular neighbour
        items = [it for it in items if it[1] not in WRITERS] + [("g", True, r.choice(["^#", "o", "[0-9]"]), [("m", r.choice(WRITERS))], None)]
    return [it for it in items if not (it[0] == "m" and it[1] == "")]


def lines_text(r, n):
    ls = []
    for i in range(n):
        k = r.random()
        pre = "# " if k < 0.3 else ""
        ls.append("%s%s %d two %s\n" % (pre, gen.word(r), i, gen.line(r, True, 3)))
    return "".join(ls)


def run(tier, seed, replay=None):
    R = Run(PROP, tier, seed)
    proof = prove(PROP, thorough=(tier == "thorough"))
    build_hooked()
    R.check_witnesses()
    r = R.rng
    n_after = 400 if tier == "quick" else 12000
    n_sched = 60 if tier == "quick" else 2500

    # ---- 1. nothing one unit does is visible to the next unit on the same thread (real execute(), same thread)
    reqs, meta = [], []
    for _ in range(n_after):
        items = leaky_program(r) if r.random() < 0.8 else gen.flag_items(r, edits=True)
        argv = gen.items_argv(items)
        units = [gen.line(r, True, 4) + "\n" for _ in range(3)] if r.random() < 0.5 else [lines_text(r, 1) for _ in range(3)]
        meta.append((argv, units))
    dumped = pmap(lambda m: dump_opts(m[0]), meta)
    for (argv, units), d in zip(meta, dumped):
        if "opts" not in d:
            reqs.append(None)
            continue
        reqs.append({"op": "exec", "opts": d["opts"], "texts": units})
    together = batch(hook_server, [q for q in reqs if q])
    alone_reqs = []
    for q in [q for q in reqs if q]:
        for t in q["texts"]:
            alone_reqs.append({"op": "exec", "opts": q["opts"], "texts": [t]})
    alone = batch(hook_server, alone_reqs)
    ai = 0
    ti = 0
    for (argv, units), q in zip(meta, reqs):
        case = {"argv": argv, "units": units}
        R.case(case, nontrivial=True)
        R.count("unit_after")
        if q is None:
            R.count("unit_after.unparsed")
            continue
        tg = together[ti]
        ti += 1
        al = alone[ai:ai + len(units)]
        ai += len(units)
        if "results" not in tg or any("results" not in a for a in al):
            R.count("unit_after.crash")      # crashes: C10
            continue
        want = [a["results"][0] for a in al]
        if tg["results"] != want:
            k = [i for i in range(len(want)) if tg["results"][i] != want[i]][0]
            R.violation("unit %d run after the others on the same thread returns %s, alone it returns %s" % (k, canon(tg["results"][k])[:200], canon(want[k])[:200]), case)

    # ---- 2. schedules of the real rayon pool vs --serial
    cases = []
    for _ in range(n_sched):
        items = leaky_program(r) if r.random() < 0.6 else gen.flag_items(r, edits=True, names=False)
        argv = gen.items_argv(items)
        if r.random() < 0.6:
            nl = r.choice([1, 2, 7, 40, 200, 2000] if tier == "thorough" else [2, 7, 40, 200])
            cases.append(("stdin", argv, lines_text(r, nl), None))
        else:
            nf = r.randint(1, 8 if tier == "thorough" else 5)
            files = {"f%d.txt" % i: lines_text(r, r.choice([1, 3, 17, 40])) for i in range(nf)}
            cases.append((r.choice(["files", "files-lw", "inplace", "inplace-lw"]), argv, None, files))
    if replay:
        rp = json.load(open(replay))
        c = rp.get("case") or {}
        if "how" in c:
            cases = [(c["how"], c["argv"], c.get("stdin"), c.get("files"))]

    def sched(c):
        how, argv, text, files = c
        outs = []
        confs = [("serial", None, None)] + [(str(t), t, j) for t, j in [(1, 1), (2, 7), (3, 2), (4, 3), (8, 5), (16, 11), (32, 4)]]
        for name, threads, jit in confs:
            env = {}
            flags = []
            if threads is None:
                flags = ["--serial"]
            else:
                env = {"RAYON_NUM_THREADS": str(threads), "VICUT_VERIF_JITTER": str(jit)}
            with Scratch() as sc:
                if how == "stdin":
                    o = run_cli(["--linewise"] + flags + argv, stdin=text, cwd=sc.d, env=env, timeout=30)
                    outs.append((name, o["rc"], o["out"], None))
                else:
                    for k, v in files.items():
                        sc.write(k, v)
                    lw = ["--linewise"] if how.endswith("-lw") else []
                    inp = ["-i"] if how.startswith("inplace") else []
                    o = run_cli(inp + lw + flags + argv + sorted(files), cwd=sc.d, env=env, timeout=30)
                    outs.append((name, o["rc"], o["out"], sc.listing() if inp else None))
        return outs
    for (how, argv, text, files), outs in zip(cases, pmap(sched, cases, workers=4)):
        case = {"how": how, "argv": argv, "stdin": text, "files": files}
        R.case(case, nontrivial=True)
        R.count("sched." + how)
        ser = outs[0]
        if ser[1] != 0 or any(o[1] != ser[1] for o in outs):
            if any(o[1] != ser[1] for o in outs):
                R.violation("exit status depends on the schedule: %s" % [(o[0], o[1]) for o in outs], case)
            else:
                R.count("sched.nonzero")
            continue
        for name, rc, out, listing in outs[1:]:
            R.count("sched.runs")
            exp = ser[2]
            if how in ("files", "files-lw") and len(files) == 1 and not how.endswith("-lw"):
                exp = ser[2][:-1] if ser[2].endswith(b"\n") else ser[2]     # serial mode's extra final newline (single file)
            if how == "files-lw" and len(files) == 1:
                exp = ser[2][:-1] if ser[2].endswith(b"\n") else ser[2]
            if how.startswith("inplace"):
                if listing != ser[3]:
                    k = [k for k in ser[3] if listing.get(k) != ser[3][k]][0]
                    R.violation("file %s written with %s threads differs from --serial" % (k, name), dict(case, threads=name))
                    break
            elif out != exp:
                # multi-file stdout: the parallel drivers skip files whose output is empty, the serial ones print the header
                R.violation("stdout with %s threads differs from --serial" % name, dict(case, threads=name, got=out.decode("utf-8", "replace")[:300], want=exp.decode("utf-8", "replace")[:300]))
                break
    close_servers()
    return R.finish(proof, rule="(1) read-before-write command lists (p/P/\\\"ap, n/N, ., ;, gv, :& before yanks, block/line yanks, searches, edits) on 3 units run one after the other on ONE thread through the real execute(): each unit's records must equal the unit run alone; (2) the real binary under RAYON_NUM_THREADS in {1,2,3,4,8,16,32} x seeded jitter (sleep/yield at the start of every unit, hook) vs --serial: stdin --linewise (up to 200/2000 lines), 1-8 files with and without --linewise, stdout and -i. non-trivial = every case",
                    assumptions=["rayon runs each closure exactly once and hands back results that are a permutation of the units (the theorem covers every assignment and completion order of the model; the pool itself is explored, not proved)",
                                 "search pattern, repeat state and variables live in the per-unit ViCut (by construction of execute()); probed by part (1)"])
