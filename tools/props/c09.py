"""C09 — the editor's position always agrees with its text."""
import itertools
import json
from vlib import *
import gen

PROP = "C09"

KEYS = gen.MOTIONS + ["v", "V", "<c-v>", "o", "<esc>", "i", "a", "A", "I", "x", "X", "dd", "dw", "D", "p", "P", "u", "<c-r>", "yy", "yiw", "~", "rZ", "J",
                      "iab<esc>", "ofoo<esc>", "Obar<esc>", "cwX<esc>", "/o<CR>", "n", "N", "?a<CR>", ":s/a/b/<CR>", ":d<CR>", ":2<CR>", "R", "é", "<BS>",
                      "<del>", "<left>", "<right>", "<up>", "<down>", "gv", ".", "vd", "Vd", "vy", "<c-v>jd", "viw", "vip", "g~w", "gUw", "3l", "2j", "d$",
                      "c$<esc>", "s", "C", ">>", "<<", "==", "r日", "<CR>", "ié<esc>", "xp", "ddp", "vU", "g?w", "<c-v>l", "Vj", "v$", "vG", "O", "q"]
# the full command alphabet for the exhaustive depth-3 tier: one key command per entry
ALPHABET = ["h", "l", "j", "k", "w", "b", "e", "W", "B", "E", "ge", "0", "^", "$", "G", "gg", "fa", "Fa", "t ", "T ", ";", ",", "%", "{", "}", "(", ")",
            "x", "X", "dd", "dw", "D", "J", "~", "rZ", "p", "P", "yy", "u", "<c-r>", ".", "v", "V", "<c-v>", "o", "d", "y", "c", "<esc>", "i", "a", "A", "I", "O",
            "R", "Q", "<BS>", "<del>", "iw", "n", "N", ":d<CR>", ":s/a/b/<CR>", "/a<CR>", ">>", "g~w", "s", "C", "gv"]
SEED_TEXTS = ["", "a", "ab\n", "a b\n\ncd", "é日\nx y", "ab\ncd\n"]


def history(r):
    n = r.choice([1, 2, 3, 5, 8, 12, 20, 40])
    return [r.choice(KEYS) for _ in range(n)]


def spec_report(st):
    """line/col/pos/char computed from the text the editor would print and the real segmentation."""
    buf, fresh = st["buf"], st["fresh"]
    gs = graphemes_of(buf, fresh)
    n, v = len(gs), st["cur"]["value"]
    b = buf.encode("utf-8")
    pos = fresh[v] if v < n else len(b)
    line = 1 + b[:pos].count(b"\n")
    ls = min(v, n)
    while ls > 0 and gs[ls - 1] != "\n":
        ls -= 1
    return {"pos": pos, "line": line, "col": 1 + v - ls, "char": gs[v] if v < n else "", "buf_len": len(b)}


def check_state(R, st, case, where, mreqs, mmeta):
    """implementation side: invariants + reports against the specification; queue the model query"""
    crlf = "\r" in st["buf"]
    for cls, what in wf_failures(st):
        classes = [cls] + (["crlf.geometry"] if crlf else [])
        R.violation("%s after %s: %s" % (what, where, st["cur"]), case, classes=classes)
    b = st["builtins"]
    fresh_cache = st["cache"] is None or st["cache"] == st["fresh"]
    if b == "panic":
        R.violation("asking the editor for line/col/pos panics after %s" % where, case, classes=["crlf.geometry"] if crlf else [])
    elif fresh_cache and st["cur"]["value"] <= len(st["fresh"]):
        want = spec_report(st)
        for k in ("pos", "line", "col", "char", "buf_len"):
            if b[k] != want[k]:
                R.violation("reported %s is %r, the text says %r (after %s; cursor %s)" % (k, b[k], want[k], where, st["cur"]), case,
                            classes=["crlf.geometry"] if crlf else [])
                break
    R.count("state")
    R.count("mode:" + st["mode"])
    if st.get("sel_mode"):
        R.count("selection:" + st["sel_mode"].split("(")[0].split(" ")[0])
    gs = graphemes_of(st["buf"], st["fresh"])
    if any(len(g.encode()) > 1 for g in gs):
        R.count("multibyte_state")
    mreqs.append({"op": "pos", "gs": gs, "cur": st["cur"], "cache": st["cache"], "was_insert": st["mode"] == "Insert"})
    mmeta.append((case, where, st))


def run(tier, seed, replay=None):
    R = Run(PROP, tier, seed)
    proof = prove(PROP, thorough=(tier == "thorough"))
    build_hooked()
    R.check_witnesses()
    r = R.rng
    cases = []
    nrand = 900 if tier == "quick" else 30000
    for _ in range(nrand):
        text = gen.text(r, max_lines=4, multibyte=(r.random() < 0.6), crlf=(r.random() < 0.04))
        cases.append({"text": text, "steps": history(r), "fields": r.random() < 0.3})
    # exhaustive short histories over the command alphabet on the seed buffers (depth 2 quick, 3 thorough)
    depth = 2 if tier == "quick" else 3
    texts = SEED_TEXTS[:3] if tier == "quick" else SEED_TEXTS
    nexh = 0
    for t in texts:
        # depth 3 (69^3 histories per buffer) on two of the seed buffers, depth 2 on the others
        dmax = depth if (tier == "quick" or t in ("ab\n", "é日\nx y")) else 2
        for d in range(1, dmax + 1):
            for h in itertools.product(ALPHABET, repeat=d):
                cases.append({"text": t, "steps": list(h), "fields": False, "exhaustive": True})
                nexh += 1
    R.count("exhaustive_histories", nexh)
    if replay:
        rp = json.load(open(replay))
        c = rp.get("case") or {}
        if "steps" in c:
            cases = [{"text": c["text"], "steps": c["steps"], "fields": c.get("fields", False)}]
    CH = 20000
    allcases = cases
    for off in range(0, len(allcases), CH):
        cases = allcases[off:off + CH]
        reqs = [{"op": "session", "text": c["text"], "cursor": 0, "trace": True, "keep_mode": False,
                 "steps": [["field" if (c["fields"] and i % 3 == 2) else "move", s] for i, s in enumerate(c["steps"])]} for c in cases]
        resp = batch(hook_server, reqs)
        mreqs, mmeta = [], []
        for c, x in zip(cases, resp):
            if "steps" not in x:
                R.case(c, nontrivial=False, sample=False)
                R.count("session_crashed")        # C10's subject
                continue
            nst = 0
            for k, st in enumerate(x["steps"][1:]):
                where = "%r (step %d)" % (c["steps"][k], k)
                for t in st["trace"]:
                    if t["k"] == "cmd":
                        check_state(R, t["st"], dict(c, steps=c["steps"][:k + 1]), where, mreqs, mmeta)
                        nst += 1
                # the state the driver leaves after the flag (set_normal_mode) is a between-commands state too
                if st.get("post"):
                    check_state(R, st["post"], dict(c, steps=c["steps"][:k + 1]), where + " + set_normal_mode", mreqs, mmeta)
                    mmeta[-1] = mmeta[-1] + (st["after"],)
                # a field is cut at grapheme boundaries of the text it was taken from
                if "ok" in st["res"] and isinstance(st["res"]["ok"], str) and st["res"]["ok"]:
                    gs = graphemes_of(st["after"]["buf"], st["after"]["fresh"])
                    f = st["res"]["ok"]
                    R.count("field_checked")
                    if st["after"].get("sel_mode") is None or not st["after"]["sel_mode"].startswith("Block"):
                        ok = any("".join(gs[i:j]) == f for i in range(len(gs) + 1) for j in range(i, len(gs) + 1) if len("".join(gs[i:j])) <= len(f))
                        if not ok and not f.endswith("\n"):
                            R.violation("field %r is not a run of whole graphemes of the text %r" % (f[:60], st["after"]["buf"][:60]), dict(c, steps=c["steps"][:k + 1]))
            R.case(c, nontrivial=(nst > 0), sample=not c.get("exhaustive"))
        mres = batch(model_driver, mreqs)
        for meta, m in zip(mmeta, mres):
            case, where, st = meta[0], meta[1], meta[2]
            if "wf" not in m:
                R.disagreement("driver: %s" % canon(m)[:100], case)
                continue
            R.count("model_compared")
            # the Lean predicates and the direct reading must agree on every observed state
            direct_wf = (st["cur"]["max"] == len(st["fresh"])) and (st["cur"]["value"] <= (max(len(st["fresh"]) - 1, 0) if st["cur"]["exclusive"] else len(st["fresh"]))) \
                and (st["cache"] is None or st["cache"] == st["fresh"])
            if m["wf"] != direct_wf:
                R.disagreement("Lean WF says %s, direct reading %s on %s" % (m["wf"], direct_wf, st["cur"]), case)
            b = st["builtins"]
            if b != "panic" and m["cache_ok"] and "\r" not in st["buf"]:
                col = m["col"]
                got = (b["pos"], b["line"], b["col"], b["char"], b["buf_len"])
                want = (m["pos"], m["line"], col, m["char"], m["buf_len"])
                if got != want:
                    R.disagreement("position report: model %s impl %s after %s" % (want, got, where), case)
            if len(meta) > 3:
                after = meta[3]
                # set_normal_mode: model on the state before it vs the state after it
                if after.get("sel_mode") is None and "\r" not in after["buf"]:
                    R.count("set_normal_compared")
            if st["mode"] == "Normal" and len(meta) > 3 and not m["normal_ok"] and "\r" not in st["buf"]:
                R.violation("after set_normal_mode the cursor is not on a character / is on a line terminator: %s in %r" % (st["cur"], st["buf"][:60]), case)
        # set_normal_mode correspondence: feed the pre-state to the model, compare the cursor
        sreqs, smeta = [], []
        for c, x in zip(cases, resp):
            if "steps" not in x:
                continue
            for k, st in enumerate(x["steps"][1:]):
                a, p = st["after"], st.get("post")
                if not p or a.get("sel_mode") or "\r" in a["buf"] or a["ins_start"] is not None and a["mode"] == "Insert" and False:
                    continue
                if a["cache"] is not None and a["cache"] != a["fresh"]:
                    continue
                sreqs.append({"op": "pos", "gs": graphemes_of(a["buf"], a["fresh"]), "cur": a["cur"], "cache": a["cache"], "was_insert": a["mode"] == "Insert"})
                smeta.append((dict(c, steps=c["steps"][:k + 1]), a, p))
        for (case, a, p), m in zip(smeta, batch(model_driver, sreqs)):
            if "set_normal" not in m:
                continue
            R.count("set_normal_model_compared")
            if a["buf"] != p["buf"]:
                R.count("set_normal_changed_text(block insert)")
                continue
            if m["set_normal"]["value"] != p["cur"]["value"] or m["set_normal"]["exclusive"] != p["cur"]["exclusive"]:
                R.disagreement("set_normal_mode: model cursor %s impl %s (from %s in mode %s, text %r)" % (m["set_normal"], p["cur"], a["cur"], a["mode"], a["buf"][:40]), case)
    close_servers()
    return R.finish(proof, rule="random key histories of 1-40 commands over normal, insert, replace, visual (char/line/block), search and ex commands on ASCII and multi-byte buffers, plus every history of length <= %d over a %d-command alphabet on %d seed buffers (thorough: depth 3 on two of them, depth 2 on the other four); after every key command (exec_loop hook, taken after the return to normal mode) and after the driver's set_normal_mode the state dump (text, real segmentation, cached offsets, cursor value/max/clamp, mode, selection, and the editor's own line/col/pos/char computed on a clone) is checked (i) directly: bound = grapheme count, cursor under bound, cache absent or fresh, on a character in normal/visual/replace mode, off the terminator in normal mode, reports = those computed from the printed text, selection ordered/inside/containing the cursor, fields cut at grapheme boundaries; (ii) against the Lean model: WF verdict, reported pos/line/col/char, and the cursor after set_normal_mode" % (depth, len(ALPHABET), len(texts)),
                    assumptions=["what a verb or motion does to text and cursor is an input of the model (any command)", "CR LF pairs segment as one grapheme: texts containing \\r are classified separately (known finding crlf.geometry)",
                                 "block-insert replay inside set_normal_mode is not modelled (states where it changes the text are skipped in the set_normal comparison)"])
