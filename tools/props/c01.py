"""C01 — a cut field is exactly the text spanned by the cursor's movement."""
import json
import re
from vlib import *
import gen

PROP = "C01"


def span_spec(gs, c0, c1):
    """contiguous stretch between the two cursor positions, both ends included (clamped to the text)"""
    if not gs:
        return ""
    a = min(min(c0, c1), len(gs) - 1)
    b = min(max(c0, c1) + 1, len(gs))
    return "".join(gs[a:b])


def lines_spec(gs, c0, c1):
    """whole lines from the line of c0 to the line of c1"""
    n = len(gs)
    if n == 0:
        return ""
    lo, hi = min(c0, c1), max(c0, c1)
    s = min(lo, n)
    while s > 0 and gs[s - 1] != "\n":
        s -= 1
    e = min(hi, n - 1)
    while e < n and gs[e] != "\n":
        e += 1
    e = min(e + 1, n)
    return "".join(gs[s:e])


def block_spec(gs, c0, c1):
    """rows of the rectangle spanned by the two cursor positions: the lines between them, the columns between
    theirs (both included), each row cut at its line's last character (terminators are never part of a row)"""
    n = len(gs)
    if n == 0 or c0 >= n or c1 >= n:
        return None
    lines, s = [], 0
    for i, g in enumerate(gs):
        if g == "\n":
            lines.append((s, i))
            s = i + 1
    if s < n:
        lines.append((s, n))

    def where(c):
        for li, (a, b) in enumerate(lines):
            if a <= c <= b:
                return li, c - a
        return None
    w0, w1 = where(c0), where(c1)
    if w0 is None or w1 is None:
        return None
    (l0, k0), (l1, k1) = w0, w1
    rows = []
    for li in range(min(l0, l1), max(l0, l1) + 1):
        a, b = lines[li]
        x = min(a + min(k0, k1), b)
        y = min(a + max(k0, k1) + 1, b)
        rows.append("".join(gs[x:max(x, y)]))
    return "\n".join(rows)


def gen_case(r):
    text = gen.text(r, max_lines=4)
    pre = []
    for _ in range(r.choice([0, 0, 1, 1, 2, 3])):
        pre.append(["move", gen.edit_cmd(r) if r.random() < 0.35 else gen.passive_cmd(r)])
    k = r.random()
    if k < 0.5:
        cmd, kind = gen.motion(r), "motion"
    elif k < 0.62:
        cmd, kind = "v" + "".join(gen.motion(r) for _ in range(r.randint(0, 2))), "v"
    elif k < 0.7:
        cmd, kind = "V" + "".join(r.choice(["j", "k", "l", "w", ""]) for _ in range(r.randint(0, 2))), "V"
    elif k < 0.8:
        cmd, kind = "v" + r.choice(gen.TEXTOBJS), "textobj"
    elif k < 0.86:
        cmd, kind = "<c-v>" + "".join(r.choice(["j", "l", "k", "h", "2l", "w", "e", "4l", "2j"]) for _ in range(r.randint(1, 3))), "block"
    else:
        cmd, kind = gen.passive_cmd(r), "passive"
    if kind == "block" and r.random() < 0.6:
        # short lines of unequal length, with and without a final terminator, the block's corners anywhere (also on
        # the last character of the last line): the rectangle has to be clipped per line
        ls = ["".join(r.choice(["a", "b", "c", "é", "日", "x", " ", "d"]) for _ in range(r.randint(1, 5))) for _ in range(r.randint(2, 4))]
        text = "\n".join(ls) + ("\n" if r.random() < 0.5 else "")
        pre = [["move", r.choice(["", "j", "2j", "G", "jj"]) + r.choice(["", "l", "2l", "3l", "4l", "0"])]]
        pre = [p for p in pre if p[1]]
        cmd = "<c-v>" + "".join(r.choice(["j", "l", "k", "h", "2l", "3l", "4l", "2j", "2k", "2h"]) for _ in range(r.randint(1, 3)))
    return {"text": text, "pre": pre, "cmd": cmd, "kind": kind}


def run(tier, seed, replay=None):
    R = Run(PROP, tier, seed)
    proof = prove(PROP, thorough=(tier == "thorough"))
    build_hooked()
    R.check_witnesses()
    r = R.rng
    n = 3000 if tier == "quick" else 100000
    cases = [gen_case(r) for _ in range(n)]
    if tier == "thorough":
        # exhaustive small scope: all texts over {a,space,.,\n,é} up to length 4 x every start cursor x every single command
        import itertools
        cmds = gen.MOTIONS + ["v", "vl", "vh", "V", "Vj", "viw", "vaw", "yw", "yiw", "99l", "3w", "2b"]
        for L in range(0, 5):
            for t in itertools.product("a .\né", repeat=L):
                text = "".join(t)
                for c in range(0, max(1, L)):
                    for cmd in cmds:
                        cases.append({"text": text, "pre": [["move", "%dl" % c]] if c else [], "cmd": cmd, "kind": "exh"})
    if replay:
        rp = json.load(open(replay))
        c = rp.get("case") or {}
        if "cmd" in c:
            cases = [{k: c[k] for k in ("text", "pre", "cmd", "kind")}]
    reqs = [{"op": "session", "text": c["text"], "cursor": 0, "steps": c["pre"] + [["field", c["cmd"]]]} for c in cases]
    resp = batch(hook_server, reqs)
    mreqs, midx = [], []
    for i, (c, x) in enumerate(zip(cases, resp)):
        if "steps" not in x:
            continue
        st = x["steps"][-1]
        a = st["after"]
        gs = graphemes_of(a["buf"], a["fresh"])
        mreqs.append({"op": "field", "gs": gs, "c0": st["c0"], "c1": a["cur"]["value"],
                      "sel_mode": parse_sel_mode(a["sel_mode"]), "sel_range": parse_sel_range(a["sel_range"])})
        midx.append(i)
    mres = dict(zip(midx, batch(model_driver, mreqs)))
    # ---- visual-block selections: the editor's windows vs the Lean model of get_block_select_windows
    breqs, bidx = [], []
    for i, (c, x) in enumerate(zip(cases, resp)):
        if "steps" not in x:
            continue
        a = x["steps"][-1]["after"]
        mm = re.search(r"Block \{.*anchor_pos: (\d+)", a["sel_mode"] or "")
        if not mm or not a["sel_range"] or "\r" in a["buf"]:
            continue
        breqs.append({"op": "block_windows", "gs": graphemes_of(a["buf"], a["fresh"]), "anchor": int(mm.group(1)), "cur": a["cur"]["value"]})
        bidx.append(i)
    for i, m in zip(bidx, batch(model_driver, breqs)):
        a = resp[i]["steps"][-1]["after"]
        got = [[int(p), int(q)] for p, q in re.findall(r"\((\d+), (\d+)\)", a["sel_range"])]
        R.count("block_windows_model_compared")
        if m.get("windows") != got:
            R.disagreement("block windows: model %s impl %s (anchor/cursor %s/%s in %r)" % (canon(m.get("windows", m))[:120], got[:8], breqs[bidx.index(i)]["anchor"], a["cur"]["value"], a["buf"][:60]), cases[i])
    for i, (c, x) in enumerate(zip(cases, resp)):
        R.count("kind." + c["kind"])
        if "steps" not in x:
            R.case(c, nontrivial=False, sample=False)
            R.count("crash_or_exit")          # a panic anywhere in the session: C10 judges it
            continue
        st = x["steps"][-1]
        a = st["after"]
        before = x["steps"][-2]["post"] if len(x["steps"]) >= 3 else x["steps"][0]["init"]
        gs = graphemes_of(a["buf"], a["fresh"])
        c0, c1 = st["c0"], a["cur"]["value"]
        nontrivial = bool(gs) and (c0 != c1 or a["sel_range"] is not None)
        R.case(c, nontrivial=nontrivial)
        res = st["res"]
        m = mres[i]
        got = {"ok": res["ok"]} if "ok" in res else {"err": res.get("err")}
        want_m = {k: m[k] for k in ("ok", "err", "panic") if k in m}
        # --- mechanism: model of read_field's tail on the implementation's own post state
        if got != want_m:
            R.disagreement("field: model %s impl %s" % (canon(want_m)[:200], canon(got)[:200]), c)
        # --- a command made only of motions, selections and yanks leaves the text unchanged
        if a["buf"] != before["buf"]:
            R.violation("a motion/selection/yank command changed the text: %r -> %r" % (before["buf"][:80], a["buf"][:80]), c)
            continue
        if "ok" not in res:
            R.count("field_err")
            continue
        # --- the property itself, from the cursor positions
        if a["sel_range"] is None:
            want = span_spec(gs, c0, c1)
            if res["ok"] != want:
                R.violation("field %r is not the stretch between cursor %d and %d: %r" % (res["ok"][:80], c0, c1, want[:80]), c)
        elif a["sel_mode"] and (a["sel_mode"].startswith("Char") or a["sel_mode"].startswith("Line")) and a["sel_range"]:
            # the property: exactly the selected text, i.e. the graphemes of the editor's own selection
            m = re.match(r"OneDim\(\((\d+), (\d+)\)\)", a["sel_range"])
            s0, e0 = int(m.group(1)), int(m.group(2))
            if a["sel_mode"].startswith("Char"):
                want = "".join(gs[s0:min(e0 + 1, len(gs))]) if s0 < len(gs) else ""
            else:
                want = "".join(gs[s0:e0]) if s0 < len(gs) and e0 <= len(gs) else ""
            R.count("selection_checked")
            if res["ok"] != want:
                R.violation("the field %r is not the text of the active selection %s: %r" % (res["ok"][:80], a["sel_range"], want[:80]), c)
            # which text a `v`/`V` + motions selection *should* cover (anchor..cursor, whole lines) is a question about the
            # selection, not about the field: counted here, decided by C02/C09
            if c["kind"] == "v" and c["cmd"].count("o") == 0 and res["ok"] != span_spec(gs, c0, c1):
                R.count("selection_is_not_anchor_to_cursor")
            if c["kind"] == "V" and res["ok"] != lines_spec(gs, c0, c1):
                R.count("selection_is_not_the_lines_anchor_to_cursor")
        elif a["sel_mode"] and a["sel_mode"].startswith("Block") and a["sel_range"]:
            # block selection: one row per window of the editor's own select_range, empty rows included
            ws = [(int(x), int(y)) for x, y in re.findall(r"\((\d+), (\d+)\)", a["sel_range"])]
            rows = ["".join(gs[x:y]) for x, y in ws if x < len(gs) and y <= len(gs) and x <= y]
            want = "\n".join(rows)
            R.count("block_selection_checked")
            if res["ok"] != want:
                R.violation("block selection %r is not the rows of its windows %s: %r" % (res["ok"][:80], ws[:6], want[:80]), c)
            # the selected text of a block, computed from the two cursors alone (not from the editor's windows): the
            # rectangle between the anchor (the cursor before the command) and the cursor, on the lines between them
            if c["kind"] == "block":
                want2 = block_spec(gs, c0, c1)
                R.count("block_rectangle_checked")
                if want2 is not None and (gs[c0] == "\n" or gs[c1] == "\n"):
                    R.count("block_corner_on_terminator")     # (visual mode lets the cursor onto a terminator)
                if want2 is not None and res["ok"] != want2:
                    R.violation("block selection %r is not the rectangle between cursor %d and %d: %r" % (res["ok"][:80], c0, c1, want2[:80]), c)
        else:
            R.count("selected_by_model_only")
    close_servers()
    return R.finish(proof, rule="texts (empty, newline-only, multi-line, combining, ZWJ emoji, CJK) x 0-3 earlier -m commands (incl. edits) to move the start cursor x one -c command from the motion / text-object / v / V / <c-v> / yank / search grammar with counts, backwards, failing and overshooting; through the real ViCut::read_field (session hook). Checked: (a) the returned field = the model's fieldOf on the implementation's own post state (cursor, selection, graphemes from the real segmenter), (b) text unchanged, (c) field = stretch between start and end cursor (no selection; v+motions) / whole lines (V). thorough adds all texts over {a,space,.,\\\\n,é} up to length 4 x every cursor x 40 commands. non-trivial = non-empty buffer and (cursor moved or selection active)",
                    assumptions=["segmentation comes from the real crate (offsets reported by the hook)", "for text objects, v…o… and block selections the 'selected text' is the editor's own select_range (model only; anchoring is C09's invariant)"])
