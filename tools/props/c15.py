"""C15 — key notations are interchangeable and every key string is consumed."""
import json
from vlib import *
import gen

PROP = "C15"

# the documented pairs: alias -> raw spellings (bytes)
PAIRS = {
    "<esc>": [b"\x1b"], "<CR>": [b"\r"], "<enter>": [b"\r"], "<return>": [b"\r"], "<BS>": [b"\x7f", b"\x08"],
    "<del>": [b"\x1b[3~"], "<left>": [b"\x1b[D"], "<right>": [b"\x1b[C"], "<up>": [b"\x1b[A"], "<down>": [b"\x1b[B"],
    "<home>": [b"\x1b[1~", b"\x1b[7~"], "<end>": [b"\x1b[4~", b"\x1b[8~"],
    "<c-w>": [b"\x17"], "<c-v>": [b"\x16"], "<c-r>": [b"\x12"], "<c-a>": [b"\x01"], "<c-d>": [b"\x04"], "<c-u>": [b"\x15"],
    "<tab>": [b"\t"], "<pgup>": [b"\x1b[5~"], "<pgdown>": [b"\x1b[6~"],
}
KNOWN_CLASS = {"<CR>": "alias.cr_vs_enter", "<tab>": "alias.tab"}
ALIAS_NAMES = ["esc", "CR", "return", "enter", "tab", "BS", "del", "ins", "home", "end", "left", "right", "up", "down", "pgup", "pgdown"]


def is_alias_name(name):
    """Mirror of the *documented* alias grammar: [c-|s-|a-]* (named | single alnum | f<digits>)"""
    n = name
    while n[:2] in ("c-", "s-", "a-"):
        n = n[2:]
    if n in ALIAS_NAMES:
        return True
    if len(n) == 1 and n.isalnum() and ord(n) < 128:
        return True
    if len(n) > 1 and n[0] == "f" and n[1:].isdigit():
        return True
    return False


TEXT_CHARS = list("abcXYZ019 .,;:!?()[]{}'\"=-+/") + ["<", "<", ">", ">", "\\", "\\", "é", "ß", "日", "👍", "é", "<<", "<>", "< ", "<no such>", "<esc ", "<é>", "<=>"]


def literal_text(r, n=None):
    return "".join(r.choice(TEXT_CHARS) for _ in range(n or r.randint(1, 10)))


def has_unescaped_alias(t):
    """Would the documented reader see an alias in t (starting unescaped)?"""
    esc = False
    i = 0
    while i < len(t):
        c = t[i]
        if c == "<" and not esc:
            j = t.find(">", i + 1)
            name = t[i + 1:] if j < 0 else t[i + 1:j]
            if name and all(ord(x) < 128 for x in name) and is_alias_name(name):
                return True
            if name and not all(ord(x) < 128 for x in name):
                # non-ASCII bytes between < and >: the byte-level name can still be an alias only if pure ASCII
                pass
        esc = (c == "\\") and not esc
        i += 1
    return False


def keyseq_case(r):
    """pre + special + post, spelled as alias and as raw"""
    alias = r.choice(list(PAIRS))
    raw = r.choice(PAIRS[alias])
    pre = r.choice(["", "i", "ia", "R", "v", ":s/a", "/fo", "d", "2", "iab\\\\", "ia\\\\\\\\", "é", "x", "ia\\é", "i\\日", "i\\👍x"])
    post = r.choice(["", "x", "ix", "[", "O", "[D", "<esc>", "é", "~", "0", ">", "<", "\\<"])
    return alias, raw, pre, post


def run(tier, seed, replay=None):
    R = Run(PROP, tier, seed)
    proof = prove(PROP, thorough=(tier == "thorough"))
    build_hooked()
    R.check_witnesses()
    r = R.rng
    n_fuzz = 2500 if tier == "quick" else 80000
    n_pair = 1500 if tier == "quick" else 40000
    n_lit = 1000 if tier == "quick" else 30000
    n_beh = 250 if tier == "quick" else 6000

    # ---- 1. reader correspondence on arbitrary byte strings (grammar strings, raw fuzz, some invalid UTF-8)
    reqs = []
    for _ in range(n_fuzz):
        k = r.random()
        if k < 0.45:
            s = "".join(r.choice([gen.edit_cmd(r), gen.passive_cmd(r), literal_text(r, 3)]) for _ in range(r.randint(1, 3))).encode("utf-8")
        elif k < 0.8:
            parts = []
            for _ in range(r.randint(1, 8)):
                parts.append(r.choice([b"<", b">", b"\\", b"\x1b", b"[", b"O", b"1", b"5", b"~", b";", b"A", b"D", b"P", b"c-", b"s-", b"a-",
                                       b"esc", b"CR", b"f12", b"f300", b"x", b"\r", b"\t", b"\x00", b"\x7f", b"\x17", "é".encode(), "👍".encode(),
                                       b"<esc>", b"<c-w>", b"<BS>", b"<f5>", b"<c-s-a-x>", b"\xc2\x9b", b"\xc2\x85"]))
            s = b"".join(parts)
        else:
            s = bytes(r.randrange(256) for _ in range(r.randint(1, 8)))
        reqs.append({"op": "keys", "bytes": list(s), "escaped": r.random() < 0.05})
    impl = batch(hook_server, reqs)
    model = batch(model_driver, reqs)
    for q, a, m in zip(reqs, impl, model):
        R.case(q, nontrivial=(60 in q["bytes"] or 27 in q["bytes"]))
        R.count("keys.fuzz")
        if "keys" not in a:
            R.violation("reader crashed: %s" % canon(a), q)
            continue
        a2 = {k: a[k] for k in ("keys", "left", "escaped")}
        m2 = {k: m.get(k) for k in ("keys", "left", "escaped")}
        if a2 != m2:
            R.disagreement("keys: model %s impl %s" % (canon(m2)[:300], canon(a2)[:300]), q)
        # every valid-UTF-8 key string without raw ESC is read to its end
        try:
            bytes(q["bytes"]).decode("utf-8")
            valid = True
        except UnicodeDecodeError:
            valid = False
        if valid and 27 not in q["bytes"] and a["left"]:
            R.violation("key string not read to its end: %s left" % a["left"], q)

    # ---- 2. alias == raw at the key level, in context
    preqs, meta = [], []
    for _ in range(n_pair):
        alias, raw, pre, post = keyseq_case(r)
        if raw == b"\x1b" and post[:1] in ("[", "O"):
            post = "x" + post
        a = (pre + alias + post).encode("utf-8")
        b = pre.encode("utf-8") + raw + post.encode("utf-8")
        preqs.append({"op": "keys", "bytes": list(a)})
        preqs.append({"op": "keys", "bytes": list(b)})
        meta.append((alias, raw, pre, post))
    res = batch(hook_server, preqs)
    for i, (alias, raw, pre, post) in enumerate(meta):
        ka, kb = res[2 * i], res[2 * i + 1]
        case = {"alias": alias, "raw": list(raw), "pre": pre, "post": post}
        R.case(case, nontrivial=True)
        R.count("pair." + alias)
        if (ka.get("keys") != kb.get("keys") or ka.get("left") != kb.get("left")) and alias in KNOWN_CLASS:
            # <CR>/<tab> are *different key events* from raw CR/TAB by the source's table; whether that is
            # visible is decided by the behavioural comparison in part 4
            R.count("pair.keylevel_differs." + alias)
        elif ka.get("keys") != kb.get("keys") or ka.get("left") != kb.get("left"):
            R.violation("alias %s and raw %r are read as different keys: %s vs %s" % (alias, raw, canon(ka.get("keys"))[:200], canon(kb.get("keys"))[:200]),
                        case, classes=[KNOWN_CLASS.get(alias, "-")])

    # ---- 3. literal text: non-alias <...> and \< are taken literally, nothing lost or reordered
    lreqs, ltexts = [], []
    for _ in range(n_lit):
        t = literal_text(r)
        if has_unescaped_alias(t):
            continue
        ltexts.append(t)
        lreqs.append({"op": "keys", "bytes": list(t.encode("utf-8"))})
    lres = batch(hook_server, lreqs)
    for t, a in zip(ltexts, lres):
        case = {"literal": t}
        R.case(case, nontrivial=("<" in t or "\\" in t))
        R.count("literal")
        want = [["Char", c, 0] for c in t]
        if a.get("keys") != want or a.get("left"):
            cls = []
            # <x> with a single ASCII alphanumeric is an alias in the source table
            R.violation("text not read literally: %s" % canon(a.get("keys"))[:300], case, classes=cls)

    # ---- 4. behaviour: both spellings through the real editor, in every mode
    templates = [
        ("normal", "w{K}x"), ("insert", "iab{K}c<esc>"), ("insert2", "A{K}Z<esc>"), ("replace", "Rxy{K}z<esc>"),
        ("visual", "vl{K}d"), ("search", "/o{K}x"), ("ex", ":s/o/0/{K}"), ("opending", "d{K}x"), ("insert_bs", "ixyz{K}{K}<esc>"),
    ]
    breqs, bmeta = [], []
    for _ in range(n_beh):
        alias = r.choice(list(PAIRS))
        raw = r.choice(PAIRS[alias])
        mode, tpl = r.choice(templates)
        text = gen.text(r, max_lines=3, allow_empty=False)
        ka = tpl.replace("{K}", alias)
        kb = tpl.replace("{K}", raw.decode("latin-1"))
        if raw == b"\x1b":
            kb = tpl.replace("{K}[", "{K}x[").replace("{K}", "\x1b")
        breqs.append({"op": "session", "text": text, "cursor": 0, "steps": [["move", ka]]})
        breqs.append({"op": "session", "text": text, "cursor": 0, "steps": [["move", kb]]})
        bmeta.append((alias, raw, mode, text, ka, kb))
    bres = batch(hook_server, breqs)

    def view(x):
        if "steps" not in x:
            return {"crash": x.get("panic", x.get("exit", "?"))}
        st = x["steps"][-1]["post"]
        return {"buf": st["buf"], "cur": st["cur"]["value"], "mode": st["mode"], "res": x["steps"][-1]["res"]}
    for i, (alias, raw, mode, text, ka, kb) in enumerate(bmeta):
        va, vb = view(bres[2 * i]), view(bres[2 * i + 1])
        case = {"alias": alias, "raw": list(raw), "mode": mode, "text": text, "keys_alias": ka, "keys_raw": kb}
        R.case(case, nontrivial=True)
        R.count("behaviour." + mode)
        if va != vb:
            R.violation("alias %s and raw %r behave differently in %s context: %s vs %s" % (alias, raw, mode, canon(va)[:200], canon(vb)[:200]),
                        case, classes=[KNOWN_CLASS.get(alias, "-")])
    close_servers()
    return R.finish(proof, rule="(1) byte strings from the key grammar, raw printable/control/escape-sequence fuzz and random bytes: real RawReader vs model (keys, bytes left, escape flag); (2) every documented alias vs each raw spelling inside random contexts (insert/replace/visual/search/ex prefixes, backslash runs, following '[' 'O' '>' '<'), keys compared; (3) insert texts over < > \\\\ and multi-byte without unescaped alias: keys must be the characters in order; (4) the two spellings through the real editor (session hook) in normal/insert/replace/visual/search/ex/operator-pending contexts, final text+cursor+mode compared. non-trivial = contains '<' or ESC (1), '<' or '\\\\' (3)",
                    assumptions=["arguments reach the reader as valid UTF-8 (Rust String); invalid bytes are exercised only through the hook", "modes consume KeyEvents only (exec_loop), so equal key sequences behave equally (theorem behaviour_follows_keys)"])
