"""C19 — a search lands on the next match and nowhere else."""
import json, re
from vlib import *
import gen

PROP = "C19"
PATTERNS = ["foo", "o", "a", "ba", "bar|baz", "[0-9]+", "\\d", "b.r", "é", "E", "two", "aa", "o+", "[a-c]", "zzz", "日", "[a-z][a-z]", "e "]


def all_starts(pat, text):
    """byte offsets of every position at which the pattern matches (overlapping ones included)"""
    rx = re.compile("(?=(?:%s))" % pat)
    return [len(text[:m.start()].encode("utf-8")) for m in rx.finditer(text)]


def spec_chain(text, gs, offs, starts, cursor, cmds, starts_of=None):
    """the property, literally: next/previous match start from the cursor, wrapping; counts = repetitions"""
    out = []
    last_fwd = True
    main_starts = starts
    total = len(text.encode("utf-8"))
    for c in cmds:
        if c[0] == "search":
            fwd, count = c[1], c[2]
            last_fwd = fwd
            starts = starts_of[c[3]] if (starts_of is not None and len(c) > 3) else main_starts
        elif c[0] == "next":
            fwd, count = last_fwd, c[1]
        else:
            fwd, count = (not last_fwd), c[1]
        for _ in range(count):
            cb = offs[cursor] if cursor < len(offs) else total
            if not starts:
                break
            if fwd:
                cand = [s for s in starts if s > cb]
                b = cand[0] if cand else starts[0]
            else:
                cand = [s for s in starts if s < cb]
                b = cand[-1] if cand else starts[-1]
            if b in offs:
                cursor = offs.index(b)
            else:
                break       # a match that starts inside a grapheme cluster cannot be landed on
        out.append(cursor)
    return out


def keys_of(cmd, pat):
    if cmd[0] == "search" and len(cmd) > 3:
        pat = cmd[3]
    if cmd[0] == "search":
        cnt = "" if cmd[2] == 1 else str(cmd[2])
        return cnt + ("/" if cmd[1] else "?") + pat + "<CR>"
    cnt = "" if cmd[1] == 1 else str(cmd[1])
    return cnt + ("n" if cmd[0] == "next" else "N")


def run(tier, seed, replay=None):
    R = Run(PROP, tier, seed)
    proof = prove(PROP, thorough=(tier == "thorough"))
    build_hooked()
    R.check_witnesses()
    r = R.rng
    n = 2000 if tier == "quick" else 70000
    cases = []
    for _ in range(n):
        text = gen.text(r, max_lines=4, allow_empty=(r.random() < 0.05))
        if r.random() < 0.3:
            text = " ".join(r.choice(["one", "two", "aaa", "foo12", "bar", "éé", "baz"]) for _ in range(r.randint(2, 8))) + r.choice(["", "\n"])
        pat = r.choice(PATTERNS)
        start = r.randint(0, 12)
        cmds = [["search", r.random() < 0.6, r.choice([1, 1, 1, 2, 3])]]
        for _ in range(r.randint(0, 5)):
            k = r.random()
            if k < 0.45:
                cmds.append(["next", r.choice([1, 1, 2, 3])])
            elif k < 0.85:
                cmds.append(["prev", r.choice([1, 1, 2, 3])])
            elif k < 0.93:
                cmds.append(["search", r.random() < 0.5, r.choice([1, 2])])
            else:
                # another pattern (often one that matches nowhere): n/N must then follow *that* pattern
                cmds.append(["search", r.random() < 0.5, 1, r.choice(["zzzz", "qqq", r.choice(PATTERNS)])])
        cases.append({"text": text, "pattern": pat, "start": start, "cmds": cmds, "via": r.choice(["m", "m", "c"])})
    if replay:
        rp = json.load(open(replay))
        c = rp.get("case") or {}
        if "cmds" in c:
            cases = [{k: c[k] for k in ("text", "pattern", "start", "cmds", "via")}]
    reqs = []
    for c in cases:
        steps = [["move", "%dl" % c["start"]]] if c["start"] else []
        for cmd in c["cmds"]:
            steps.append(["field" if c["via"] == "c" else "move", keys_of(cmd, c["pattern"])])
        reqs.append({"op": "session", "text": c["text"], "cursor": 0, "steps": steps})
    resp = batch(hook_server, reqs)
    mreqs, midx, pre = [], [], {}
    for i, (c, x) in enumerate(zip(cases, resp)):
        if "steps" not in x:
            continue
        first = x["steps"][1]["post"] if c["start"] else x["steps"][0]["init"]
        gs = graphemes_of(first["buf"], first["fresh"])
        starts = all_starts(c["pattern"], c["text"])
        cur0 = first["cur"]["value"]
        starts_of = {cmd[3]: all_starts(cmd[3], c["text"]) for cmd in c["cmds"] if cmd[0] == "search" and len(cmd) > 3}
        pre[i] = (gs, first["fresh"], starts, cur0, starts_of)
        mcmds = [(cmd[:3] + [starts_of[cmd[3]] if len(cmd) > 3 else starts]) if cmd[0] == "search" else cmd for cmd in c["cmds"]]
        mreqs.append({"op": "search", "gs": gs, "starts": starts, "cursor": cur0, "cmds": mcmds})
        midx.append(i)
    mres = dict(zip(midx, batch(model_driver, mreqs)))
    for i, (c, x) in enumerate(zip(cases, resp)):
        if "steps" not in x:
            R.case(c, nontrivial=False, sample=False)
            R.count("crash_or_exit")
            continue
        gs, offs, starts, cur0, starts_of = pre[i]
        R.case(c, nontrivial=(len(starts) >= 2))
        R.count("chain_len_%d" % len(c["cmds"]))
        R.count("via." + c["via"])
        ssteps = x["steps"][2:] if c["start"] else x["steps"][1:]
        got = [s["post"]["cur"]["value"] for s in ssteps]
        texts = [s["post"]["buf"] for s in ssteps]
        if any(t != c["text"] for t in texts):
            R.violation("a search edited the text", c)
            continue
        want = spec_chain(c["text"], gs, offs, starts, cur0, c["cmds"], starts_of)
        if got != want:
            k = [j for j in range(len(want)) if got[j] != want[j]][0]
            R.violation("after %s the cursor is at %d, the %s match from there is at %d (cursors %s, expected %s)" % (
                keys_of(c["cmds"][k], c["pattern"]), got[k], "next" if True else "", want[k], got, want), c)
            continue
        if not starts and not starts_of and got and any(g != cur0 for g in got):
            R.violation("the pattern matches nowhere but the cursor moved", c)
            continue
        if c["via"] == "c":
            # the field of every step is the stretch between the cursor before and after
            prev = cur0
            for s, g in zip(ssteps, got):
                f = s["res"].get("ok")
                a, b = min(prev, g), max(prev, g)
                want_f = "".join(gs[min(a, len(gs) - 1):min(b + 1, len(gs))]) if gs else ""
                if f is not None and f != want_f:
                    R.violation("-c search field %r is not the stretch %d..%d (%r)" % (f[:60], a, b, want_f[:60]), c)
                    break
                prev = g
        m = mres[i].get("cursors")
        if m != got:
            R.disagreement("search: model %s impl %s" % (m, got), c)
    close_servers()
    return R.finish(proof, rule="multi-line / multi-byte texts x patterns from the regex subset shared with Python's re x start cursor 0..12 x chains of 1-6 of / ? n N with counts 1-3, each command its own -m (cursor observed) or -c (field observed) step through the real editor; expected cursors are computed literally from the property (least match start > cursor else least; mirrored; counts = repetitions; all match starts incl. overlapping ones via a lookahead scan) and by the Lean model from the same starts; text must never change. non-trivial = at least two match positions",
                    assumptions=["Rust regex = Python re on the generated pattern subset", "a match starting inside a grapheme cluster cannot be a landing point"])
