"""C13 — -g runs on exactly the matching lines, -v on exactly the others."""
import json, re
from vlib import *
import gen

PROP = "C13"
# the subset on which Rust's regex crate and Python's re agree
PATTERNS = ["foo", "o", "a", "bar|baz", "[0-9]+", "^h", "x$", "zzz", "\\d", "b.r", "é", "E", "\\s", "[^a]", "^$", "\\w+ \\w+", "a*b", "o+", "ba?r", "^\\s", "日", ".", "^.$", "[a-c]x?"]


def graphemes(text, seg):
    offs = seg["offsets"] + [seg["len"]]
    b = text.encode("utf-8")
    return [b[offs[i]:offs[i + 1]].decode("utf-8") for i in range(len(offs) - 1)]


def ref_lines(text):
    """The reference view: a final newline ends the last line; the empty buffer is one empty line."""
    if text == "":
        return [""]
    ls = text.split("\n")
    if text.endswith("\n"):
        ls = ls[:-1]
    return ls


def simulate(text, visited_desc, kind):
    """Reference result of the marking commands, visiting lines bottom-up."""
    lines = ref_lines(text)
    term = text.endswith("\n")
    for i in visited_desc:
        lines[i] = ">" + lines[i]
        if kind == "edit_above":
            l0 = lines[0]
            lines[0] = "|" + l0          # `gg0i|<esc>`: at column 0 of the first line
    out = "\n".join(lines)
    if term or text == "":
        out += "\n" if (term) else ""
    return out


def run(tier, seed, replay=None):
    R = Run(PROP, tier, seed)
    proof = prove(PROP, thorough=(tier == "thorough"))
    build_hooked()
    R.check_witnesses()
    r = R.rng
    n_geo = 1200 if tier == "quick" else 40000
    n_cli = 220 if tier == "quick" else 8000

    # ---- 1. line geometry and the Global motion: model vs code
    texts = [gen.text(r, max_lines=6) for _ in range(n_geo)] + ["", "\n", "\n\n", "a", "a\n", "é\n\nb", "a\n\n"]
    segs = batch(hook_server, [{"op": "seg", "text": t} for t in texts])
    geo_i = batch(hook_server, [{"op": "geometry", "text": t} for t in texts])
    gss = [graphemes(t, s) for t, s in zip(texts, segs)]
    geo_m = batch(model_driver, [{"op": "geometry", "gs": gs} for gs in gss])
    greqs = []
    for t, gs in zip(texts, gss):
        pat = r.choice(PATTERNS)
        greqs.append((t, gs, pat, r.random() < 0.6))
    hay = batch(hook_server, [{"op": "regex", "pattern": p, "haystacks": ref_lines(t) + [""]} for t, gs, p, pol in greqs])
    glob_i = batch(hook_server, [{"op": "global", "text": t, "pattern": p, "polarity": pol} for t, gs, p, pol in greqs])
    mreqs = []
    for (t, gs, p, pol), h in zip(greqs, hay):
        table = [[l, bool(m)] for l, m in zip(ref_lines(t) + [""], h.get("matches", []))]
        mreqs.append({"op": "global", "gs": gs, "polarity": pol, "matches": table})
    glob_m = batch(model_driver, mreqs)
    for idx, t in enumerate(texts):
        case = {"op": "geometry", "text": t}
        R.case(case, nontrivial=("\n" in t))
        R.count("geometry")
        gi, gm = geo_i[idx], geo_m[idx]
        if "bounds" not in gi:
            R.violation("line_bounds crashed: %s" % canon(gi)[:200], case)
            continue
        if (gi["total_lines"], gi["bounds"], gi["max"]) != (gm.get("total_lines"), gm.get("bounds"), gm.get("max")):
            if "\r\n" in t:
                R.count("geometry.crlf_differs")      # CR-LF clusters: outside the model's claim (documented)
            else:
                R.disagreement("geometry: model %s impl %s" % (canon(gm)[:300], canon(gi)[:300]), case)
        (t2, gs, p, pol) = greqs[idx]
        case = {"op": "global", "text": t, "pattern": p, "polarity": pol}
        R.count("global")
        li, lm = glob_i[idx].get("lines"), glob_m[idx].get("lines")
        if li is None:
            R.violation("Global motion crashed: %s" % canon(glob_i[idx])[:200], case)
            continue
        # reference: the lines whose text matches (== polarity), last first
        h = hay[idx].get("matches")
        if h is not None and "\r" not in t:
            rl = ref_lines(t)
            want = [i for i in range(len(rl)) if bool(h[i]) == pol][::-1]
            if li != want:
                R.violation("%s visits lines %s, the %s lines are %s" % ("-g" if pol else "-v", li, "matching" if pol else "non-matching", want), case)
        if li != lm and "\r\n" not in t:
            R.disagreement("global: model %s impl %s" % (lm, li), case)

    # ---- 2. the real binary with marking commands
    cases = []
    for _ in range(n_cli):
        text = gen.text(r, max_lines=6, crlf=False)
        pat = r.choice(PATTERNS)
        pol = r.random() < 0.6
        kind = r.choice(["mark", "mark", "edit_above", "else", "cut"])
        cases.append((text, pat, pol, kind))
    if replay:
        rp = json.load(open(replay))
        c = rp.get("case") or {}
        if "kind" in c:
            cases = [(c["text"], c["pattern"], c["polarity"], c["kind"])]

    def cli(c):
        text, pat, pol, kind = c
        flag = "-g" if pol else "-v"
        if kind == "mark":
            av = [flag, pat, "-m", "i><esc>", "--end"]
        elif kind == "edit_above":
            av = [flag, pat, "-m", "i><esc>", "-m", "gg0i|<esc>", "--end"]
        elif kind == "else":
            av = [flag, pat, "-m", "i><esc>", "--else", "-m", "GA!<esc>", "-m", "gg0i!<esc>", "--end"]
        else:
            av = ["--json", flag, pat, "-c", "name=l", "$", "-n", "--end"]
        return av, run_cli(av, stdin=text)
    # which lines match is the real regex crate's verdict (Python's re differs on combining marks under \w)
    verdicts = batch(hook_server, [{"op": "regex", "pattern": pat, "haystacks": ref_lines(text)} for text, pat, pol, kind in cases])
    for (text, pat, pol, kind), (av, o), vd in zip(cases, pmap(cli, cases), verdicts):
        case = {"text": text, "pattern": pat, "polarity": pol, "kind": kind, "argv": av}
        rl = ref_lines(text)
        if "matches" not in vd or len(vd["matches"]) != len(rl):
            continue
        visited = [i for i in range(len(rl)) if bool(vd["matches"][i]) == pol][::-1]
        R.case(case, nontrivial=(0 < len(visited) < len(rl)))
        R.count("cli." + kind)
        if o["timeout"]:
            R.violation("vicut hung", case)
            continue
        if o["rc"] != 0:
            R.count("cli.nonzero")
            continue
        out = o["out"].decode("utf-8", "replace")
        if kind in ("mark", "edit_above"):
            want = simulate(text, visited, kind) + "\n"
            if out != want:
                R.violation("the scope's commands did not run exactly once on each %s line at its first character: got %r want %r" % ("matching" if pol else "non-matching", out[:300], want[:300]), case)
        elif kind == "else":
            if visited:
                want = simulate(text, visited, "mark") + "\n"
                if out != want:
                    R.violation("--else must not run when lines are selected (or the scope ran wrongly): got %r want %r" % (out[:300], want[:300]), case)
            else:
                if out.count("!") - text.count("!") != 2:
                    R.violation("--else must run exactly once when no line is selected: got %r" % out[:300], case)
        else:
            try:
                recs = json.loads(out) if out.strip() else []
            except Exception:
                R.violation("JSON output does not parse", case)
                continue
            if len(recs) != len(visited):
                R.violation("one record per visited line expected: %d records, %d lines" % (len(recs), len(visited)), case, classes=["global.empty_line_field"])
    close_servers()
    return R.finish(proof, rule="(1) generated texts (with/without final newline, empty lines, multi-byte): total_lines/line_bounds for every n and the Global/NotGlobal motion, model vs code, with graphemes from the real segmenter and regex verdicts from the real regex crate on the reference lines; the visited set is also compared with the reference (lines whose text matches == polarity, bottom-up); (2) real binary with marking commands inside -g/-v (insert at the cursor; edits above the visited line; --else markers; one JSON record per visit) against a Python simulation over the reference lines with the real regex crate's verdict per line. non-trivial = some but not all lines selected (a newline for geometry)",
                    assumptions=["texts with CR-LF clusters are outside the claim: line_bounds compares graphemes with \"\\n\" while total_lines counts characters (counted, not judged)", "regex crate = Python re on the generated subset (each verdict is also fetched from the real crate for part 1)"])
