"""C14 — all output formats carry the same records."""
import json, re
from vlib import *
import gen

PROP = "C14"


def py_standard(delim, recs):
    if len(recs) == 1 and len(recs[0]) == 1 and recs[0][0][0] == "0":
        return recs[0][0][1]
    out = []
    for rec in recs:
        s = delim.join(v for _, v in rec)
        out.append(s if s.endswith("\n") else s + "\n")
    return "".join(out)


def py_json_records(recs):
    res = []
    for rec in recs:
        d = {}
        for k, v in rec:
            d[k] = v
        res.append(d)
    return res


RUST_WS = set([9, 10, 11, 12, 13, 0x20, 0x85, 0xA0, 0x1680, 0x2028, 0x2029, 0x202F, 0x205F, 0x3000] + list(range(0x2000, 0x200B)))


def py_trim(s):
    i, j = 0, len(s)
    while i < j and ord(s[i]) in RUST_WS:
        i += 1
    while j > i and ord(s[j - 1]) in RUST_WS:
        j -= 1
    return s[i:j]


def gen_format_case(r):
    mode = r.choice(["json", "json", "standard", "standard", "template", "template", "trim"])
    recs = gen.records(r)
    req = {"op": "format", "mode": mode, "records": recs, "trim": r.random() < 0.25}
    if mode == "standard":
        req["delim"] = r.choice(gen.DELIMS)
    if mode == "template":
        names = sorted({k for rec in recs for k, _ in rec}) or ["1"]
        req["template"] = gen.template(r, names)
    return req


def programs(r):
    """argv programs of -c / -c name= / -m / -n"""
    cmds = []
    for _ in range(r.randint(1, 7)):
        k = r.random()
        if k < 0.45:
            cmds.append(["cut", None, gen.passive_cmd(r)])
        elif k < 0.6:
            cmds.append(["cut", r.choice(["user", "id", "a", "user", "n 1"]), gen.passive_cmd(r)])
        elif k < 0.85:
            cmds.append(["move", None, gen.passive_cmd(r) if r.random() < 0.7 else gen.edit_cmd(r)])
        else:
            cmds.append(["next", None, None])
    return cmds


def to_argv(cmds):
    av = []
    for t, name, k in cmds:
        if t == "next":
            av.append("-n")
        elif t == "move":
            av += ["-m", k]
        elif name is None:
            av += ["-c", k]
        else:
            av += ["-c", "name=" + name, k]
    return av


def to_tree(cmds):
    out = []
    for t, name, k in cmds:
        if t == "next":
            out.append({"t": "next"})
        elif t == "move":
            out.append({"t": "move", "arg": {"lit": k}})
        elif name is None:
            out.append({"t": "cut", "arg": {"lit": k}})
        else:
            out.append({"t": "cut", "name": name, "arg": {"lit": k}})
    return out


def expected_records(cmds, step_results, final_buf):
    """The numbering spec (theorem C14.numbering / next_restarts) applied to the fields that
    read_field actually returned."""
    recs, cur, num = [], [], 0
    it = iter(step_results)
    for t, name, k in cmds:
        if t == "next":
            num = 0
            if cur:
                recs.append(cur)
                cur = []
            continue
        res = next(it)
        if t == "cut":
            num += 1
            if "ok" in res:
                cur.append([name if name is not None else str(num), res["ok"]])
    if cur:
        recs.append(cur)
    if not recs:
        recs = [[["0", final_buf]]]
    return recs


def run(tier, seed, replay=None):
    R = Run(PROP, tier, seed)
    proof = prove(PROP, thorough=(tier == "thorough"))
    build_hooked()
    R.check_witnesses()
    r = R.rng
    n_fmt = 3000 if tier == "quick" else 60000
    n_prog = 300 if tier == "quick" else 6000

    # ---- 1. formatter correspondence (model vs real formatters) + reference oracles
    reqs = [gen_format_case(r) for _ in range(n_fmt)]
    if replay:
        rp = json.load(open(replay))
        if rp.get("case") and rp["case"].get("op") == "format":
            reqs = [rp["case"]]
            n_prog = 0
    impl = batch(hook_server, reqs)
    model = batch(model_driver, reqs)
    for req, a, m in zip(reqs, impl, model):
        recs = req["records"]
        trimmed = [[[k, py_trim(v)] for k, v in rec] for rec in recs] if req["trim"] else recs
        nontrivial = any(rec for rec in recs)
        R.case(req, nontrivial)
        R.count("format." + req["mode"])
        a2 = {k: v for k, v in a.items() if k != "id"}
        m2 = {k: v for k, v in m.items() if k != "id"}
        if "err" in a2:
            mm = re.match(r"Did not find a field called '(.*)' for output template\nCaptured field names were:", a2["err"], re.S)
            if mm:
                a2 = {"err": mm.group(1)}   # error wording is not compared, only which placeholder was unknown
        if "panic" in a or "exit" in a or "timeout" in a:
            R.violation("formatter crashed: %s" % canon(a2), req)
            continue
        # reference oracle on the implementation's output
        if req["mode"] == "json":
            out = a.get("out", "")
            want = py_json_records(trimmed)
            if not any(rec for rec in trimmed):
                if out != "":
                    try:
                        if json.loads(out) != [d for d in want]:
                            R.violation("JSON for empty record list is neither empty nor the records", req)
                    except Exception:
                        R.violation("JSON output does not parse", req)
                else:
                    R.count("json.zero_records_empty_output")
            else:
                try:
                    got = json.loads(out)
                    if got != want:
                        R.violation("JSON output parses to different records: got %s want %s" % (canon(got), canon(want)), req)
                except Exception as ex:
                    R.violation("JSON output does not parse: %s" % ex, req)
        elif req["mode"] == "standard":
            if a.get("out") != py_standard(req.get("delim", " "), trimmed):
                R.violation("plain/delimiter output is not the records joined by the delimiter", req)
        elif req["mode"] == "trim":
            if a.get("records") != trimmed:
                R.violation("--trim-fields did not trim exactly leading/trailing whitespace", req)
        if a2 != m2:
            R.disagreement("format: model %s impl %s" % (canon(m2)[:300], canon(a2)[:300]), req)

    # ---- 1b. a template renders every record on its own: the output for a list is the concatenation of
    #          the outputs for its records (no state carried from one record to the next)
    treqs = [q for q in reqs if q["mode"] == "template" and len([rec for rec in q["records"] if rec]) >= 2][:400 if tier == "quick" else 6000]
    singles, owner = [], []
    for qi, q in enumerate(treqs):
        for rec in q["records"]:
            singles.append(dict(q, records=[rec]))
            owner.append(qi)
    whole = batch(hook_server, treqs)
    parts = batch(hook_server, singles)
    acc = {}
    for qi, p_ in zip(owner, parts):
        acc.setdefault(qi, []).append(p_)
    for qi, (q, w) in enumerate(zip(treqs, whole)):
        ps = acc.get(qi, [])
        R.count("template.per_record_checked")
        if any("out" not in p_ for p_ in ps):
            # some record fails on its own: the whole list must fail too
            if "out" in w:
                R.violation("a record that cannot be rendered on its own was rendered as part of the list", q)
            continue
        want = "".join(p_["out"] for p_ in ps)
        if w.get("out") != want:
            R.violation("template output for %d records is not the concatenation of the outputs of the single records: %r vs %r" % (
                len(ps), (w.get("out") or w.get("err") or "")[:120], want[:120]), q)

    # ---- 2. programs: numbering + every rendering of the same records, through the real binary
    for _ in range(n_prog):
        cmds = programs(r)
        text = gen.text(r, max_lines=3)
        steps = [["field" if t == "cut" else "move", k] for t, n, k in cmds if t != "next"]
        sess = hook_server_call({"op": "session", "text": text, "cursor": 0, "steps": steps})
        ex = hook_server_call({"op": "exec", "opts": {"cmds": to_tree(cmds)}, "text": text})
        case = {"argv": to_argv(cmds), "stdin": text}
        R.case(case, nontrivial=any(t == "cut" for t, _, _ in cmds))
        R.count("program")
        if "steps" not in sess or "results" not in ex:
            if "panic" in sess or "panic" in ex:
                R.count("program.panic_in_editor")   # C10's business; C14 cannot judge the records
            continue
        results = [s["res"] for s in sess["steps"][1:]]
        final_buf = sess["steps"][-1]["post"]["buf"] if len(sess["steps"]) > 1 else text
        want = expected_records(cmds, results, final_buf)
        res0 = ex["results"][0]
        if "ok" not in res0:
            continue
        got = res0["ok"]
        if got != want:
            R.violation("records differ from the numbering spec: got %s want %s" % (canon(got), canon(want)), case)
            continue
        # every rendering of these records through the CLI
        av = to_argv(cmds)
        delim = r.choice(gen.DELIMS[:6])
        runs = [
            ("json", ["--json"] + av),
            ("standard", av),
            ("delim", ["-d", delim] + av) if not delim.startswith("-") and delim else ("standard", av),
        ]
        for mode, argv in runs:
            o = run_cli(argv, stdin=text)
            R.count("cli." + mode)
            if o["timeout"] or o["rc"] != 0:
                R.count("cli.nonzero")
                continue
            try:
                out = o["out"].decode("utf-8")
            except UnicodeDecodeError:
                R.violation("stdout is not UTF-8", {"argv": argv, "stdin": text})
                continue
            if mode == "json":
                try:
                    if json.loads(out) != py_json_records(want):
                        R.violation("CLI --json does not hold the extracted records", {"argv": argv, "stdin": text})
                except Exception:
                    if out.strip() == "":
                        R.violation("--json printed nothing for records %s" % canon(want), {"argv": argv, "stdin": text}, classes=["json.zero_records"])
                    else:
                        R.violation("CLI --json output does not parse", {"argv": argv, "stdin": text})
            else:
                d = delim if mode == "delim" else " "
                if out != py_standard(d, want) + "\n":
                    R.violation("CLI plain output is not the documented rendering of the records", {"argv": argv, "stdin": text})
    close_servers()
    return R.finish(proof, rule="(a) random record lists (empty/sentinel/duplicate names/control chars/quotes/braces/multi-byte) x json|standard|template|trim through the real formatters and the Lean model, byte-compared, plus reference oracles (Python json parser; join spec); (b) random -c/-c name=/-m/-n programs on random texts: records from the real execute() vs the numbering spec applied to the fields the real read_field returned, then CLI stdout in json/plain/delimiter. non-trivial = at least one non-empty record / at least one -c",
                    assumptions=["regex/serde_json/unicode crates as black boxes", "template rendering has no independent oracle besides the Lean model (theorems template_*)"])
