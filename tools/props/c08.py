"""C08 — edits are local and conserve text."""
import json
import re
from vlib import *
import gen

PROP = "C08"

LETTERS = ["ß", "ﬁ", "İ", "ŉ", "Ж", "é", "ö", "é", "日", "👍", "ǆ"]
MOTIONS = ["h", "l", "w", "b", "e", "W", "B", "E", "ge", "0", "^", "$", "j", "k", "G", "gg", "fa", "Fo", "t ", "T.", ";", ",", "%", "{", "}",
           "2w", "3l", "2j", "2e", "3h", "2b", "(", ")", "2)", "2(", "2}", "2{"]
TEXTOBJS = gen.TEXTOBJS
REGS = ["", "", "", '"a', '"b', '"A', '"B', '"z', '"Z']
REPL = ["Z", "q", "ö", "日", "é", "👍", ".", "ß"]


def c08_line(r):
    parts = []
    for _ in range(r.randint(0, 5)):
        k = r.random()
        if k < 0.5:
            parts.append(gen.word(r))
        elif k < 0.75:
            parts.append(r.choice(LETTERS))
        elif k < 0.85:
            d = r.choice(["()", "[]", "{}", "\"\"", "''"])
            parts.append(d[0] + gen.word(r) + r.choice(LETTERS) + d[1])
        else:
            parts.append(r.choice(gen.PUNCT))
        if r.random() < 0.7:
            parts.append(" ")
    return "".join(parts)


def c08_text(r):
    n = r.randint(1, 4)
    t = "\n".join(c08_line(r) for _ in range(n))
    if r.random() < 0.6:
        t += "\n"
    return t


def delim_text(r):
    lines = []
    for _ in range(r.randint(1, 3)):
        parts = []
        for _ in range(r.randint(2, 14)):
            k = r.random()
            if k < 0.45:
                parts.append(r.choice(["(", ")", "[", "]", "{", "}", "(", ")", "<", ">"]))
            elif k < 0.55:
                parts.append("\\" + r.choice(["(", ")", "{", "}", "\\", "x"]))
            elif k < 0.8:
                parts.append(r.choice(["a", "b", "é", "日", "x1", "_"]))
            else:
                parts.append(" ")
        lines.append("".join(parts))
    t = "\n".join(lines)
    if r.random() < 0.7:
        t += "\n"
    return t


def quote_text(r):
    lines = []
    for _ in range(r.randint(1, 3)):
        parts = []
        for _ in range(r.randint(2, 12)):
            k = r.random()
            if k < 0.35:
                parts.append(r.choice(['"', '"', "'", "`", '""']))
            elif k < 0.5:
                parts.append("\\" * r.randint(1, 3) + r.choice(['"', "'", "x", ""]))
            elif k < 0.8:
                parts.append(r.choice(["a", "bc", "é", "日", "_"]))
            else:
                parts.append(r.choice([" ", "  ", "\t"]))
        lines.append("".join(parts))
    t = "\n".join(lines)
    if r.random() < 0.7:
        t += "\n"
    return t


def command(r):
    k = r.random()
    reg = r.choice(REGS)
    if k < 0.3:
        op = r.choice(["d", "c", "y", "y", "d"])
        tgt = r.choice(MOTIONS) if r.random() < 0.6 else r.choice(TEXTOBJS)
        if r.random() < 0.1:
            tgt = op[-1]         # dd yy cc
        s = reg + gen.count(r, 0.15) + op + tgt
        if op == "c":
            s += r.choice(["", "N", "né", "x y"]) + "<esc>"
        return s
    if k < 0.45:
        op = r.choice(["g~", "gu", "gU", "g?"])
        tgt = r.choice(MOTIONS) if r.random() < 0.6 else r.choice(TEXTOBJS)
        return gen.count(r, 0.15) + op + tgt
    if k < 0.55:
        return reg + gen.count(r, 0.3) + r.choice(["x", "X", "D", "C<esc>", "s<esc>", "Y"])
    if k < 0.63:
        return gen.count(r, 0.4) + "~"
    if k < 0.71:
        return gen.count(r, 0.4) + "r" + r.choice(REPL)
    if k < 0.82:
        return reg + gen.count(r, 0.1) + r.choice(["p", "P"])
    if k < 0.9:
        return r.choice(["i", "a", "I", "A"]) + r.choice(["X", "ab", "é", " q ", "日本", "é", "ß"]) + "<esc>"
    if k < 0.93:
        return ":" + r.choice(["d", "1d", "2d", "1,2d", "$d", "y", "2y", "1,2y", "2,3d"]) + "<CR>"
    if k < 0.97:
        return "v" + r.choice(MOTIONS) + reg + r.choice(["d", "y", "~", "U", "u", "g?", "r" + r.choice(REPL), "c!<esc>"])
    if r.random() < 0.5:
        return r.choice(["h", "l", "3l", "2h", "0", "^", "$", "2$", "gg", "G", "3|", "|", "A<esc>", "I<esc>", "x", "X", "d0", "d$", "dl", "dh", "d^", "vl", "v$", "vh",
                         "w", "b", "e", "W", "B", "E", "2w", "3b", "2e", "2W", "3E", "2B", "dw", "db", "de", "dW", "cwX<esc>", "c2wY<esc>", "cW!<esc>", "yw", "ye", "g~w", "gUe",
                         "ge", "gE", "2ge", "dge", "vge", "fa", "Fa", "ta", "To", "2fa", ";", ",", "dfa", "dTo", "diw", "daw", "diW", "yaW", "ciwX<esc>", "%", "{", "}",
                         "(", ")", "2)", "3(", "d)", "d(", "y)", "c)X<esc>", "dip", "dap", "yip", "2dap", "cipX<esc>", "d}", "d{", "2}", "y{",
                         "J", "J", "2J", "3J", "4J", "oX<esc>", "OX<esc>", "3oé<esc>", "2Oab<esc>", "2G", "3G", "d2G", "y3G", "2j", "3k", "v$d", "v$y"])
    return r.choice(MOTIONS)


def parse_char(s):
    """Rust char Debug without the quotes"""
    if s.startswith("\\u{"):
        return chr(int(s[3:-1], 16))
    return {"\\n": "\n", "\\t": "\t", "\\r": "\r", "\\'": "'", "\\\\": "\\", "\\0": "\0", '\\"': '"'}.get(s, s)


def parse_verb(s):
    if s is None:
        return None
    if s in ("Delete", "Change", "Yank", "ToggleCaseRange", "ToLower", "ToUpper", "Rot13"):
        return [s]
    m = re.fullmatch(r"Put\((After|Before)\)", s)
    if m:
        return ["Put" + m.group(1)]
    if s == "JoinLines":
        return ["JoinLines", 1]          # the count is filled in from the command by the caller
    m = re.fullmatch(r"InsertModeLineBreak\((After|Before)\)", s)
    if m:
        return ["OpenLine" + m.group(1)]
    m = re.fullmatch(r"(InsertChar|ReplaceChar)\('(.*)'\)", s, re.S)
    if m:
        return [m.group(1), parse_char(m.group(2))]
    m = re.fullmatch(r"ToggleCaseInplace\((\d+)\)", s)
    if m:
        return ["ToggleCaseInplace", int(m.group(1))]
    m = re.fullmatch(r"ReplaceCharInplace\('(.*)', (\d+)\)", s, re.S)
    if m:
        return ["ReplaceCharInplace", parse_char(m.group(1)), int(m.group(2))]
    return None


def parse_mk(s):
    m = re.fullmatch(r"(To|On|Onto|Line)\((\d+)\)", s)
    if m:
        return [m.group(1), int(m.group(2))]
    m = re.fullmatch(r"(Inclusive|Exclusive)\(\((\d+), (\d+)\)\)", s)
    if m:
        return [m.group(1), int(m.group(2)), int(m.group(3))]
    m = re.fullmatch(r"LineRange\((\d+), (\d+)\)", s)
    if m:
        return ["LineRange", int(m.group(1)), int(m.group(2))]
    m = re.fullmatch(r"LineOffset\((-?\d+)\)", s)
    if m:
        return ["LineOffset", int(m.group(1))]
    m = re.fullmatch(r"(InclusiveWithTargetCol|ExclusiveWithTargetCol)\(\((\d+), (\d+)\), (\d+)\)", s)
    if m:
        return [m.group(1), int(m.group(2)), int(m.group(3)), int(m.group(4))]
    m = re.fullmatch(r"BlockRange\(\[(.*)\]\)", s)
    if m:
        return ["BlockRange", [[int(a), int(b)] for a, b in re.findall(r"\((\d+), (\d+)\)", m.group(1))]]
    m = re.fullmatch(r"Lines\(\[(.*)\]\)", s)
    if m:
        return ["Lines", [int(x) for x in re.findall(r"\d+", m.group(1))]]
    if s == "Null":
        return ["Null"]
    return None


def regs_list(d):
    out = []
    for name in sorted(d):
        kind, val = d[name]
        if kind == "span" and val == "":
            continue
        out.append([name, kind, val if kind != "empty" else None])
    return out


def canon_regs(lst):
    return [[n, [k, (v if k != "empty" else None)]] for n, k, v in lst]


def is_ascii_letter(g):
    return len(g) == 1 and g.isascii() and g.isalpha()


def frame_oracle(verb, lb, done, pre_gs):
    """Direct reading of the property on the implementation's own before/after — no model involved.
    Returns a description of the failure or None."""
    pre, post = lb["buf"], done["buf"]
    name, append = lb["reg"]
    rn = name or ""
    pre_regs, post_regs = lb["regs"], done["regs"]
    valid_reg = name is None or ("a" <= name <= "z")
    kind = verb[0]
    others_same = all(pre_regs.get(k) == post_regs.get(k) for k in set(pre_regs) | set(post_regs) if k != rn)
    if kind in ("Delete", "Change", "Yank"):
        if not others_same:
            return "a register other than the addressed one changed"
        if lb.get("mk") == "Null":
            # the motion failed: nothing is removed or covered, so nothing is stored (fix 1ed8bc1; before, the
            # register was emptied, which this oracle let pass)
            if post != pre:
                return "a command whose motion failed changed the text"
            if pre_regs.get(rn) != post_regs.get(rn):
                return "a command whose motion failed changed its register"
            return None
        if not valid_reg:
            return None
        newc = post_regs.get(rn, ["span", ""])
        oldc = pre_regs.get(rn, ["span", ""])
        if newc[0] == "block" or oldc[0] == "block" or newc[0] == "empty":
            return None
        stored = newc[1]
        if append:
            if not stored.startswith(oldc[1] if oldc[0] != "empty" else ""):
                return "upper-case register did not keep its old text as a prefix"
            stored = stored[len(oldc[1]) if oldc[0] != "empty" else 0:]
        if kind == "Yank":
            if post != pre:
                return "yank changed the text"
            if stored not in pre:
                return "yank stored text that is not a span of the buffer"
            return None
        k = len(pre) - len(post)
        if k < 0:
            return "delete made the text longer"
        if k != len(stored):
            return "register holds %d chars but %d were removed" % (len(stored), k)
        for s in range(len(post) + 1):
            if pre[:s] == post[:s] and pre[s + k:] == post[s:] and pre[s:s + k] == stored:
                return None
        return "text after delete is not `before minus one span`, or the register is not that span"
    if not others_same or pre_regs.get(rn) != post_regs.get(rn):
        return "a verb that does not write registers changed one"
    if kind in ("PutAfter", "PutBefore"):
        if not valid_reg:
            return None if post == pre else "put from an invalid register changed the text"
        c = pre_regs.get(rn, ["span", ""])
        if c[0] != "span":
            return None
        for s in range(len(pre) + 1):
            if post == pre[:s] + c[1] + pre[s:]:
                return None
        return "text after put is not `before` with the register text inserted at one place"
    if kind == "JoinLines":
        # J only ever touches line breaks and blanks, and never makes the text longer
        strip = lambda t: "".join(ch for ch in t if ch not in " \t\n")
        if strip(pre) != strip(post):
            return "J changed something other than blanks and line breaks"
        if len(post) > len(pre):
            return "J made the text longer"
        return None
    if kind in ("OpenLineAfter", "OpenLineBefore"):
        # o / O add exactly one line terminator, nothing else
        for s in range(len(pre) + 1):
            if post == pre[:s] + "\n" + pre[s:]:
                return None
        return "o/O did not add exactly one line break"
    if kind == "InsertChar":
        for s in range(len(pre) + 1):
            if post == pre[:s] + verb[1] + pre[s:]:
                return None
        return "typed character was not inserted as is"
    if kind in ("ToggleCaseRange", "ToLower", "ToUpper", "ToggleCaseInplace", "Rot13"):
        if len(post) != len(pre) or len(post.encode()) != len(pre.encode()):
            return "operator changed the length of the text"
        for a, b in zip(pre, post):
            if a != b and not (a.isascii() and a.isalpha() and b.isascii() and b.isalpha()):
                return "operator changed %r into %r (only letters may change, into letters)" % (a, b)
        return None
    if kind in ("ReplaceCharInplace", "ReplaceChar"):
        # pre minus at most `count` graphemes from the cursor, plus count copies of c, nothing else touched
        n = verb[2] if kind == "ReplaceCharInplace" else 1
        cur = lb["cur"]["value"]
        head = "".join(pre_gs[:cur])
        if not post.startswith(head):
            return "r changed text before the cursor"
        if kind == "ReplaceCharInplace":
            # `[n]r<c>` replaces exactly n graphemes of the cursor's line, or does nothing: it never inserts and never
            # touches a terminator
            if post == pre:
                return None
            if cur + n <= len(pre_gs) and "\n" not in pre_gs[cur:cur + n] and post == head + verb[1] * n + "".join(pre_gs[cur + n:]):
                return None
            return "r did not replace exactly the %d grapheme(s) under the cursor (text grew, shrank or a terminator was touched)" % n
        for m in range(0, n + 1):          # m graphemes replaced, n-m pushed (newline / end)
            for ins in range(0, n + 1):
                cand_tail = "".join(pre_gs[cur + m:])
                if post == head + verb[1] * ins + cand_tail:
                    return None
        # replacing stops at line ends: allow interleaving with a kept newline
        rest = post[len(head):]
        tail_all = "".join(pre_gs[cur:])
        for m in range(0, n + 1):
            kept = "".join(pre_gs[cur + m:])
            if rest.replace(verb[1], "", n).endswith(kept) or rest.endswith(kept):
                return None
        return "text after r is not `before` with the graphemes at the cursor replaced"
    return None


def run(tier, seed, replay=None):
    R = Run(PROP, tier, seed)
    proof = prove(PROP, thorough=(tier == "thorough"))
    build_hooked()
    R.check_witnesses()
    r = R.rng
    n = 1500 if tier == "quick" else 40000
    cases = []
    for _ in range(n):
        text = c08_text(r) if r.random() < 0.7 else gen.text(r, max_lines=4, allow_empty=(r.random() < 0.1))
        steps = [command(r) for _ in range(r.randint(1, 8))]
        regs = {}
        if r.random() < 0.5:
            for nm in r.sample(["", "a", "b", "z"], r.randint(1, 3)):
                regs[nm] = r.choice([["span", "RR"], ["span", "é日"], ["span", "x\ny"], ["line", "LL\n"], ["span", " "], ["line", "no-nl"]])
        cases.append({"text": text, "steps": steps, "regs": regs, "cursor": 0})
    # delimiter family (`%`, `[(` `])` `[{` `]}`): nested and unbalanced brackets, escapes, several lines;
    # an RNG of its own, so that the main stream above is what it was before the family existed
    import random as _random
    dr = _random.Random((seed << 8) ^ 0xD311)
    for _ in range(300 if tier == "quick" else 6000):
        text = delim_text(dr)
        n = len(text)
        steps = []
        for _ in range(dr.randint(1, 4)):
            pos = (["j", "k", "0", "$", "w", "b"][dr.randrange(6)] if dr.random() < 0.3 else "%d|" % dr.randint(1, 24))
            mot = dr.choice(["%", "%", "%", "[(", "])", "[{", "]}", "i(", "a(", "i[", "a]", "i{", "a}", "i<", "a>", "ib", "aB"])
            op = dr.choice(["", "", "d", "y", "c", "g~", '"ad', "v"])
            if mot[0] in "ia" and op == "":
                op = "d"
            steps.append(pos)
            steps.append(op + mot + ("X<esc>" if op == "c" else "d" if op == "v" else ""))
        cases.append({"text": text, "steps": steps, "regs": {}, "cursor": 0})
    for _ in range(200 if tier == "quick" else 4000):
        text = quote_text(dr)
        steps = []
        for _ in range(dr.randint(1, 3)):
            steps.append((["j", "k", "0", "$", "w", "b"][dr.randrange(6)] if dr.random() < 0.3 else "%d|" % dr.randint(1, 20)))
            op = dr.choice(["d", "y", "c", "g~", "v"])
            steps.append(op + dr.choice(["i", "a"]) + dr.choice(['"', '"', "'", "`"]) + ("X<esc>" if op == "c" else "d" if op == "v" else ""))
        cases.append({"text": text, "steps": steps, "regs": {}, "cursor": 0})
    if replay:
        rp = json.load(open(replay))
        c = rp.get("case") or {}
        if "steps" in c:
            cases = [{"text": c["text"], "steps": c["steps"], "regs": c.get("regs", {}), "cursor": c.get("cursor", 0)}]
    allnames = [""] + [chr(c) for c in range(97, 123)]

    def full_regs(d):
        return {nm: d.get(nm, ["span", ""]) for nm in allnames}
    reqs = [{"op": "session", "text": c["text"], "cursor": c["cursor"], "trace": True, "regs": full_regs(c["regs"]),
             "steps": [["move", s] for s in c["steps"]]} for c in cases]
    resp = batch(hook_server, reqs)
    mreqs, mmeta = [], []
    for i, (c, x) in enumerate(zip(cases, resp)):
        if "steps" not in x:
            R.case(c, nontrivial=False, sample=False)
            R.count("session_crashed")       # crashes are C10's subject; the trace of a crashed session is lost
            continue
        trace = [t for st in x["steps"][1:] for t in st["trace"]]
        pairs = []
        cur = None
        for t in trace:
            if t["k"] == "lb":
                cur = t
            elif t["k"] == "lb_done" and cur is not None:
                pairs.append((cur, t))
                cur = None
        nmod = 0
        for k, (lb, done) in enumerate(pairs):
            verb = parse_verb(lb["verb"])
            if verb is not None and verb[0] == "JoinLines":
                jm = re.search(r"verb=Some\(VerbCmd\((\d+), JoinLines\)\)", lb["cmd"])
                verb = ["JoinLines", int(jm.group(1)) if jm else 1]
            if verb is None:
                if lb["verb"]:
                    R.count("verb_other:" + re.sub(r"\(.*", "", lb["verb"]))
                continue
            mk = parse_mk(lb["mk"])
            if mk is None:
                R.disagreement("unparsed MotionKind %s" % lb["mk"], dict(c, pair=k))
                continue
            R.count("verb:" + verb[0])
            R.count("mk:" + mk[0])
            if lb["cache"] is not None and lb["cache"] != lb["fresh"]:
                R.count("pre_state_cache_stale")      # C09's subject; the L1 model assumes a fresh cache
                continue
            gs = graphemes_of(lb["buf"], lb["fresh"])
            bad = frame_oracle(verb, lb, done, gs)
            if bad:
                R.violation("%s (verb %s, motion %s): %r -> %r, register %s: %s -> %s" % (
                    bad, lb["verb"], lb["mk"], lb["buf"][:80], done["buf"][:80], lb["reg"],
                    canon(lb["regs"].get(lb["reg"][0] or ""))[:80], canon(done["regs"].get(lb["reg"][0] or ""))[:80]), dict(c, pair=k))
                continue
            mreqs.append({"op": "verb", "gs": gs, "cur": lb["cur"]["value"], "excl": lb["cur"]["exclusive"],
                          "regs": regs_list(lb["regs"]), "verb": verb, "mk": mk, "reg": lb["reg"]})
            mmeta.append((i, k, lb, done, verb, mk))
            nmod += 1
        R.case(c, nontrivial=(nmod > 0 and any(a["buf"] != b["buf"] or a["regs"] != b["regs"] for a, b in pairs)))
    # ---- simple motions: the MotionKind the real eval_motion produced vs the Lean motion model
    SIMPLE = ("ForwardChar", "BackwardChar", "BeginningOfLine", "EndOfLine", "BeginningOfFirstWord", "BeginningOfBuffer", "EndOfBuffer", "ToColumn", "WholeBuffer")

    def is_ws(g):
        fl = 0
        for ch in g:
            if ch.isalnum() or ch == "_":
                fl |= 2
            elif ch.isspace():
                fl |= 1
        return fl == 1
    qreqs, qmeta = [], []
    for i, (c, x) in enumerate(zip(cases, resp)):
        if "steps" not in x:
            continue
        for st in x["steps"][1:]:
            for t in st["trace"]:
                if t["k"] != "lb" or t["flags"] != 0:
                    continue
                mm = re.search(r"motion=Some\(MotionCmd\((\d+), (\w+)\)\) flags=", t["cmd"])
                if not mm or mm.group(2) not in SIMPLE:
                    continue
                if t["cache"] is not None and t["cache"] != t["fresh"]:
                    continue
                if "\r" in t["buf"]:
                    continue
                gs = graphemes_of(t["buf"], t["fresh"])
                qreqs.append({"op": "motion", "gs": gs, "cur": t["cur"]["value"], "excl": t["cur"]["exclusive"],
                              "selecting": bool(t["sel_mode"]) and bool(t["sel_range"]), "ws": [is_ws(g) for g in gs],
                              "motion": mm.group(2), "count": int(mm.group(1)), "has_verb": t["verb"] is not None})
                qmeta.append((c, t, mm.group(2)))
    for (c, t, name), m in zip(qmeta, batch(model_driver, qreqs)):
        R.count("motion_model:" + name)
        if "mk" not in m:
            R.disagreement("driver: %s" % canon(m)[:100], c)
            continue
        if m["mk"] != parse_mk(t["mk"]):
            R.disagreement("motion model: %s x%s at %d of %r (excl %s): model %s impl %s" % (
                name, re.search(r"MotionCmd\((\d+)", t["cmd"]).group(1), t["cur"]["value"], t["buf"][:60], t["cur"]["exclusive"], canon(m["mk"]), t["mk"]), c)

    # ---- word motions: w W e E b B through the scanners vs the Lean model (classes computed per grapheme)
    def cls(g):
        fl = 0
        for ch in g:
            if ch.isalnum() or ch == "_":
                fl |= 2
            elif ch.isspace():
                fl |= 1
        return fl
    wreqs, wmeta = [], []
    for i, (c, x) in enumerate(zip(cases, resp)):
        if "steps" not in x:
            continue
        for st in x["steps"][1:]:
            for t in st["trace"]:
                if t["k"] != "lb" or t["flags"] != 0:
                    continue
                mm = re.search(r"motion=Some\(MotionCmd\((\d+), WordMotion\((Start|End), (Normal|Big), (Forward|Backward)\)\)\) flags=", t["cmd"])
                if not mm:
                    continue
                kind = {("Start", "Forward"): "startFwd", ("End", "Forward"): "endFwd", ("Start", "Backward"): "startBwd", ("End", "Backward"): "endBwd"}.get((mm.group(2), mm.group(4)))
                if not kind or (t["cache"] is not None and t["cache"] != t["fresh"]):
                    continue
                gs = graphemes_of(t["buf"], t["fresh"])
                wreqs.append({"op": "word", "cls": [cls(g) for g in gs], "cur": t["cur"]["value"], "kind": kind, "big": mm.group(3) == "Big",
                              "count": int(mm.group(1)), "change": t["verb"] == "Change", "selecting": bool(t["sel_mode"]) and bool(t["sel_range"])})
                wmeta.append((c, t, kind))
    for (c, t, kind), m in zip(wmeta, batch(model_driver, wreqs)):
        R.count("word_model:" + kind)
        if "mk" not in m:
            R.disagreement("driver: %s" % canon(m)[:100], c)
            continue
        if m["mk"] != parse_mk(t["mk"]):
            R.disagreement("word motion model: %s at %d of %r: model %s impl %s" % (kind, t["cur"]["value"], t["buf"][:60], canon(m["mk"]), t["mk"]), c)

    # ---- f F t T, iw aw iW aW (MotionKind), and where a motion-only command leaves the cursor
    xreqs, xmeta = [], []
    for i, (c, x) in enumerate(zip(cases, resp)):
        if "steps" not in x:
            continue
        tr = [t for st in x["steps"][1:] for t in st["trace"]]
        curlb = None
        for t in tr:
            if t["k"] == "lb":
                curlb = t
                if t["flags"] != 0 or (t["cache"] is not None and t["cache"] != t["fresh"]) or "\r" in t["buf"]:
                    continue
                gs = graphemes_of(t["buf"], t["fresh"])
                mm = re.search(r"motion=Some\(MotionCmd\((\d+), CharSearch\((Forward|Backward), (On|Before), '(.*)'\)\)\) flags=", t["cmd"], re.S)
                if mm:
                    xreqs.append({"op": "charsearch", "gs": gs, "cur": t["cur"]["value"], "excl": t["cur"]["exclusive"], "fwd": mm.group(2) == "Forward",
                                  "before": mm.group(3) == "Before", "ch": parse_char(mm.group(4)), "count": int(mm.group(1)), "has_verb": t["verb"] is not None})
                    xmeta.append((c, t, "charsearch", None))
                mm = re.search(r"motion=Some\(MotionCmd\((\d+), TextObj\(Paragraph\((Forward|Backward)\)\)\)\) flags=", t["cmd"])
                if mm:
                    xreqs.append({"op": "paragraph", "gs": gs, "cur": t["cur"]["value"], "excl": t["cur"]["exclusive"], "fwd": mm.group(2) == "Forward",
                                  "count": int(mm.group(1)), "has_verb": t["verb"] is not None})
                    xmeta.append((c, t, "paragraph", None))
                mm = re.search(r"motion=Some\(MotionCmd\((\d+), TextObj\(Sentence\((Forward|Backward)\)\)\)\) flags=", t["cmd"])
                if mm:
                    skind = lambda g: 2 if g == "\n" else 1 if g in (" ", "\t") else 3 if g in (".", "!", "?") else 4 if g in (")", "]", '"', "'") else 0
                    xreqs.append({"op": "sentence", "k": [skind(g) for g in gs], "cur": t["cur"]["value"], "count": int(mm.group(1)),
                                  "fwd": mm.group(2) == "Forward", "has_verb": t["verb"] is not None})
                    xmeta.append((c, t, "sentence", None))
                mm = re.search(r"motion=Some\(MotionCmd\((\d+), TextObj\(WholeParagraph\((Inside|Around)\)\)\)\) flags=", t["cmd"])
                if mm and t["verb"] is not None and not (t["sel_mode"] and t["sel_range"]):
                    plines, pl = [], []
                    for g in gs:
                        pl.append(g)
                        if g == "\n":
                            plines.append(pl)
                            pl = []
                    if pl or not plines:
                        plines.append(pl)
                    xreqs.append({"op": "para_obj", "blank": [all(is_ws(g) for g in ln) for ln in plines],
                                  "cur_line": sum(1 for g in gs[:t["cur"]["value"]] if g == "\n"), "count": int(mm.group(1)), "around": mm.group(2) == "Around"})
                    xmeta.append((c, t, "para_obj", None))
                mm = re.search(r"motion=Some\(MotionCmd\((\d+), ToDelimMatch\)\) flags=", t["cmd"])
                if mm:
                    xreqs.append({"op": "delim_match", "gs": gs, "cur": t["cur"]["value"], "excl": t["cur"]["exclusive"]})
                    xmeta.append((c, t, "delim_match", None))
                mm = re.search(r"motion=Some\(MotionCmd\((\d+), To(Paren|Brace|Bracket)\((Forward|Backward)\)\)\) flags=", t["cmd"])
                if mm:
                    oc = {"Paren": "()", "Brace": "{}", "Bracket": "[]"}[mm.group(2)]
                    xreqs.append({"op": "unmatched", "gs": gs, "cur": t["cur"]["value"], "excl": t["cur"]["exclusive"],
                                  "opener": oc[0], "closer": oc[1], "fwd": mm.group(3) == "Forward"})
                    xmeta.append((c, t, "unmatched", None))
                mm = re.search(r"motion=Some\(MotionCmd\((\d+), TextObj\((Paren|Brace|Bracket|Angle)\((Inside|Around)\)\)\)\) flags=", t["cmd"])
                if mm:
                    oc = {"Paren": "()", "Brace": "{}", "Bracket": "[]", "Angle": "<>"}[mm.group(2)]
                    xreqs.append({"op": "textobj_delim", "gs": gs, "cur": t["cur"]["value"], "excl": t["cur"]["exclusive"], "ws": [is_ws(g) for g in gs],
                                  "opener": oc[0], "closer": oc[1], "around": mm.group(3) == "Around"})
                    xmeta.append((c, t, "textobj_delim", None))
                mm = re.search(r"motion=Some\(MotionCmd\((\d+), TextObj\((DoubleQuote|SingleQuote|BacktickQuote)\((Inside|Around)\)\)\)\) flags=", t["cmd"])
                if mm:
                    xreqs.append({"op": "textobj_quote", "gs": gs, "cur": t["cur"]["value"], "excl": t["cur"]["exclusive"], "ws": [is_ws(g) for g in gs],
                                  "q": {"DoubleQuote": '"', "SingleQuote": "'", "BacktickQuote": "`"}[mm.group(2)], "around": mm.group(3) == "Around"})
                    xmeta.append((c, t, "textobj_quote", None))
                mm = re.search(r"motion=Some\(MotionCmd\((\d+), TextObj\(Word\((Normal|Big), (Inside|Around)\)\)\)\) flags=", t["cmd"])
                if mm:
                    xreqs.append({"op": "textobj_word", "cls": [4 if g == "\n" else cls(g) for g in gs], "cur": t["cur"]["value"], "big": mm.group(2) == "Big", "around": mm.group(3) == "Around"})
                    xmeta.append((c, t, "textobj_word", None))
            elif t["k"] == "lb_done" and curlb is not None:
                lb, done = curlb, t
                curlb = None
                if lb["verb"] is not None or lb["flags"] != 0 or lb["sel_mode"] or lb["sel_range"] or "\r" in lb["buf"]:
                    continue
                if lb["cache"] is not None and lb["cache"] != lb["fresh"]:
                    continue
                mk = parse_mk(lb["mk"])
                if mk is None or mk[0] in ("InclusiveWithTargetCol", "ExclusiveWithTargetCol"):
                    continue
                gs = graphemes_of(lb["buf"], lb["fresh"])
                sc = None
                if mk[0] == "LineOffset":
                    if not re.search(r"(BeginningOfBuffer|EndOfBuffer)\)\) flags", lb["cmd"]):
                        continue        # other line offsets use a remembered column the trace does not carry
                    v = lb["cur"]["value"]
                    ls = min(v, len(gs))
                    while ls > 0 and gs[ls - 1] != "\n":
                        ls -= 1
                    sc = v - ls
                xreqs.append({"op": "cursor_after", "gs": gs, "cur": lb["cur"]["value"], "excl": lb["cur"]["exclusive"], "mk": mk, "saved_col": sc})
                xmeta.append((c, lb, "cursor_after", done["cur"]["value"]))
    for (c, t, what, want), m in zip(xmeta, batch(model_driver, xreqs)):
        R.count("l2_model:" + what)
        if what == "cursor_after":
            if m.get("cur") != want:
                R.disagreement("cursor after a motion: model %s impl %s (%s from %s in %r)" % (m.get("cur"), want, t["mk"], t["cur"], t["buf"][:60]), c)
        elif m.get("mk") != parse_mk(t["mk"]):
            R.disagreement("%s model: at %d of %r: model %s impl %s" % (what, t["cur"]["value"], t["buf"][:60], canon(m.get("mk")), t["mk"]), c)

    mres = batch(model_driver, mreqs)
    for (i, k, lb, done, verb, mk), m in zip(mmeta, mres):
        c = cases[i]
        if "panic" in m:
            if m["panic"].startswith("putSpan"):
                R.count("put_non_span_register(not modelled)")
                continue
            # the session did not crash, so the implementation did not panic where the model says it does
            R.disagreement("model says panic (%s), implementation went on: verb %s mk %s" % (m["panic"], lb["verb"], lb["mk"]), dict(c, pair=k))
            continue
        if "err" in m:
            R.disagreement("driver: %s" % m["err"], dict(c, pair=k))
            continue
        R.count("model_compared")
        if m["range"] is not None:
            s, e = m["range"]
            ng = len(lb["fresh"])
            pre_b = sum(1 for g in graphemes_of(lb["buf"], lb["fresh"])[:s] if len(g.encode()) > 1)
            if pre_b:
                R.count("span_after_multibyte")
        want_regs = canon_regs([[a, b[0], b[1]] for a, b in m["regs"]])
        got_regs = canon_regs(regs_list(done["regs"]))
        if m["text"] != done["buf"]:
            R.disagreement("verb model text: verb %s mk %s on %r cur %s: model %r impl %r" % (
                lb["verb"], lb["mk"], lb["buf"][:80], lb["cur"]["value"], m["text"][:80], done["buf"][:80]), dict(c, pair=k))
        elif want_regs != got_regs:
            R.disagreement("verb model registers: verb %s mk %s reg %s: model %s impl %s" % (
                lb["verb"], lb["mk"], lb["reg"], canon(want_regs)[:200], canon(got_regs)[:200]), dict(c, pair=k))
    close_servers()
    return R.finish(proof, rule="sessions of 1-8 commands from {[\"reg] d c y + motion/text object/doubled, g~ gu gU g? + motion/text object, x X D C s Y, [n]~, [n]r<c> with 1-4 byte c, [\"reg]p P from span and line registers, insert sessions (multi-byte and combining typed text), visual d y ~ U u g? r c} on buffers mixing ASCII with ß ﬁ İ ŉ Ж é 日 👍 and combining sequences, with registers preset in half the sessions; the hook reports at every LineBuf::exec_cmd the evaluated MotionKind, verb, register name, text, fresh and cached grapheme offsets, cursor/clamp and all registers before exec_verb and text+registers after; each (before, after) pair is checked (i) directly against the property (removed span = stored text, text outside byte-identical, lower-case overwrite / upper-case prefix-append, put inserts exactly the register, only ASCII letters change under case/rot13 and length is kept) and (ii) against the Lean verb model run on the same pre-state. non-trivial = at least one modelled verb changed text or registers",
                    assumptions=["the MotionKind produced by the motion engine is an input (frame theorems hold for every MotionKind)", "pre-states whose cached offsets are stale are skipped here (counted); C09 owns cache freshness",
                                 "cursor placement after the verb is not part of C08", "block registers / visual-block deletes: text side compared with the model, register side of a block put not modelled"])
