"""C16 — ex line commands match line-oriented reference semantics."""
import json, re
from vlib import *
import gen

PROP = "C16"
PATS = ["o", "a", "ba", "[0-9]+", "b.r", "é", "foo", "x$", "^a", "$", "^", "zzz", "[a-c]", "o+", "\\d", " ", "日", "bar|baz"]
REPS = ["X", "", "<>", "é", "a b", "00", "日本"]


def pieces_of(text):
    ps, cur = [], ""
    for ch in text:
        if ch == "\n":
            ps.append([cur, True])
            cur = ""
        else:
            cur += ch
    if cur:
        ps.append([cur, False])
    if text == "":
        ps.append(["", False])       # the empty buffer is one empty line
    return ps


def render(ps):
    return "".join(t + ("\n" if nl else "") for t, nl in ps)


def addr_str(a):
    if a is None:
        return ""
    return {"num": lambda: str(a[1]), "cur": lambda: ".", "last": lambda: "$", "off": lambda: ("+%d" % a[1] if a[1] >= 0 else str(a[1]))}[a[0]]()


def eval_addr(n, cur, a):
    if a[0] == "num":
        return max(a[1] - 1, 0)
    if a[0] == "cur":
        return cur
    if a[0] == "last":
        return n - 1
    return max(cur + a[1], 0)


def resolve(n, cur, a, b, default_all):
    if n == 0:
        return None
    if a is None:
        return (0, n - 1) if default_all else ((cur, cur) if cur < n else None)
    if b is None:
        i = eval_addr(n, cur, a)
        return (i, i) if i < n else None
    s, e = sorted((eval_addr(n, cur, a), eval_addr(n, cur, b)))
    return (s, min(e, n - 1)) if s < n else None


def subst_line(rx, rep, g, line):
    ms = [(m.start(), m.end()) for m in rx.finditer(line)]
    if not g:
        ms = ms[:1]
    for s, e in reversed(ms):
        line = line[:s] + rep + line[e:]
    return line


def ex_ref(ps, cur, cmd):
    """the line-oriented reference (sed-like); returns new pieces"""
    n = len(ps)
    t = cmd["t"]
    rng = resolve(n, cur, cmd.get("a"), cmd.get("b"), t in ("gd", "gs", "gn"))
    if rng is None:
        return ps
    s, e = rng
    if t == "s":
        rx = re.compile(cmd["pat"])
        return [[subst_line(rx, cmd["rep"], cmd["g"], x) if s <= i <= e else x, nl] for i, (x, nl) in enumerate(ps)]
    if t == "d":
        return ps[:s] + ps[e + 1:]
    gx = re.compile(cmd["gpat"]) if "gpat" in cmd else None
    sel = lambda i, x: s <= i <= e and (bool(gx.search(x)) == cmd["pol"])
    if t == "gd":
        return [p for i, p in enumerate(ps) if not sel(i, p[0])]
    if t == "gs":
        rx = re.compile(cmd["pat"])
        return [[subst_line(rx, cmd["rep"], cmd["g"], x) if sel(i, x) else x, nl] for i, (x, nl) in enumerate(ps)]
    if t == "gn":       # :g/pat/normal! 0i>   (insert at the first column of every selected line)
        return [[(">" + x) if sel(i, x) else x, nl] for i, (x, nl) in enumerate(ps)]
    return ps


def ex_ref_yank_put(ps, cur, cmd):
    """:[range]y then :[line]pu"""
    n = len(ps)
    if ps == [["", False]]:
        return None          # yank/put of the empty buffer's only (empty) line: not specified by the reference
    rng = resolve(n, cur, cmd.get("a"), cmd.get("b"), False)
    if rng is None:
        return None          # what `pu` does with an untouched register is not specified here
    s, e = rng
    content = render(ps[s:e + 1])
    dst = resolve(n, cur if rng is None else s, cmd.get("dst"), None, False)   # after :y the cursor is on the first yanked line
    if dst is None:
        return ps
    d = dst[0]
    before, after = ps[:d + 1], ps[d + 1:]
    new = pieces_of(content)
    if before and not before[-1][1]:
        before = before[:-1] + [[before[-1][0], True]]
    if after and new and not new[-1][1]:
        new = new[:-1] + [[new[-1][0], True]]
    return before + new + after


def cmd_keys(cmd):
    t = cmd["t"]
    rng = addr_str(cmd.get("a")) + ("," + addr_str(cmd["b"]) if cmd.get("b") is not None else "")
    if cmd.get("pct"):
        rng = "%"
    if t == "s":
        return ":%ss/%s/%s/%s<CR>" % (rng, cmd["pat"], cmd["rep"], "g" if cmd["g"] else "")
    if t == "d":
        return ":%sd<CR>" % rng
    bang = "" if cmd.get("pol", True) else "!"
    if t == "gd":
        return ":%sg%s/%s/d<CR>" % (rng, bang, cmd["gpat"])
    if t == "gs":
        return ":%sg%s/%s/s/%s/%s/%s<CR>" % (rng, bang, cmd["gpat"], cmd["pat"], cmd["rep"], "g" if cmd["g"] else "")
    if t == "gn":
        return ":%sg%s/%s/normal! 0i><CR>" % (rng, bang, cmd["gpat"])
    if t == "yp":
        return [":%sy<CR>" % rng, ":%spu<CR>" % addr_str(cmd["dst"])]
    return ""


def gen_addr(r, n):
    k = r.random()
    if k < 0.45:
        return ["num", r.randint(0, n + 2)]
    if k < 0.6:
        return ["cur"]
    if k < 0.75:
        return ["last"]
    return ["off", r.randint(-2, 3)]


def gen_cmd(r, n):
    t = r.choice(["s", "s", "s", "d", "d", "gd", "gs", "gn", "yp"])
    cmd = {"t": t}
    k = r.random()
    if k < 0.2:
        pass                                   # no address
    elif k < 0.3 and t not in ("yp",):
        cmd["a"], cmd["b"], cmd["pct"] = ["num", 1], ["last"], True
    elif k < 0.6:
        cmd["a"] = gen_addr(r, n)
    else:
        cmd["a"], cmd["b"] = gen_addr(r, n), gen_addr(r, n)
    if t in ("s", "gs"):
        cmd["pat"], cmd["rep"], cmd["g"] = r.choice(PATS), r.choice(REPS), r.random() < 0.5
    if t in ("gd", "gs", "gn"):
        cmd["gpat"], cmd["pol"] = r.choice([p for p in PATS if p not in ("$", "^")]), r.random() < 0.7
    if t == "yp":
        cmd["dst"] = gen_addr(r, n)
        if "a" not in cmd:
            cmd["a"] = ["cur"]
    return cmd


def run(tier, seed, replay=None):
    R = Run(PROP, tier, seed)
    proof = prove(PROP, thorough=(tier == "thorough"))
    build_hooked()
    R.check_witnesses()
    r = R.rng
    n = 1500 if tier == "quick" else 60000
    cases = []
    for _ in range(n):
        nl = r.randint(0, 12)
        import unicodedata
        text = unicodedata.normalize("NFC", "".join(gen.line(r, True, 4) + "\n" for _ in range(nl)))   # no match boundary inside a grapheme cluster
        if nl and r.random() < 0.35:
            text = text[:-1]                  # last line without terminator
        chain = [gen_cmd(r, max(nl, 1)) for _ in range(r.choice([1, 1, 2, 3, 4]))]
        cases.append({"text": text, "chain": chain, "start_line": r.randint(0, max(nl - 1, 0))})
    if replay:
        rp = json.load(open(replay))
        c = rp.get("case") or {}
        if "chain" in c:
            cases = [{k: c[k] for k in ("text", "chain", "start_line")}]
    reqs = []
    for c in cases:
        steps = [["move", "%dj" % c["start_line"]]] if c["start_line"] else []
        for cmd in c["chain"]:
            k = cmd_keys(cmd)
            for kk in (k if isinstance(k, list) else [k]):
                steps.append(["move", kk])
        reqs.append({"op": "session", "text": c["text"], "cursor": 0, "steps": steps})
    resp = batch(hook_server, reqs)
    md = model_driver()
    for c, x in zip(cases, resp):
        nlines = len(pieces_of(c["text"]))
        if "steps" not in x:
            R.case(c, nontrivial=False, sample=False)
            R.count("crash_or_exit")      # C10 judges crashes; kept out of the reference comparison
            continue
        R.case(c, nontrivial=(nlines >= 2))
        R.count("chain_len_%d" % len(c["chain"]))
        si = 2 if c["start_line"] else 1
        state = x["steps"][si - 1].get("post") or x["steps"][0]["init"]
        ok = True
        for cmd in c["chain"]:
            R.count("cmd." + cmd["t"])
            before_text = state["buf"]
            ps = pieces_of(before_text)
            cur = state["builtins"]["line"] - 1 if isinstance(state["builtins"], dict) else 0
            nsteps = 2 if cmd["t"] == "yp" else 1
            after = x["steps"][si + nsteps - 1]["post"]
            si += nsteps
            try:
                want_ps = ex_ref_yank_put(ps, cur, cmd) if cmd["t"] == "yp" else ex_ref(ps, cur, cmd)
            except re.error:
                want_ps = None
            if want_ps is None:
                state = after
                continue
            want = render(want_ps)
            if after["buf"] != want:
                R.violation("%s on line %d of %r gives %r, the line-oriented reference gives %r" % (cmd_keys(cmd), cur + 1, before_text[:120], after["buf"][:160], want[:160]), c)
                ok = False
                break
            # the Lean reference on the same command (regex verdicts from Python's re on the lines)
            if cmd["t"] in ("s", "d", "gd", "gs"):
                lines = [p[0] for p in ps]
                mt, it = [], []
                if "pat" in cmd:
                    rx = re.compile(cmd["pat"])
                    mt = [[l, [[m.start(), m.end()] for m in rx.finditer(l)]] for l in set(lines)]
                if "gpat" in cmd:
                    gx = re.compile(cmd["gpat"])
                    it = [[l, bool(gx.search(l))] for l in set(lines)]
                m = md.call({"op": "exref", "pieces": ps, "cur": cur, "cmd": {k: v for k, v in cmd.items() if k in ("t", "a", "b", "rep", "g", "pol")},
                             "matches": mt, "ismatch": it})
                if m.get("text") != after["buf"]:
                    R.disagreement("exref: model %r impl %r" % ((m.get("text") or "")[:200], after["buf"][:200]), dict(c, cmd=cmd))
                    ok = False
                    break
            state = after
    md.close()
    close_servers()
    return R.finish(proof, rule="texts of 0-12 lines (multi-byte, last line with/without terminator) x chains of 1-4 ex commands from {:[range]s/pat/rep/[g], :[range]d, :[range]y + :[line]pu, :[range]g/pat/d|s|normal! 0i>, :g!} with ranges from numbers (incl. 0 and past the end), ., $, %, +-k, reversed ranges, default ranges; literal and simple-regex patterns (anchors ^ $ included), replacements without back-references; each command its own -m step through the real editor; the buffer after every command is compared with a line-oriented reference in Python (current line taken from the editor) and, for s/d/g, with the Lean reference fed with Python re's match positions. non-trivial = at least two lines",
                    assumptions=["Rust regex = Python re on the generated patterns; character offsets within a line", "the current line after a command is read from the editor (cursor placement is C02's business)", "replacement strings are literal (no & or back-references), patterns must be closed by the delimiter"])
