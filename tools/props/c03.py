"""C03 — --linewise equals running every line alone, in input order."""
import json
from vlib import *
import gen

PROP = "C03"


def py_get_lines(s):
    out, cur = [], ""
    for ch in s:
        cur += ch
        if ch == "\n":
            out.append(cur)
            cur = ""
    if cur:
        out.append(cur)
    return out


def ensure_nl(s):
    return s if s.endswith("\n") else s + "\n"


def is_sentinel(recs):
    return len(recs) == 1 and len(recs[0]) == 1 and recs[0][0][0] == "0"


def strip_frame(b):
    return b[:-1] if b.endswith(b"\n") else None


def one_case(args):
    """Run --linewise and every line alone on the real binary; evaluate the relation the theorems state."""
    text, argv, mode, via = args
    res = {"text": text, "argv": argv, "mode": mode, "via": via, "status": "ok"}
    lines = py_get_lines(text)
    modeflags = {"plain": [], "delim": ["-d", "|"], "json": ["--json"], "template": ["-t", "<{{1}}>"]}[mode]
    full = modeflags + argv
    extra = ["--serial"] if via.endswith("serial") else []
    with Scratch() as sc:
        if via.startswith("stdin"):
            lw = run_cli(["--linewise"] + extra + full, stdin=text, cwd=sc.d)
        else:
            f = sc.write("in.txt", text)
            if via.startswith("inplace"):
                lw = run_cli(["--linewise", "-i"] + extra + full + ["in.txt"], cwd=sc.d)
                if lw["rc"] == 0:
                    lw = dict(lw, out=sc.read("in.txt"))
            else:
                lw = run_cli(["--linewise"] + extra + full + ["in.txt"], cwd=sc.d)
        singles = [run_cli(full, stdin=l, cwd=sc.d) for l in lines]
    if lw["timeout"] or any(s["timeout"] for s in singles):
        res["status"] = "timeout"
        return res
    if lw["rc"] != 0 or any(s["rc"] != 0 for s in singles):
        # the property is about successful runs; a crash (rc 101) is C10's business
        res["status"] = "nonzero"
        res["rcs"] = [lw["rc"]] + [s["rc"] for s in singles]
        return res
    res["lw"] = lw["out"]
    res["singles"] = [s["out"] for s in singles]
    return res


def relation(res, recs_per_line):
    """Expected --linewise bytes from the per-line outputs (theorems linewise_stdout_edits /
    linewise_stdout_fields / linewise_stdout_one / linewise_file_any_order / fmtTemplate_append)."""
    mode, via = res["mode"], res["via"]
    singles = res["singles"]
    stripped = []
    for o in singles:
        s = strip_frame(o)
        if s is None:
            return None, "a single-line run did not end with the framing newline"
        stripped.append(s)
    n = len(singles)
    if mode == "json":
        try:
            per = [json.loads(s.decode("utf-8")) if s.strip() else [] for s in stripped]
            flat = [x for p in per for x in p]
            return ("json", flat), None
        except Exception as ex:
            return None, "single-line JSON does not parse: %s" % ex
    if via in ("file", "inplace", "inplace-serial"):    # file drivers render line by line and join with ""
        return ("bytes", b"".join(stripped)), None
    if via == "file-serial":                            # … the serial one frames the file with one writeln!
        return ("bytes", b"".join(stripped) + b"\n"), None
    # stdin (serial and parallel): all records formatted at once, then one writeln
    if n == 1:
        body = stripped[0]
    else:
        pieces = []
        for s, recs in zip(stripped, recs_per_line):
            if mode in ("plain", "delim") and recs is not None and is_sentinel(recs):
                pieces.append(ensure_nl(s.decode("utf-8")).encode("utf-8"))
            else:
                pieces.append(s)
        body = b"".join(pieces)
    return ("bytes", body + b"\n"), None


def run(tier, seed, replay=None):
    R = Run(PROP, tier, seed)
    proof = prove(PROP, thorough=(tier == "thorough"))
    build_hooked()
    R.check_witnesses()
    r = R.rng
    n_lines = 1500 if tier == "quick" else 40000
    n_rel = 160 if tier == "quick" else 4000

    # 1. get_lines: model vs code, and the three laws on the code's own output
    texts = [gen.text(r, max_lines=8, crlf=(r.random() < 0.15)) for _ in range(n_lines)] + ["", "\n", "a", "a\n", "\n\n", "a\r\n", "é\n\nb"]
    reqs = [{"op": "lines", "text": t} for t in texts]
    impl = batch(hook_server, reqs)
    model = batch(model_driver, reqs)
    for t, a, m in zip(texts, impl, model):
        R.case({"op": "lines", "text": t}, nontrivial=("\n" in t))
        R.count("lines")
        ls = a.get("lines")
        if ls is None:
            R.violation("get_lines crashed: %s" % canon(a), {"op": "lines", "text": t})
            continue
        if "".join(ls) != t or any(l == "" for l in ls) or any("\n" in l[:-1] for l in ls) or any(not l.endswith("\n") for l in ls[:-1]):
            R.violation("get_lines drops, adds or merges text: %s" % canon(ls), {"op": "lines", "text": t})
        if ls != m.get("lines"):
            R.disagreement("lines: model %s impl %s" % (canon(m.get("lines")), canon(ls)), {"op": "lines", "text": t})

    # 2. the relation itself on the real binary
    cases = []
    for i in range(n_rel):
        text = gen.text(r, max_lines=r.choice([1, 2, 3, 5, 8]), crlf=(r.random() < 0.1), allow_empty=True)
        items = gen.flag_items(r, edits=True, names=False)
        mode = r.choice(["plain", "plain", "delim", "json", "template"])
        if mode == "template":
            items = [("c", None, gen.passive_cmd(r))] + [it for it in items if it[0] in ("m",)]
        argv = gen.items_argv(items)
        via = r.choice(["stdin", "stdin", "stdin-serial", "file", "inplace", "file-serial", "inplace-serial"])
        if mode == "json" and via != "stdin" and via != "stdin-serial":
            via = "stdin"
        cases.append((text, argv, mode, via))
    if replay:
        rp = json.load(open(replay))
        c = rp.get("case") or {}
        if "argv" in c:
            cases = [(c["text"], c["argv"], c["mode"], c["via"])]
    results = pmap(one_case, cases)
    for res in results:
        case = {k: res[k] for k in ("text", "argv", "mode", "via")}
        lines = py_get_lines(res["text"])
        R.case(case, nontrivial=(len(lines) >= 2))
        R.count("rel." + res["via"] + "." + res["mode"])
        R.count("rel.status." + res["status"])
        if res["status"] != "ok":
            continue
        # records of every line from the real execute() (only to know which lines are whole-buffer sentinels)
        modeflags = {"plain": [], "delim": ["-d", "|"], "json": ["--json"], "template": ["-t", "<{{1}}>"]}[res["mode"]]
        d = dump_opts(modeflags + res["argv"])
        recs_per_line = [None] * len(lines)
        if "opts" in d:
            ex = hook_server_call({"op": "exec", "opts": d["opts"], "texts": lines})
            if "results" in ex:
                recs_per_line = [x.get("ok") for x in ex["results"]]
        exp, err = relation(res, recs_per_line)
        if exp is None:
            R.count("rel.unjudged")
            continue
        if exp[0] == "json":
            try:
                got = json.loads(res["lw"].decode("utf-8")) if res["lw"].strip() else []
            except Exception:
                R.violation("--linewise --json output does not parse", case)
                continue
            if got != exp[1]:
                R.violation("--linewise JSON records are not the in-order concatenation of the per-line records", dict(case, got=canon(got), want=canon(exp[1])))
        else:
            if res["lw"] != exp[1]:
                R.violation("--linewise output is not the in-order concatenation of the per-line outputs",
                            dict(case, got=res["lw"].decode("utf-8", "replace"), want=exp[1].decode("utf-8", "replace")))
    # 3. several files of unequal length on the parallel path (stdout with headers, and -i)
    n_multi = 40 if tier == "quick" else 1500
    from props.c14 import py_standard
    mcases = []
    for _ in range(n_multi):
        nf = r.randint(2, 4)
        files = {}
        for i in range(nf):
            nl = r.choice([1, 3, 17, 40, 64, 5])
            files["f%d.txt" % i] = "".join("%s %d %s\n" % (gen.word(r), j, gen.line(r, True, 3)) for j in range(nl))
        items = gen.flag_items(r, n=r.randint(1, 3), edits=True, repeat=False, glob=False, names=False)
        mcases.append((files, gen.items_argv(items), r.choice(["stdout", "inplace"]), r.choice([None, "2", "4", "16"])))

    def multi(c):
        files, argv, how, threads = c
        env = {"RAYON_NUM_THREADS": threads} if threads else {}
        with Scratch() as sc:
            for k, v in files.items():
                sc.write(k, v)
            names = sorted(files)
            if how == "inplace":
                o = run_cli(["--linewise", "-i"] + argv + names, cwd=sc.d, env=env)
                after = {k: sc.read(k) for k in names}
            else:
                o = run_cli(["--linewise"] + argv + names, cwd=sc.d, env=env)
                after = None
        return o, after
    mres = pmap(multi, mcases)
    for (files, argv, how, threads), (o, after) in zip(mcases, mres):
        case = {"files": files, "argv": argv, "how": how, "threads": threads}
        R.case(case, nontrivial=True)
        R.count("multi." + how)
        if o["timeout"] or o["rc"] != 0:
            R.count("multi.nonzero")
            continue
        d = dump_opts(argv)
        if "opts" not in d:
            continue
        want = {}
        bad = False
        for k in sorted(files):
            lines = py_get_lines(files[k])
            ex = hook_server_call({"op": "exec", "opts": d["opts"], "texts": lines, "file": k})
            if "results" not in ex or any("ok" not in x for x in ex["results"]):
                bad = True
                break
            want[k] = "".join(py_standard(" ", x["ok"]) for x in ex["results"]).encode("utf-8")
        if bad:
            R.count("multi.unjudged")
            continue
        if how == "inplace":
            if after != want:
                k = [k for k in want if after[k] != want[k]][0]
                R.violation("--linewise -i: %s is not the in-order concatenation of its lines' outputs" % k,
                            dict(case, got=after[k].decode("utf-8", "replace")[:400], want=want[k].decode("utf-8", "replace")[:400]))
        else:
            exp = b"".join(b"--- " + k.encode() + b"\n" + want[k] + b"\n" for k in sorted(want) if want[k])
            if o["out"] != exp:
                R.violation("--linewise over several files: stdout is not the per-file in-order concatenation",
                            dict(case, got=o["out"].decode("utf-8", "replace")[:600], want=exp.decode("utf-8", "replace")[:600]))
    close_servers()
    return R.finish(proof, rule="(a) get_lines on generated texts (CRLF, empty lines, no final newline, multi-byte): model vs code + flatten/shape laws on the code's output; (b) real binary: `--linewise ARGS` vs one run of `ARGS` per line (stdin, file, -i, with/without --serial; plain/delimiter/template/JSON), compared through the exact relation proved in Props/C03.lean; (c) 2-4 files of unequal length (1..64 lines) on the parallel path with RAYON_NUM_THREADS unset/2/4/16, stdout with headers and -i, against the per-line records of the real execute(). non-trivial = input with at least 2 lines (a newline for (a))",
                    assumptions=["rayon executes each closure exactly once and collect() returns results by index (modelled as an arbitrary permutation followed by the sort)", "successful runs only (non-zero exits are counted, not judged here)"])
