"""C11 — splitting keys at command boundaries changes nothing; flags start in Normal mode."""
import itertools
import json
from vlib import *
import gen

PROP = "C11"

COMPLETE = ["h", "l", "j", "k", "w", "b", "e", "W", "B", "E", "ge", "0", "^", "$", "G", "gg", "2w", "3l", "2j", "fa", "Fo", "t ", "T.", ";", ",", "%", "{", "}",
            "x", "X", "2x", "dw", "d2w", "2dw", "db", "d$", "dd", "diw", "daw", "di(", "dvw", "dVw", "dvj", "D", "yw", "yiw", "yy", "\"ayw", "\"ayiw", "\"Ayw",
            "\"ap", "\"aP", "p", "P", "2p", "rZ", "~", "3~", "J", "g~w", "gUiw", "guu", "g?w", ">>", "<<", "u", "<c-r>", ".", "2.",
            "ifoo<esc>", "aé<esc>", "Ix<esc>", "A!<esc>", "onew<esc>", "Oup<esc>", "cwX<esc>", "ciwé<esc>", "sZ<esc>", "C.<esc>", "Rab<esc>",
            "vld", "vey", "viwd", "Vd", "vjy", "v<esc>", "V<esc>", "vU", "<c-v>jd",
            "/o<CR>", "?a<CR>", "n", "N", "/foo<CR>", ":s/a/b/<CR>", ":d<CR>", ":2<CR>", ":s/o/0/g<CR>"]
PENDING = [("3", "count"), ("\"a", "register"), ("d", "operator"), ("2d", "operator"), ("g", "prefix"), ("f", "find"), ("\"ad", "operator"), ("c", "operator"),
           ("y", "operator"), ("di", "textobj"), ("r", "replace"), ("z", "prefix"), ("g~", "operator"), ("\"", "register")]
OPEN_MODE = [("ifoo", "ifoo<esc>", "insert"), ("A!", "A!<esc>", "insert"), ("ox", "ox<esc>", "insert"), ("vl", "vl<esc>", "visual"), ("Vj", "Vj<esc>", "visual"),
             ("<c-v>l", "<c-v>l<esc>", "visual"), ("Rab", "Rab<esc>", "replace"), ("cw", "cw<esc>", "insert")]
FOLLOW = ["w", "x", "dw", "p", "iZ<esc>", "yiw", ".", "l", "rQ", "~", "j", "e", "3l"]


def final_obs(x, nfields):
    """what the property compares: text, cursor, registers, and the fields read afterwards"""
    if "steps" not in x:
        return {"crash": x.get("panic") or x.get("err") or "crash"}
    st = x["steps"][-1 - nfields]
    s = st["post"] or st["after"]
    fields = [y["res"] for y in x["steps"][len(x["steps"]) - nfields:]]
    return {"buf": s["buf"], "cur": s["cur"]["value"], "regs": s["regs"], "mode": s["mode"], "fields": fields}


def settled_diff(a, p):
    """set_normal_mode must be the identity on a settled state"""
    a = dict(a, cur=a["cur"]["value"])       # the clamp *kind* is re-derived from the mode before every command
    p = dict(p, cur=p["cur"]["value"])
    keys = ("buf", "cur", "mode", "pending", "sel_mode", "sel_range", "regs", "saved_col", "rep", "rep_motion", "escaped", "undo", "redo")
    return [k for k in keys if a.get(k) != p.get(k)]


def run(tier, seed, replay=None):
    R = Run(PROP, tier, seed)
    proof = prove(PROP, thorough=(tier == "thorough"))
    build_hooked()
    R.check_witnesses()
    r = R.rng
    FIELDS = [["field", "e"], ["field", "$"]]
    n = 260 if tier == "quick" else 4000
    kmax = 5 if tier == "quick" else 8
    cases = []
    for _ in range(n):
        k = r.randint(2, kmax)
        cmds = [r.choice(COMPLETE) for _ in range(k)]
        text = gen.text(r, max_lines=4, multibyte=(r.random() < 0.4), allow_empty=(r.random() < 0.05))
        cases.append({"text": text, "cmds": cmds, "keep": r.random() < 0.25})
    if replay:
        rp = json.load(open(replay))
        c = rp.get("case") or {}
        if "cmds" in c:
            cases = [{"text": c["text"], "cmds": c["cmds"], "keep": c.get("keep", False)}]
    reqs, meta = [], []
    for ci, c in enumerate(cases):
        k = len(c["cmds"])
        for mask in range(2 ** (k - 1)):
            groups, cur = [], [c["cmds"][0]]
            for i in range(1, k):
                if mask >> (i - 1) & 1:
                    groups.append(cur)
                    cur = []
                cur.append(c["cmds"][i])
            groups.append(cur)
            reqs.append({"op": "session", "text": c["text"], "cursor": 0, "keep_mode": c["keep"], "regs": {nm: ["span", ""] for nm in [""] + list("abz")},
                         "steps": [["move", "".join(g)] for g in groups] + FIELDS})
            meta.append((ci, mask, groups))
    resp = batch(hook_server, reqs)
    by_case = {}
    for (ci, mask, groups), x in zip(meta, resp):
        by_case.setdefault(ci, []).append((mask, groups, x))
    for ci, c in enumerate(cases):
        runs = by_case[ci]
        k = len(c["cmds"])
        full = [x for m, g, x in runs if m == 2 ** (k - 1) - 1][0]       # every command its own argument
        whole = [x for m, g, x in runs if m == 0][0]                     # one argument
        # hypothesis of the theorem: each command ends settled (normal mode, nothing pending, reset = identity)
        settled = True
        if "steps" in full and not c["keep"]:
            for i, st in enumerate(full["steps"][1:1 + k]):
                a, p = st["after"], st["post"]
                if a["mode"] != "Normal" or a["pending"]:
                    settled = False
                    R.count("command_not_complete:" + c["cmds"][i][:12])
                    break
                d = settled_diff(a, p)
                if d:
                    settled = False
                    R.violation("set_normal_mode is not the identity after the complete command %r (normal mode, nothing pending): %s differ; cursor %s -> %s" % (
                        c["cmds"][i], d, a["cur"], p["cur"]), dict(c, upto=i + 1))
                    break
        if "steps" not in full or "steps" not in whole:
            R.case(c, nontrivial=False, sample=False)
            R.count("crash")
            # a crash in one splitting but not in another is a difference too
            obs = {canon(final_obs(x, len(FIELDS))) for m, g, x in runs}
            if len(obs) > 1 and settled:
                crashed = [g for m, g, x in runs if "steps" not in x]
                okrun = [g for m, g, x in runs if "steps" in x]
                if crashed and okrun:
                    R.violation("splitting changes whether vicut crashes: crashes as %s, not as %s" % (crashed[0], okrun[0]), c, classes=["crash"])
            continue
        if not settled:
            R.case(c, nontrivial=False, sample=False)
            continue
        base = final_obs(whole, len(FIELDS))
        R.case(c, nontrivial=(base["buf"] != c["text"] or base["cur"] != 0))
        R.count("splits", len(runs))
        R.count("keep" if c["keep"] else "nokeep")
        for m, g, x in runs:
            o = final_obs(x, len(FIELDS))
            if o != base:
                diff = [kk for kk in o if o.get(kk) != base.get(kk)] if "crash" not in o and "crash" not in base else ["crash"]
                R.violation("split %s differs from the single argument in %s: %s vs %s" % (
                    ["".join(gg) for gg in g], diff, canon({kk: o.get(kk) for kk in diff})[:160], canon({kk: base.get(kk) for kk in diff})[:160]),
                    dict(c, groups=["".join(gg) for gg in g]))
                break
    # ---- unfinished arguments
    preqs, pmeta = [], []
    npend = 150 if tier == "quick" else 2500
    for _ in range(npend):
        text = gen.text(r, max_lines=3, multibyte=(r.random() < 0.3), allow_empty=False)
        pre = [r.choice(COMPLETE) for _ in range(r.randint(0, 2))]
        b = r.choice(FOLLOW)
        regs = {nm: ["span", ""] for nm in [""] + list("abz")}
        if r.random() < 0.6:
            p, kind = r.choice(PENDING)
            # [pre, P, B] must equal [pre, B]: the pending count/register/operator is dropped
            A = [["move", "".join(pre)]] if pre else []
            preqs.append({"op": "session", "text": text, "cursor": 0, "regs": regs, "steps": A + [["move", p], ["move", b]] + FIELDS})
            preqs.append({"op": "session", "text": text, "cursor": 0, "regs": regs, "steps": A + [["move", b]] + FIELDS})
            pmeta.append(("pending:" + kind, {"text": text, "pre": pre, "pending": p, "next": b}))
        else:
            o, closed, kind = r.choice(OPEN_MODE)
            A = [["move", "".join(pre)]] if pre else []
            if r.random() < 0.5:
                # [pre, OPEN, B]: B must act as a normal-mode command on the editor state (text, cursor, registers) the
                # open argument left, and on nothing else: compared below with B in a fresh session started from that state
                bb = r.choice([f for f in FOLLOW if f != "."])
                preqs.append({"op": "session", "text": text, "cursor": 0, "regs": regs, "steps": A + [["move", o], ["move", bb]] + FIELDS})
                preqs.append(None)
                pmeta.append(("open:" + kind, {"text": text, "pre": pre, "open": o, "next": bb}))
            else:
                # --keep-mode: [OPEN, typed] equals [OPEN typed]
                t = r.choice(["xy<esc>", "<esc>", "Z<esc>l"]) if kind != "visual" else r.choice(["d", "y", "<esc>", "ld"])
                preqs.append({"op": "session", "text": text, "cursor": 0, "regs": regs, "keep_mode": True, "steps": A + [["move", o], ["move", t]] + FIELDS})
                preqs.append({"op": "session", "text": text, "cursor": 0, "regs": regs, "keep_mode": True, "steps": A + [["move", o + t]] + FIELDS})
                pmeta.append(("keep:" + kind, {"text": text, "pre": pre, "open": o, "typed": t, "keep": True}))
    # second pass for the open-mode cases: a fresh session from the state the open argument left
    first = batch(hook_server, [q for q in preqs if q is not None])
    it = iter(first)
    presp = [next(it) if q is not None else None for q in preqs]
    fill, fidx = [], []
    for i, (kind, c) in enumerate(pmeta):
        if kind.startswith("open:"):
            x1 = presp[2 * i]
            if "steps" not in x1:
                presp[2 * i + 1] = x1
                continue
            S = x1["steps"][-1 - len(FIELDS) - 1]["post"]       # state after the OPEN argument (after set_normal_mode)
            allregs = {nm: ["span", ""] for nm in [""] + [chr(k) for k in range(97, 123)]}
            allregs.update(S["regs"])
            fill.append({"op": "session", "text": S["buf"], "cursor": S["cur"]["value"], "regs": allregs, "steps": [["move", c["next"]]] + FIELDS})
            fidx.append(2 * i + 1)
    for j, x in zip(fidx, batch(hook_server, fill)):
        presp[j] = x
    for i, (kind, c) in enumerate(pmeta):
        x1, x2 = presp[2 * i], presp[2 * i + 1]
        o1, o2 = final_obs(x1, len(FIELDS)), final_obs(x2, len(FIELDS))
        R.case(c, nontrivial=("crash" not in o2))
        R.count(kind)
        if "crash" in o1 or "crash" in o2:
            R.count("crash")
            if ("crash" in o1) != ("crash" in o2):
                R.violation("%s: one form crashes, the other does not: %s vs %s" % (kind, canon(o1)[:100], canon(o2)[:100]), c, classes=["crash"])
            continue
        if kind.startswith("keep"):
            o1.pop("mode", None)
            o2.pop("mode", None)
        if o1 != o2:
            diff = [kk for kk in o1 if o1.get(kk) != o2.get(kk)]
            R.violation("%s: what the earlier argument left open leaks into the next one (%s differ): %s vs %s" % (
                kind, diff, canon({kk: o1.get(kk) for kk in diff})[:160], canon({kk: o2.get(kk) for kk in diff})[:160]), c,
                classes=[kind.split(":")[0] + "." + kind.split(":")[1]])
    close_servers()
    return R.finish(proof, rule="sequences of 2-%d complete commands from a %d-command set (motions with counts, f/t ; , operators with motions/text objects/dv dV, registers, puts, r ~ J case operators, >> <<, u <c-r> . 2., insert/replace sessions closed by <esc>, visual operators, searches with n N, ex :s :d :N) on ASCII/multi-byte texts, run under all 2^(k-1) splittings into -m arguments (with and without --keep-mode), followed by two -c fields; compared: text, cursor, registers, mode and both fields against the single-argument run. The theorem's hypothesis is checked on the implementation at every boundary: normal mode, nothing pending, and set_normal_mode changes nothing (text, cursor+clamp, selection, registers, repeat state, undo stacks). Unfinished arguments: [.., P, B] = [.., B] for P a pending count/register/operator/prefix; [.., OPEN, B] = B run in a fresh session started from the text, cursor and registers the open argument left (open insert/visual/replace mode); --keep-mode: [OPEN, t] = [OPEN t]" % (kmax, len(COMPLETE)),
                    assumptions=["a 'complete command' is validated per case on the implementation (mode Normal and nothing pending at its end); sequences where a command is not complete there are skipped and counted",
                                 "pending Ex/Search text is submitted as if <CR> had been typed (by design): not in the unfinished-argument set"])
