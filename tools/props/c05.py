"""C05 — -i writes back exactly the edited buffer."""
import json
from vlib import *
import gen

PROP = "C05"
NAMES = ["a.txt", "b", "c.tar.gz", ".hid", "d.", "e.md", "f g.txt", "é.txt"]
MODES = {"default": [], "serial": ["--serial"], "linewise": ["--linewise"], "linewise-serial": ["--linewise", "--serial"]}


def content(r):
    k = r.random()
    if k < 0.08:
        return ""
    return gen.text(r, max_lines=4, final_newline=(r.random() < 0.6), allow_empty=False)


def edit_program(r):
    items = []
    for _ in range(r.randint(1, 3)):
        k = r.random()
        if k < 0.75:
            items.append(("m", gen.edit_cmd(r)))
        elif k < 0.9:
            items.append(("m", gen.passive_cmd(r)))
        else:
            items.append(("c", None, gen.passive_cmd(r)))
    return items


def scope_program(r):
    """a -g/-v scope that extracts a field: on files where it never runs nothing is extracted"""
    pat = r.choice(gen.PATTERNS + ["zzzz", "zzzz"])
    inner = [("c", None, gen.passive_cmd(r))] + ([("m", gen.edit_cmd(r))] if r.random() < 0.4 else [])
    items = [("g", r.random() < 0.75, pat, inner, None)]
    if r.random() < 0.4:
        items.insert(0, ("m", gen.edit_cmd(r)))
    return items


def passive_program(r):
    return [("m", gen.passive_cmd(r)) for _ in range(r.randint(1, 3))]


def one(c):
    files, argv, mode, backup = c
    names = list(files)
    with Scratch() as sc:
        for k, v in files.items():
            sc.write(k, v)
        flags = ["-i"] + (["--backup"] if backup else []) + MODES[mode]
        o = run_cli(flags + argv + names, cwd=sc.d)
        after = sc.listing()
    twins = {}
    for k in names:
        with Scratch() as sc:
            for k2, v in files.items():
                sc.write(k2, v)
            t = run_cli(MODES[mode] + argv + [k], cwd=sc.d)
            twins[k] = t
    return o, after, twins


def run(tier, seed, replay=None):
    R = Run(PROP, tier, seed)
    proof = prove(PROP, thorough=(tier == "thorough"))
    build_hooked()
    R.check_witnesses()
    r = R.rng
    n = 140 if tier == "quick" else 5000
    cases = []
    for i in range(n):
        nf = r.randint(1, 5)
        names = r.sample(NAMES, nf)
        files = {k: content(r) for k in names}
        passive = r.random() < 0.3
        items = passive_program(r) if passive else (scope_program(r) if r.random() < 0.25 else edit_program(r))
        mode = r.choice(list(MODES))
        cases.append((files, gen.items_argv(items), mode, r.random() < 0.4, passive))
    if replay:
        rp = json.load(open(replay))
        c = rp.get("case") or {}
        if "files" in c:
            cases = [(c["files"], c["argv"], c["mode"], c["backup"], c.get("passive", False))]
    results = pmap(lambda c: one(c[:4]), cases)
    for (files, argv, mode, backup, passive), (o, after, twins) in zip(cases, results):
        case = {"files": files, "argv": argv, "mode": mode, "backup": backup, "passive": passive}
        R.case(case, nontrivial=any(files.values()))
        R.count("mode." + mode + (".backup" if backup else ""))
        if passive:
            R.count("passive")
        if o["timeout"] or any(t["timeout"] for t in twins.values()):
            R.count("timeout")
            continue
        if o["rc"] != 0 or any(t["rc"] != 0 for t in twins.values()):
            R.count("nonzero_rc")     # the property is about successful runs (crashes: C10, aborts: C06)
            continue
        # what the same invocation without -i prints for each file
        want = {}
        bad = False
        for k, t in twins.items():
            out = t["out"]
            if "serial" in mode:
                if not out.endswith(b"\n"):
                    bad = True
                    break
                out = out[:-1]       # serial drivers print with writeln!: one framing newline per file
            want[k] = out
        if bad:
            R.violation("serial twin output lacks its framing newline", case)
            continue
        orig = {k: v.encode("utf-8") for k, v in files.items()}
        # (1) every named file holds exactly the twin's text
        wrong = [k for k in files if after.get(k) != want[k]]
        if wrong:
            k = wrong[0]
            R.violation("-i wrote %r to %s but the same invocation without -i prints %r" % (after.get(k, b"")[:120], k, want[k][:120]), case)
            continue
        # (2) cursor-only commands leave every file byte-identical
        if passive:
            changed = [k for k in files if after.get(k) != orig[k]]
            if changed:
                R.violation("motion-only commands changed %s: %r -> %r" % (changed[0], orig[changed[0]][:80], after[changed[0]][:80]), case,
                            classes=["inplace.serial_linewise_adds_newline"] if mode == "linewise-serial" else [])
                continue
        # (3)+(4) model plan: nothing else is touched, backups hold the original bytes
        m = model_call({"op": "inplace", "fs": [[k, files[k]] for k in files], "files": list(files),
                        "outputs": [[k, want[k].decode("utf-8")] for k in files], "backup": "bak" if backup else None})
        pred = {p: c.encode("utf-8") for p, c in m.get("fs", [])}
        if m.get("exit") != 0 or pred != after:
            extra = sorted(set(after) - set(pred))
            missing = sorted(set(pred) - set(after))
            diff = [k for k in pred if k in after and pred[k] != after[k]]
            # decide by the property itself
            allowed = set(files) | ({k for k in pred} if backup else set())
            if extra or missing:
                R.violation("files created/missing besides the named files and their backups: extra=%s missing=%s" % (extra, missing), case)
            elif any(k not in files for k in diff):
                R.violation("backup %s does not hold the original bytes" % diff[0], case)
            else:
                R.disagreement("inplace plan: model %s impl %s" % (canon(pred)[:300], canon(after)[:300]), case)
    close_servers()
    return R.finish(proof, rule="1-5 files (with/without extension, dotfile, trailing dot, space, non-ASCII name; empty / no final newline / multi-byte content) x editing or motion-only command lists x {default, --serial, --linewise, --linewise --serial} x {--backup or not}: the -i run's directory listing is compared with (a) the stdout of the same invocation without -i run per file, (b) the originals for motion-only lists, (c) the model's write-back plan (named files + backup siblings only, backups = originals). non-trivial = some file non-empty",
                    assumptions=["serial drivers frame each file's text with one writeln! newline on stdout (stripped before comparing)", "fs::write/fs::copy either succeed or abort the run"])
