"""C17 — vic programs compute what their source says."""
import json
from vlib import *
import vicgen

PROP = "C17"


def run(tier, seed, replay=None):
    R = Run(PROP, tier, seed)
    proof = prove(PROP, thorough=(tier == "thorough"))
    build_hooked()
    R.check_witnesses()
    r = R.rng
    n = 500 if tier == "quick" else 20000
    progs = []
    for _ in range(n):
        src, ast, probe = vicgen.program(r, max_depth=r.choice([1, 2, 3, 4]), budget=r.choice([4, 8, 12, 20, 40]))
        progs.append({"src": src, "ast": ast, "probe": probe})
    if replay:
        rp = json.load(open(replay))
        c = rp.get("case") or {}
        if "src" in c:
            progs = [c]
    mres = batch(model_driver, [{"op": "vic", "prog": p["ast"], "fuel": 200000} for p in progs])
    outs = pmap(lambda p: run_cli([p["src"]], stdin=b"", timeout=20), progs)
    for p, m, o in zip(progs, mres, outs):
        nst = p["src"].count("\n")
        if "out" not in m:
            R.case(p, nontrivial=False, sample=False)
            R.count("outside_core:" + str(m.get("err", "?"))[:30])      # overflow / fuel: outside the bounded, terminating core
            continue
        R.case({"src": p["src"], "probe": p["probe"]}, nontrivial=(len(m["out"]) > 0))
        R.count("statements", nst)
        for kw in ("if ", "elif ", "while ", "until ", "for ", "def ", "push ", "pop ", "return ", "${{", "[0] ="):
            if kw in p["src"]:
                R.count("uses:" + kw.strip())
        want = "".join(l + "\n" for l in m["out"])
        got = o["out"].decode("utf-8", "replace")
        err = o["err"].decode("utf-8", "replace")
        case = {"src": p["src"], "ast": p["ast"], "probe": p["probe"]}
        if o["timeout"]:
            R.violation("the program terminates in the reference interpreter but vicut did not finish in 20 s", case)
            continue
        if p["probe"]:
            R.count("scope_probe")
            # the last statement reads a variable that was declared only inside a block: not visible any more
            if not (o["rc"] == 1 and ("Variable %s not found" % p["probe"]) in err and got == want):
                R.violation("a variable declared inside a block (%s) is still visible after it, or the output before the probe differs: rc=%s stderr=%r stdout=%r want=%r" % (
                    p["probe"], o["rc"], err[:120], got[:200], want[:200]), case)
            continue
        want += "\n"          # after the script vicut prints the (empty) buffer
        if o["rc"] != 0 or got != want:
            # first differing line, for the message
            gl, wl = got.split("\n"), want.split("\n")
            k = next((i for i in range(min(len(gl), len(wl))) if gl[i] != wl[i]), min(len(gl), len(wl)))
            R.violation("vicut prints %r where the reference interpreter prints %r (line %d; rc=%s, stderr %r)" % (
                (gl[k] if k < len(gl) else "<end>")[:80], (wl[k] if k < len(wl) else "<end>")[:80], k + 1, o["rc"], err[:160]), case)
    close_servers()
    return R.finish(proof, rule="programs generated from the core grammar (let, re-declaration and shadowing, =, += -= *= /= %=, left-to-right arithmetic with parentheses and negative literals, comparisons joined by && ||, if/elif/else, counting while/until loops, for over ranges / literal arrays / array and string variables, arrays with push, pop, element assignment, strings with ${{var}} interpolation and push, functions with 0-2 parameters, early return inside if, calls as expressions and statements, echo) up to nesting depth 4 and ~40 statements, with bounded integers, non-zero divisors and terminating loops, run as `vicut '<script>'` with empty input; stdout and exit status are compared with the Lean reference interpreter run on the same AST; 30% of programs end with a scope probe (reading a variable declared only inside a block must fail with 'Variable x not found')",
                    assumptions=["the reference interpreter is the specification of the core: a disagreement is reported as a violation of the property, with the program as replay",
                                 "programs whose integers leave +-2^62 or that exhaust the interpreter's fuel are outside the core and skipped (counted)",
                                 "built-ins fed from an input buffer (line, col, lines, char, word) are not generated: PARTIAL"])
