"""C06 — in-place editing is all-or-nothing across files."""
import json, os, itertools
from vlib import *
import gen

PROP = "C06"
MODES = {"default": [], "serial": ["--serial"], "linewise": ["--linewise"], "linewise-serial": ["--linewise", "--serial"]}
BAD_UTF8 = b"ok line\n\xff\xfe broken\n"


def build_case(r, nfiles, faulty, kind, mode, backup):
    names = ["f%d.txt" % i for i in range(nfiles)]
    files = {}
    for i, k in enumerate(names):
        if kind == "template":
            files[k] = ("plain words here\n" if i in faulty else "KEY alpha beta\n") * r.randint(1, 3)
        else:
            files[k] = gen.text(r, max_lines=3, allow_empty=False)
    argv = ["-m", r.choice(["x", "dw", "~", "iZ<esc>", "w"])]
    if kind == "template":
        argv = ["-t", "{{1}}+{{2}}", "-c", "e", "-g", "KEY", "-m", "w", "-c", "e", "--end"]
    return {"names": names, "files": files, "faulty": sorted(faulty), "kind": kind, "mode": mode, "backup": backup, "argv": argv}


def one(c):
    with Scratch() as sc:
        for k, v in c["files"].items():
            sc.write(k, v)
        for i in c["faulty"]:
            k = c["names"][i]
            if c["kind"] == "utf8":
                sc.write(k, BAD_UTF8)
            elif c["kind"] == "dir":
                os.remove(os.path.join(sc.d, k))
                os.mkdir(os.path.join(sc.d, k))
            elif c["kind"] == "missing":
                os.remove(os.path.join(sc.d, k))
        before = sc.listing()
        if c["mode"] == "pooled":
            opts = "edit_inplace, max_jobs=\"2\"" + (", backup" if c["backup"] else "")
            o = run_cli(["opts { %s } m \"x\"" % opts] + c["names"], cwd=sc.d)
        else:
            flags = ["-i"] + (["--backup"] if c["backup"] else []) + MODES[c["mode"]]
            o = run_cli(flags + c["argv"] + c["names"], cwd=sc.d)
        after = sc.listing()
        dirs_ok = all(os.path.isdir(os.path.join(sc.d, c["names"][i])) for i in c["faulty"]) if c["kind"] == "dir" else True
    return o, before, after, dirs_ok


def run(tier, seed, replay=None):
    R = Run(PROP, tier, seed)
    proof = prove(PROP, thorough=(tier == "thorough"))
    build_hooked()
    R.check_witnesses()
    r = R.rng
    cases = []
    sizes = [2, 3] if tier == "quick" else [2, 3, 4]
    for nfiles in sizes:
        subsets = [s for k in range(0, nfiles + 1) for s in itertools.combinations(range(nfiles), k)]
        for faulty in subsets:
            for kind in ["utf8", "template", "dir", "missing"]:
                if not faulty and kind != "utf8":
                    continue
                for mode in list(MODES) + ["pooled"]:
                    if mode == "pooled" and kind == "template":
                        continue
                    for backup in ([False, True] if (tier == "thorough" or len(faulty) <= 1) else [r.random() < 0.5]):
                        cases.append(build_case(r, nfiles, set(faulty), kind, mode, backup))
    if tier == "quick" and len(cases) > 420:
        keep = [c for c in cases if len(c["names"]) == 2]
        rest = [c for c in cases if len(c["names"]) != 2]
        r.shuffle(rest)
        cases = keep + rest[:420 - len(keep)]
    if replay:
        rp = json.load(open(replay))
        c = rp.get("case") or {}
        if "names" in c:
            cases = [c]
    results = pmap(one, cases)
    for c, (o, before, after, dirs_ok) in zip(cases, results):
        R.case(c, nontrivial=bool(c["faulty"]))
        R.count("%s.%s.%d_of_%d" % (c["mode"], c["kind"], len(c["faulty"]), len(c["names"])))
        if o["timeout"]:
            R.violation("vicut -i hung", c)
            continue
        # model prediction
        outs = [[k, None if i in c["faulty"] else "?"] for i, k in enumerate(c["names"])]
        m = model_call({"op": "inplace", "fs": [[k, v] for k, v in c["files"].items()], "files": c["names"], "outputs": outs,
                        "backup": "bak" if c["backup"] else None})
        model_exit = m.get("exit")
        if c["faulty"]:
            if o["rc"] == 0:
                R.violation("a named file is unreadable/aborts (%s) but vicut -i exited 0" % c["kind"], c)
                continue
            if o["rc"] not in (1,):
                R.count("rc_%s" % o["rc"])
            if after != before or not dirs_ok:
                changed = sorted(k for k in set(before) | set(after) if before.get(k) != after.get(k))
                R.violation("vicut -i exited %s but changed %s (not all-or-nothing)" % (o["rc"], changed), c)
                continue
            if model_exit != 1:
                R.disagreement("inplace plan: model exit %s, impl exit %s" % (model_exit, o["rc"]), c)
        else:
            if o["rc"] != 0:
                # an abort nobody planned (a crash is C10's finding) - still has to be all-or-nothing
                R.count("unplanned_abort_rc_%s" % o["rc"])
                if after != before:
                    R.violation("vicut -i exited %s (%s) after changing files" % (o["rc"], o["err"][:120]), c)
                continue
            if model_exit != 0:
                R.disagreement("inplace plan: model exit %s, impl exit 0" % model_exit, c)
            untouched = [k for k in c["names"] if after.get(k) == before.get(k)]
            if len(untouched) == len(c["names"]) and c["argv"][1] != "w":
                R.count("no_fault_but_nothing_written")
    close_servers()
    return R.finish(proof, level="proof", rule="full fault matrix: 2-3 (thorough: 2-4) named files x every subset and position of faulty files x fault kind {invalid UTF-8, data-dependent template abort, path is a directory, path vanished} x {default, --serial, --linewise, --linewise --serial, pooled via vic max_jobs} x {--backup or not}; after a failing run the whole directory listing (names + bytes, including backups) must equal the listing before; exit status must be non-zero iff a fault is present; compared with the model's plan. non-trivial = at least one faulty file",
                    assumptions=["a failing or interrupted fs::write / a crash in the middle of the write loop is not in the fault list", "directory/vanished paths are rejected while parsing arguments, before anything runs"])
