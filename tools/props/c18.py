"""C18 — short flags, long flags and vic scripts are the same language."""
import json, re, random
from vlib import *
import gen
from props.c12 import build, tree_json, strip_opts, OPT_KEYS

PROP = "C18"
OPTIONS = [["-j"], ["-d", ","], ["-d", " -- "], ["-t", "<{{1}}>"], ["--linewise"], ["--linewise", "--serial"], ["--trim-fields"], ["--keep-mode"]]
LONG = {"-j": "--json", "-d": "--delimiter", "-t": "--template"}
VIC_OPT = {"-j": "json", "--linewise": "linewise", "--serial": "serial", "--trim-fields": "trim_fields", "--keep-mode": "keep_mode"}


def simple_key(r):
    """key strings without characters that vic string literals treat specially (backslash, quote, dollar)"""
    for _ in range(20):
        k = gen.passive_cmd(r) if r.random() < 0.6 else gen.edit_cmd(r)
        if not any(c in k for c in '\\"$'):
            return k
    return "w"


def gen_items(r, depth=0, in_else=False):
    items = []
    for _ in range(r.randint(1, 4)):
        k = r.random()
        if k < 0.4:
            items.append(("c", r.choice(["user", "id"]) if r.random() < 0.25 else None, simple_key(r)))
        elif k < 0.65:
            items.append(("m", simple_key(r)))
        elif k < 0.75 and not in_else:
            items.append(("n",))
        elif k < 0.87 and items:
            items.append(("r", r.randint(1, len(items)), r.randint(0, 2)))
        elif depth < 2:
            pat = r.choice(["foo", "o", "a", "bar|baz", "[0-9]+", "^h", "zzz", "b.r", "E"])
            then = gen_items(r, depth + 1, False)
            els = gen_items(r, depth + 1, True) if r.random() < 0.35 else None
            items.append(("g", r.random() < 0.7, pat, then, els))
        else:
            items.append(("m", simple_key(r)))
    return items


def vq(s):
    return '"' + s + '"'


def vic_cmds(nodes, ind="  "):
    out = []
    for nd in nodes:
        t = nd[0]
        if t == "c":
            out.append(ind + ("cut name=%s %s" % (vq(nd[1]), vq(nd[2])) if nd[1] is not None else "cut %s" % vq(nd[2])))
        elif t == "m":
            out.append(ind + "move %s" % vq(nd[1]))
        elif t == "n":
            out.append(ind + "next")
        elif t == "rep":
            out.append(ind + "repeat %d {\n%s\n%s}" % (nd[2], vic_cmds(nd[1], ind + "  "), ind))
        elif t == "g":
            if nd[1]:
                s = ind + "global %s {\n%s\n%s} " % (vq(nd[2]), vic_cmds(nd[3], ind + "  "), ind)
                if nd[4] is not None:
                    s += "else {\n%s\n%s}" % (vic_cmds(nd[4], ind + "  "), ind)
            else:
                s = ind + "not_global %s{\n%s\n%s}" % (vq(nd[2]), vic_cmds(nd[3], ind + "  "), ind)
                if nd[4] is not None:
                    s += "else{\n%s\n%s}" % (vic_cmds(nd[4], ind + "  "), ind)
            out.append(s)
    return "\n".join(out)


def vic_script(opts, items):
    ol = []
    for o in opts:
        if o[0] in VIC_OPT:
            ol.append(VIC_OPT[o[0]])
        elif o[0] == "-d":
            ol.append("delimiter=%s" % vq(o[1]))
        elif o[0] == "-t":
            ol.append("template=%s" % vq(o[1]))
        if len(o) == 2 and o[1] == "--serial":
            ol.append("serial")
    pre = ("opts { %s }\n" % ", ".join(ol)) if ol else ""
    return pre + vic_cmds(build(items), "") + "\n"


def flat_argv(opts, items, long=False, positions=None, r=None):
    """options placed at the given top-level positions (between top-level items)"""
    tops = [gen.items_argv([it], long) for it in items]
    optsv = []
    for o in opts:
        o2 = [LONG.get(o[0], o[0]) if long else o[0]] + o[1:]
        optsv.append(o2)
    slots = [[] for _ in range(len(tops) + 1)]
    for i, o in enumerate(optsv):
        k = positions[i] if positions else 0
        slots[min(k, len(tops))].extend(o)
    av = []
    for i, t in enumerate(tops):
        av += slots[i] + t
    av += slots[len(tops)]
    return av


def norm_dbg(s):
    """Literal(Str(x)) and Expr(Literal(x)) are the same argument (both go through expand_literal)"""
    s = re.sub(r'Literal\(Str\(("(?:[^"\\]|\\.)*")\)\)', r'L(\1)', s)
    s = re.sub(r'Expr\(Literal\(("(?:[^"\\]|\\.)*")\)\)', r'L(\1)', s)
    return s


def run(tier, seed, replay=None):
    R = Run(PROP, tier, seed)
    proof = prove(PROP, thorough=(tier == "thorough"))
    build_hooked()
    R.check_witnesses()
    r = R.rng
    n = 160 if tier == "quick" else 5000
    cases = []
    for _ in range(n):
        items = gen_items(r)
        nopt = r.choice([0, 1, 1, 2, 3])
        opts = []
        for o in r.sample(OPTIONS, nopt):
            if o[0] in [x[0] for x in opts]:
                continue
            if o[0] == "-t" and not any(it[0] == "c" and it[1] is None for it in items[:1]):
                continue
            opts.append(o)
        text = gen.text(r, max_lines=4)
        if len(flat_argv(opts, items, False, [0] * len(opts))) < 2:
            continue      # a single argument is read as an inline script by main()
        cases.append((opts, items, text))
    if replay:
        rp = json.load(open(replay))
        c = rp.get("case") or {}
        if "opts" in c:
            def tup(x):
                return tuple(tup(i) for i in x) if isinstance(x, list) else x
            cases = [(c["opts"], [tup(i) for i in c["items"]], c["stdin"])]

    def variants(c):
        opts, items, text = c
        rr = random.Random(case_hash([opts, canon(items), text]))
        vs = []
        vs.append(("short", flat_argv(opts, items, False, [0] * len(opts))))
        vs.append(("long", flat_argv(opts, items, True, [0] * len(opts))))
        for k in range(2):
            pos = [rr.randint(0, len(items)) for _ in opts]
            vs.append(("moved%d" % k, flat_argv(opts, items, rr.random() < 0.5, pos)))
        vs.append(("vic", [vic_script(opts, items)]))
        res = []
        for name, av in vs:
            d = dump_opts(av)
            o = run_cli(av, stdin=text)
            res.append((name, av, d, o))
        return res
    for (opts, items, text), res in zip(cases, pmap(variants, cases)):
        case = {"opts": opts, "items": items, "stdin": text}
        R.case(case, nontrivial=True)
        R.count("program")
        base = res[0]
        # model parser vs real parser on every flag spelling
        for name, av, d, o in res:
            if name == "vic":
                continue
            m = model_call({"op": "parse_argv", "argv": av, "existing": []})
            ia = {"opts": strip_opts(d["opts"])} if "opts" in d else {"exit": d.get("rc")}
            mm = {"opts": strip_opts(m["opts"])} if "opts" in m else {"exit": m.get("exit")}
            R.count("parse." + name)
            if ia != mm:
                R.disagreement("argv: model %s impl %s" % (canon(mm)[:300], canon(ia)[:300]), {"argv": av})
        if "opts" not in base[2]:
            R.count("base_unparsed")
            continue
        bo = base[2]["opts"]
        for name, av, d, o in res[1:]:
            R.count("variant." + name)
            if "opts" not in d:
                R.violation("the %s form is rejected (%s) but the short-flag form parses" % (name, (d.get("err") or "")[:160]), dict(case, variant=name, argv=av),
                            classes=["vic.parse_gap"] if name == "vic" else [])
                continue
            vo = d["opts"]
            same_cmds = norm_dbg(vo["cmds_dbg"]) == norm_dbg(bo["cmds_dbg"])
            keys = [k for k in OPT_KEYS if k not in ("cmds", "files")]
            same_opts = all(vo.get(k) == bo.get(k) for k in keys)
            if not (same_cmds and same_opts):
                what = "commands" if not same_cmds else "options %s" % [k for k in keys if vo.get(k) != bo.get(k)]
                R.violation("the %s form parses to different %s than the short-flag form" % (name, what), dict(case, variant=name, argv=av))
                continue
            if (o["rc"], o["out"]) != (base[3]["rc"], base[3]["out"]) and not (o["timeout"] or base[3]["timeout"]):
                R.violation("the %s form prints %r, the short-flag form %r" % (name, o["out"][:160], base[3]["out"][:160]), dict(case, variant=name, argv=av))
    close_servers()
    return R.finish(proof, rule="generated command lists (-c / -c name= / -m / -n / -r / -g / -v / --else / --end, nesting <= 2) with 0-3 options from {-j, -d, -t, --linewise, --serial, --trim-fields, --keep-mode}: (a) short flags, (b) documented long flags, (c) options moved to random top-level positions, (d) the mechanical vic translation (opts block + cut/move/next/repeat/global/not_global); for each variant the real parser's Opts/Cmd tree (process-level dump) must equal the short-flag one (Literal vs Expr(Literal) identified) and stdout/exit must be byte-identical; every flag spelling is also parsed by the model parser and compared. non-trivial = every case",
                    assumptions=["key strings avoid backslash, double quote and dollar (vic string-literal syntax); the pest-generated parser is compared, not modelled",
                                 "a field named \"0\" is rejected by the flag parser only (generator avoids it)"])
