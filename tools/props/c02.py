"""C02 — supported Vim commands do what Vim does."""
import gzip
import json
import os
import random
import re
from vlib import *

PROP = "C02"
CORPUS = os.path.join(VERIF, "corpus", "vim_corpus.json.gz")
BASELINE = os.path.join(VERIF, "corpus", "c02_baseline.json")


def load_corpus():
    with gzip.open(CORPUS, "rt", encoding="utf-8") as f:
        return json.load(f)


def family_of(cls):
    """the command class a known finding is keyed by: operator+kind, or the simple command itself"""
    cls = cls[4:] if cls.startswith("seq:") else cls
    cls = cls[3:] if cls.startswith("ml:") else cls
    m = re.match(r"([^+:]+\+(?:motion|textobj))", cls)
    return m.group(1) if m else cls


def spec_cmds(keys):
    """key string of the VimSpec fragment ([count]{h,l,0,$,x,X})* -> command list, else None"""
    out, i = [], 0
    while i < len(keys):
        m = re.match(r"([1-9]\d*)?([hl$xX])|0", keys[i:])
        if not m:
            return None
        if m.group(0) == "0":
            out.append(["0"])
        elif m.group(2) == "$":
            if m.group(1):
                return None          # [count]$ goes down lines
            out.append(["$"])
        else:
            out.append([m.group(2), int(m.group(1) or 1)])
        i += len(m.group(0))
    return out


def run(tier, seed, replay=None):
    R = Run(PROP, tier, seed)
    proof = prove(PROP, thorough=(tier == "thorough"))
    build_hooked()
    R.check_witnesses()
    corpus = load_corpus()
    baseline = json.load(open(BASELINE)) if os.path.exists(BASELINE) else {}
    known_ids = {i: fam for fam, ids in baseline.items() for i in ids}
    if tier == "quick":
        rr = random.Random(seed)
        pick = set(rr.sample(range(len(corpus)), 12000))
        ml = [k for k, c in enumerate(corpus) if c["cls"].startswith("ml:")]
        pick |= set(rr.sample(ml, min(8000, len(ml))))
        cases = [c for k, c in enumerate(corpus) if k in pick or (len(c["text"]) > 12 and not c["cls"].startswith("ml:"))]
    else:
        cases = corpus
    if replay:
        rp = json.load(open(replay))
        c = rp.get("case") or {}
        if "keys" in c:
            cases = [c]
    reqs = [{"op": "session", "text": c["text"], "cursor": c["cursor"], "regs": {nm: ["span", ""] for nm in [""] + list("ab")}, "steps": [["move", c["keys"]]]} for c in cases]
    resp = batch(hook_server, reqs)
    fam_hits = {}
    healed = 0
    for c, x in zip(cases, resp):
        R.case({k: c[k] for k in ("id", "text", "cursor", "keys", "cls")}, nontrivial=(c["vim_text"] != c["text"] or c["vim_cursor"] != c["cursor"]), sample=False)
        R.count("class:" + family_of(c["cls"]))
        if "steps" not in x:
            got = {"crash": x.get("panic") or "crash"}
        else:
            s = x["steps"][-1]["post"]
            got = {"text": s["buf"], "cursor": s["cur"]["value"]}
        ok = got.get("text") == c["vim_text"] and got.get("cursor") == c["vim_cursor"]
        if ok:
            if c["id"] in known_ids:
                healed += 1
            continue
        fam = family_of(c["cls"])
        if c["id"] in known_ids:
            fam_hits[known_ids[c["id"]]] = fam_hits.get(known_ids[c["id"]], 0) + 1
            R.known_hits["vim.deviations"] = R.known_hits.get("vim.deviations", 0) + 1
            continue
        what = "text" if got.get("text") != c["vim_text"] else "cursor"
        R.violation("%r at cursor %d on %r: Vim gives (%r, %d), vicut gives %s [%s differs; class %s; corpus id %d is not a recorded deviation]" % (
            c["keys"], c["cursor"], c["text"][:40], c["vim_text"][:40], c["vim_cursor"], canon(got)[:100], what, fam, c["id"]),
            {k: c[k] for k in ("id", "text", "cursor", "keys", "cls", "vim_text", "vim_cursor")})
    R.count("recorded_deviation_now_agrees", healed)
    for fam, n in sorted(fam_hits.items()):
        R.count("known_deviation:" + fam, n)
    # ---- VimSpec (the Lean fragment) against Vim and against vicut, on its cases
    sreqs, smeta = [], []
    for c, x in zip(cases, resp):
        body = c["text"][:-1]
        if "\n" in body:
            continue
        cmds = spec_cmds(c["keys"])
        if cmds is None:
            continue
        sreqs.append({"op": "vimspec", "line": body, "cur": c["cursor"], "cmds": cmds})
        smeta.append((c, x))
    for (c, x), m in zip(smeta, batch(model_driver, sreqs)):
        R.count("vimspec_cases")
        if "line" not in m:
            R.disagreement("driver: %s" % canon(m)[:100], c)
            continue
        if (m["line"] + "\n", m["cur"]) != (c["vim_text"], c["vim_cursor"]):
            R.disagreement("VimSpec differs from recorded Vim on %r at %d of %r: spec (%r,%d) Vim (%r,%d)" % (
                c["keys"], c["cursor"], c["text"], m["line"], m["cur"], c["vim_text"], c["vim_cursor"]), {k: c[k] for k in ("id", "text", "cursor", "keys")})
    # ---- when Vim is installed, re-record a sample and compare it with the committed recording
    if os.path.exists("/usr/bin/vim"):
        import record_vim
        rr = random.Random(seed + 1)
        sample = rr.sample(cases, min(600, len(cases)))
        try:
            rec = record_vim.record([{"id": c["id"], "text": c["text"], "cursor": c["cursor"], "keys": c["keys"]} for c in sample])
            for c, v in zip(sample, rec):
                R.count("vim_rerecorded")
                if (v["vim_text"], v["vim_cursor"]) != (c["vim_text"], c["vim_cursor"]):
                    R.disagreement("the committed recording differs from /usr/bin/vim on %r at %d of %r" % (c["keys"], c["cursor"], c["text"][:40]), {k: c[k] for k in ("id", "text", "cursor", "keys")})
        except Exception as ex:      # no usable Vim: the committed recording stands
            R.count("vim_rerecord_failed")
    close_servers()
    return R.finish(proof, rule="the committed recording of Vim 9.0 (-u NONE -N) on: every buffer over {a b space . newline} up to 3 characters (newline-terminated) x every normal-mode cursor x %d commands (motions with counts 1-3, d c y g~ gu gU g? with every motion and text object, x X r ~ J p P D C Y dd yy cc S s with counts, i a I A o O sessions with and without count, dot repeats, v/V selections with an operator, yank-put pairs) plus 7 realistic records and 3 fixed-width grids for remembered-column sequences (vertical motion, edit, vertical motion, edit) (log, CSV, code, multi-byte, prose, indented config, nested brackets) with 1-3 command sequences at random cursors; vicut is run on the same text, cursor and keys through the key loop and compared on text and cursor. quick = a 12 000-case sample plus all cases on the longer texts; thorough = all 274 547 (incl. the families added later: a counted command repeated by a counted dot, `2x3.`, on six longer texts at every cursor; every command of the list at every cursor of three multi-line texts, of which the quick tier takes a sample of 8 000). Deviations recorded at the baseline are keyed by corpus id (corpus/c02_baseline.json) and reported as one known finding; any other deviating case is a violation. VimSpec (Lean) is compared with Vim on every single-line case of its fragment, and a 600-case sample is re-recorded with /usr/bin/vim when present" % 641,
                    level="partial",
                    assumptions=["the oracle is the recorded behaviour of Vim 9.0.1378 with default options; the recording, not a theorem, decides all commands outside the VimSpec fragment",
                                 "registers after the command are not compared (C08 covers what goes into registers)"])
