"""C12 — -r N R is exactly the unrolled command list."""
import json
from vlib import *
import gen

PROP = "C12"
OPT_KEYS = ["delimiter", "template", "edit_inplace", "json", "trace", "linewise", "trim_fields", "keep_mode",
            "backup_files", "single_thread", "global_uses_line_numbers", "silent", "cmds", "files"]


def gen_items(r, depth=0, in_else=False):
    items = []
    for _ in range(r.randint(1, 5)):
        k = r.random()
        if k < 0.06:
            # commands that change state other than text and cursor (registers), so that "nothing moved" != "nothing happened"
            items.append(("m", r.choice(['"Ayiw', '"Ayl', '"ayiw', 'yl', '"Byw'])))
        elif k < 0.10:
            items.append(("m", r.choice(['$"ap', '"aP', 'p', '"bp'])))
        elif k < 0.14 and depth < 3:
            # a scope that never matches: only its --else branch runs
            items.append(("g", True, "zzzz", [("m", "x")], [("c", None, r.choice(["0", "e", "$"]))]))
        elif k < 0.35:
            items.append(("c", None, gen.passive_cmd(r)))
        elif k < 0.6:
            items.append(("m", gen.edit_cmd(r) if r.random() < 0.5 else gen.passive_cmd(r)))
        elif k < 0.68 and not in_else:
            items.append(("n",))
        elif k < 0.88:
            items.append(("r", r.randint(0, len(items) + 2), r.randint(0, 4)))
        elif depth < 3:
            then = gen_items(r, depth + 1, False)
            els = gen_items(r, depth + 1, True) if r.random() < 0.35 else None
            items.append(("g", r.random() < 0.7, r.choice(gen.PATTERNS), then, els))
        else:
            items.append(("m", gen.passive_cmd(r)))
    return items


def build(items):
    """The parser's effect (theorems parse_repeat_top / parse_repeat_scope / applyRepeat_*)."""
    out = []
    for it in items:
        if it[0] == "r":
            n, rr = it[1], it[2]
            k = max(0, len(out) - n)
            out = out[:k] + [("rep", out[k:], rr + 1)]
        elif it[0] == "g":
            out.append(("g", it[1], it[2], build(it[3]), build(it[4]) if it[4] is not None else None))
        else:
            out.append(it)
    return out


def unroll(nodes):
    """theorem unrolled_everywhere: every Repeat written out."""
    out = []
    for nd in nodes:
        if nd[0] == "rep":
            out += unroll(nd[1]) * nd[2]
        elif nd[0] == "g":
            out.append(("g", nd[1], nd[2], unroll(nd[3]), unroll(nd[4]) if nd[4] is not None else None))
        else:
            out.append(nd)
    return out


def tree_json(nodes):
    out = []
    for nd in nodes:
        if nd[0] == "c":
            d = {"t": "cut", "arg": {"lit": nd[2]}}
            if nd[1] is not None:
                d["name"] = nd[1]
            out.append(d)
        elif nd[0] == "m":
            out.append({"t": "move", "arg": {"lit": nd[1]}})
        elif nd[0] == "n":
            out.append({"t": "next"})
        elif nd[0] == "rep":
            out.append({"t": "repeat", "count": {"count": nd[2]}, "body": tree_json(nd[1])})
        elif nd[0] == "g":
            out.append({"t": "global", "pattern": {"lit": nd[2]}, "polarity": nd[1], "then": tree_json(nd[3]),
                        "else": tree_json(nd[4]) if nd[4] is not None else None})
    return out


MAL = ["-r", "--repeat", "-c", "-m", "-n", "-g", "-v", "--else", "--end", "-d", "-t", "--json", "-j", "--linewise", "--serial",
       "--trim-fields", "--keep-mode", "-i", "--backup", "--silent", "e", "w", "3", "0", "99999999999999999999999", "+2", "-1", "x1",
       "name=a", "name=0", "name=", "foo", "", "--cut", "--move", "--next", "--global", "--not-global", "--template", "--delimiter",
       "f.txt", "nofile.txt", " f.txt "]


def gen_malformed(r):
    n = r.randint(2, 9)
    av = [r.choice(MAL) for _ in range(n)]
    if not any(a.startswith("-") for a in av):
        av[0] = "-m"
    return av


def strip_opts(o):
    return {k: o.get(k) for k in OPT_KEYS}


def run(tier, seed, replay=None):
    R = Run(PROP, tier, seed)
    proof = prove(PROP, thorough=(tier == "thorough"))
    build_hooked()
    R.check_witnesses()
    r = R.rng
    n_parse = 500 if tier == "quick" else 12000
    n_mal = 400 if tier == "quick" else 10000
    n_exec = 250 if tier == "quick" else 8000

    with Scratch() as sc:
        sc.write("f.txt", "file content\n")
        # ---- 1. parser correspondence: real Opts::parse (process-level dump) vs model parseOpts
        argvs = []
        for _ in range(n_parse):
            items = gen_items(r)
            av = gen.items_argv(items, long=(r.random() < 0.3))
            if r.random() < 0.3:
                av = r.choice([["--json"], ["-d", ","], ["--keep-mode"], ["--linewise", "--serial"]]) + av
            if r.random() < 0.15:
                av = av + ["f.txt"]
            argvs.append(("wf", av, items))
        for _ in range(n_mal):
            argvs.append(("mal", gen_malformed(r), None))
        argvs = [a for a in argvs if len(a[1]) >= 2 and "--script" not in a[1]]

        def dump(a):
            return dump_opts(a[1], cwd=sc.d)
        impl = pmap(dump, argvs)
        model = batch(model_driver, [{"op": "parse_argv", "argv": a[1], "existing": ["f.txt"]} for a in argvs])
        for (kind, av, items), a, m in zip(argvs, impl, model):
            case = {"op": "argv", "argv": av}
            R.case(case, nontrivial=("-r" in av or "--repeat" in av))
            R.count("parse." + kind)
            if a.get("timeout"):
                R.violation("argument parsing hung", case)
                continue
            if "opts" in a:
                ia = {"opts": strip_opts(a["opts"])}
            else:
                if a.get("rc") not in (0, 1):
                    R.violation("argument parsing died with status %s: %s" % (a.get("rc"), a.get("err", "")[:200]), case)
                    continue
                ia = {"exit": a.get("rc")}
            mm = {"opts": strip_opts(m["opts"])} if "opts" in m else {"exit": m.get("exit")}
            R.count("parse.outcome." + ("opts" if "opts" in ia else "exit"))
            # oracle: what -r must build (independent of the Lean model): last N commands, in order, R+1
            if kind == "wf" and "opts" in ia and "f.txt" not in av:
                want = tree_json(build(items))
                if ia["opts"]["cmds"] != want:
                    R.violation("-r did not build Repeat{last N commands in order, R+1}: got %s want %s" % (canon(ia["opts"]["cmds"])[:400], canon(want)[:400]), case)
            if ia != mm:
                R.disagreement("argv: model %s impl %s" % (canon(mm)[:400], canon(ia)[:400]), case)

        # ---- 2. the property on the real binary: -r form vs written-out form
        cases = []
        for _ in range(n_exec):
            items = gen_items(r)
            if not any(it[0] == "r" for it in items) and r.random() < 0.7:
                items.append(("r", r.randint(0, len(items) + 1), r.randint(0, 3)))
            text = gen.text(r, max_lines=4)
            pre = r.choice([[], [], ["--json"], ["--keep-mode"], ["-d", "|"]])
            cases.append((pre, items, text))
        if replay:
            rp = json.load(open(replay))
            c = rp.get("case") or {}
            if "items" in c:
                cases = [(c["pre"], json.loads(json.dumps(c["items"]), object_hook=None), c["stdin"])]

        def tup(x):
            return tuple(tup(i) for i in x) if isinstance(x, list) else x

        def both(c):
            pre, items, text = c
            items = [tup(i) if isinstance(i, list) else i for i in items]
            a1 = pre + gen.items_argv(items)
            flat = unroll(build(items))
            a2 = pre + gen.items_argv(flat)
            if not a2[len(pre):]:
                a2 = a2 + ["-m", ""] if False else a2
            return a1, a2, run_cli(a1, stdin=text, cwd=sc.d), (run_cli(a2, stdin=text, cwd=sc.d) if len(a2) >= 1 else None)
        for (pre, items, text), (a1, a2, o1, o2) in zip(cases, pmap(both, cases)):
            case = {"pre": pre, "items": items, "stdin": text, "argv_r": a1, "argv_unrolled": a2}
            R.case(case, nontrivial=True)
            R.count("exec")
            if len(a2) < 2 or not any(x.startswith("-") for x in a2):
                R.count("exec.unrolled_is_empty")   # nothing left to run as flags (vicut would read a script)
                continue
            if o1["timeout"] or o2["timeout"]:
                R.count("exec.timeout")
                continue
            if o1["rc"] not in (0, 1) or o2["rc"] not in (0, 1):
                R.count("exec.crash_rc_%s_%s" % (o1["rc"], o2["rc"]))   # crashes are C10's; not judged here unless they differ
                if o1["rc"] != o2["rc"]:
                    R.violation("-r form exits %s, written-out form exits %s" % (o1["rc"], o2["rc"]), case)
                continue
            if (o1["rc"], o1["out"]) != (o2["rc"], o2["out"]):
                R.violation("-r form and written-out form differ: %r vs %r" % (o1["out"][:200], o2["out"][:200]), case)
    close_servers()
    return R.finish(proof, rule="(a) generated flag lists with -r N R at every position (0<=N<=len+2, 0<=R<=4, nesting<=3, in -g/-v/--else scopes, short and long spellings) plus malformed argv: real Opts::parse (process-level dump) vs model parseOpts, and vs the 'last N in order, R+1' oracle; (b) real binary: stdout/exit of the -r form vs the textually unrolled form (plain, JSON, delimiter, --keep-mode). non-trivial = argv containing -r",
                    assumptions=["set_normal_mode is idempotent and jumping to a line start keeps Normal mode (hypotheses IdemNormal/GotoKeepsNormal of unrolled_everywhere; observed through the session hook in C11's check)",
                                 "a '-n' written after --else is moved to the then-list by the parser (quirk shared by both forms; generator keeps -n out of else-lists)"])
