"""C10 — no input makes vicut crash or hang."""
import json
import re
from vlib import *
import gen
import vicgen

PROP = "C10"

TEXTS = ["", "\n", "\n\n\n", "a", "ab cd\n", "x" * 5000 + "\n", "é日本\n", "é àb\n", "👨‍👩‍👧 👍\n", "a\r\nb\r\n", "a\0b\n", "foo bar\nbaz qux\n\nlast",
         "  indented (paren [brack] {brace}) \"q\" 'r'\n", "one\ttwo\tthree\n1\t2\t3\n", "ß ﬁ İ\n"]
KEYS = gen.MOTIONS + gen.TEXTOBJS + ["v", "V", "<c-v>", "o", "<esc>", "i", "a", "A", "I", "x", "X", "dd", "dw", "D", "p", "P", "u", "<c-r>", "yy", "~", "rZ", "J",
                                    "iab<esc>", "ofoo<esc>", "cwX<esc>", "/o<CR>", "n", "N", "?a<CR>", ":s/a/b/<CR>", ":d<CR>", ":2<CR>", "R", ".", "gv", ">>", "<<", "==",
                                    ":g/a/d<CR>", ":%s/o/0/g<CR>", ":1,2d<CR>", ":normal! x<CR>", "q", "Q", "@", "\"", "'", "`", "z", "g", "[", "]", "<BS>", "<del>",
                                    "<up>", "<down>", "<F1>", "<c-a>", "<c-w>", "5", "0", "99", "d", "c", "y", ":", "/", "<CR>", "<tab>", "é", "👍", "\x1b[A", "\x1b[", "\x1b", "<",
                                    "gj", "gk", "g?", "gU", "g~", "\"a", "\"A", ":w<CR>", ":r<CR>", ":q<CR>", ":!<CR>", ":s/(/x/<CR>", ":s/[/x/<CR>", "/[<CR>", "/\\<CR>", "%", "*", "#"]


def keyfuzz(r):
    if r.random() < 0.8:
        return "".join(r.choice(KEYS) for _ in range(r.randint(1, 14)))
    return "".join(chr(r.choice(list(range(1, 127)) + [233, 0x65e5, 0x1f44d, 0x301])) for _ in range(r.randint(1, 12)))


def argv(r):
    k = r.random()
    if k < 0.6:
        av = []
        for _ in range(r.randint(1, 4)):
            av += [r.choice(["-m", "-c", "-c", "--cut", "--move"]), keyfuzz(r)]
        return av, "keys"
    if k < 0.66:
        # the malformed shapes the property names: -r counts larger than the command list (top level, inside -g,
        # inside --else), unclosed -g, --else/--end without a scope, -g without commands
        n = r.choice([0, 1, 2, 5, 99])
        body = []
        for _ in range(r.randint(0, 2)):
            body += [r.choice(["-c", "-m"]), r.choice(["e", "w", "$", "dw", "x"])]
        shape = r.randrange(7)
        if shape == 0:
            av = body + ["-r", str(n), str(r.randint(0, 3))]
        elif shape == 1:
            av = ["-g", r.choice(gen.PATTERNS)] + body + ["-r", str(n), str(r.randint(0, 3)), "--end"]
        elif shape == 2:
            av = ["-g", r.choice(gen.PATTERNS)] + body + ["--else", "-r", str(n), "1", "--end"]
        elif shape == 3:
            av = ["-v", r.choice(gen.PATTERNS)] + body + ["-r", str(n), "1"]          # unclosed
        elif shape == 4:
            av = body + r.choice([["--else"], ["--end"], ["-g"], ["-g", "o"], ["-r"], ["-r", "x"], ["-r", "1"], ["-c"], ["-m"], ["-c", "name=a"]])
        elif shape == 5:
            av = ["-g", r.choice(gen.PATTERNS), "-g", r.choice(gen.PATTERNS)] + body + ["-r", str(n), "2", "--end"] + body
        else:
            av = ["--linewise", "-g", r.choice(gen.PATTERNS)] + body + ["-r", str(n), "1", "--end", "-c", "e"]
        return av + r.choice([[], ["--json"], ["--linewise"]]), "cli_scopes"
    if k < 0.75:
        return gen.items_argv(gen.flag_items(r)) + r.choice([[], ["--json"], ["--linewise"], ["-t", "{{1}}-{{2}}"], ["-d", ","], ["--trim-fields"], ["--keep-mode"]]), "cli"
    if k < 0.85:
        av = gen.items_argv(gen.flag_items(r))
        if av:
            av.pop(r.randrange(len(av)))
        if r.random() < 0.5:
            av.insert(r.randrange(len(av) + 1), r.choice(["-r", "-g", "--end", "--else", "-n", "-v", "-t", "-d", "--max-jobs", "-r", "99", "--json", "-i"]))
        return av, "cli_malformed"
    src, ast, pr = vicgen.program(r, budget=r.choice([4, 10, 20]))
    if r.random() < 0.4:
        toks = src.split(" ")
        if len(toks) > 2:
            toks.pop(r.randrange(len(toks)))
        src = " ".join(toks)
        return [src], "vic_malformed"
    return [src], "vic"


def classify(o):
    if o["timeout"]:
        return "hang", "did not finish in 30 s"
    err = o["err"].decode("utf-8", "replace")
    if "panicked at" in err:
        m = re.search(r"panicked at ([^:\n]+):(\d+):\d+:\n(.*)", err)
        msg = re.sub(r"\d+", "N", m.group(3))[:70] if m else "?"
        fn = "?"
        for l in err.split("\n"):
            mm = re.match(r"\s+\d+: (vicut::[\w:<>]+)", l)
            if mm and "panic" not in mm.group(1):
                fn = mm.group(1)
                break
        return "panic|%s|%s|%s" % (m.group(1) if m else "?", fn, msg), "Rust panic at %s:%s: %s" % (m.group(1) if m else "?", m.group(2) if m else "?", msg)
    if o["rc"] not in (0, 1):
        return "rc=%s" % o["rc"], "exit status %s" % o["rc"]
    if o["rc"] == 1 and not err.strip():
        return "rc1_silent", "exit status 1 without a diagnostic"
    try:
        o["out"].decode("utf-8")
    except UnicodeDecodeError:
        return "stdout_not_utf8", "stdout is not valid UTF-8"
    return None, None


def run(tier, seed, replay=None):
    R = Run(PROP, tier, seed)
    proof = prove(PROP, thorough=(tier == "thorough"))
    build_hooked()
    R.check_witnesses()
    r = R.rng
    n = 4000 if tier == "quick" else 120000
    cases = []
    for _ in range(n):
        av, kind = argv(r)
        # the OS cannot pass NUL inside an argument; very large counts are quadratic, not hangs: keep counts to 3 digits
        av = [re.sub(r"\d{4,}", lambda m: m.group(0)[:3], a.replace("\0", "")) for a in av]
        if not av or len(av) == 1 and kind in ("keys", "cli", "cli_malformed"):
            continue
        cases.append({"text": r.choice(TEXTS), "argv": av, "kind": kind})
    # searches family: patterns that can match the empty string (at the start, at the end of the buffer, between any
    # two characters), anchors, classes and alternations, forwards and backwards, repeated with n/N and counts, as a
    # motion of an operator and inside -g; an RNG of its own, so that the main stream is what it was before
    import random as _random
    sr = _random.Random((seed << 8) ^ 0x5EA2C4)
    PATS = ["$", "^", "x*", "a?", "\\b", "\\s*", "()", "a|", ".", ".*", "[a-z]*", "\\w+$", "^$", "é*", "日", "o", "\\n", "a.", "[0-9]+", "zzz", "(", "[", "\\"]
    for _ in range(300 if tier == "quick" else 8000):
        keys = ""
        for _ in range(sr.randint(1, 3)):
            keys += sr.choice(["", "", "$", "G", "gg", "w", "2"]) + sr.choice(["", "", "d", "y", "c", "v"]) + sr.choice("/?") + sr.choice(PATS) + sr.choice(["<CR>", "<CR>", "<enter>"])
            keys += "".join(sr.choice(["n", "N", "2n", "3N", "x", "dn", ".", "<esc>"]) for _ in range(sr.randint(0, 3)))
        av = [sr.choice(["-m", "-c"]), keys]
        if sr.random() < 0.2:
            av = ["-g", sr.choice(PATS), "-m", keys, "--end"]
        if sr.random() < 0.3:
            av = av + ["-c", sr.choice(["n", "N", "/" + sr.choice(PATS) + "<CR>"])]
        cases.append({"text": sr.choice(TEXTS), "argv": av, "kind": "search_family"})
    if replay:
        rp = json.load(open(replay))
        c = rp.get("case") or {}
        if "argv" in c:
            cases = [c]
    outs = pmap(lambda c: run_cli(c["argv"], stdin=c["text"].encode("utf-8"), timeout=30, env={"RUST_BACKTRACE": "1"}), cases)
    for c, o in zip(cases, outs):
        cls, what = classify(o)
        R.case(c, nontrivial=True, sample=(cls is not None))
        R.count("kind:" + c["kind"])
        R.count("rc:%s" % o["rc"])
        if cls:
            R.violation("%s on %r with %s" % (what, c["text"][:30], canon(c["argv"])[:200]), c, classes=[cls])
    close_servers()
    return R.finish(proof, rule="command lines from the CLI grammar (-c/-m/-n/-r/-g/-v/--else/--end, output options) and malformed variants (operand removed, stray flags), key strings from the per-mode command set (all modes, counts, registers, text objects, ex and search commands incl. bad patterns, escape sequences) and raw printable/control/multi-byte fuzz, vic scripts from the core generator and token-deleted variants; against empty, newline-only, 5000-column, multi-byte, combining, ZWJ-emoji, CRLF and NUL-containing texts; run as the real process with a 30 s limit. Failure = panic banner, signal, exit status other than 0/1, status 1 with empty stderr, stdout that is not UTF-8, or no termination. Panics are classified by (file, innermost vicut function in the backtrace, message with numbers masked) so that a known open finding hides nothing else",
                    assumptions=["arguments cannot contain NUL (OS limit); counts are capped at 3 digits (a count of 10^5 on r is quadratic time, not a hang)",
                                 "the theorems cover the modelled functions only; everything else is covered by the census of this run"])
