"""C20 — dot repeats the last change exactly."""
import json
import re
from vlib import *
import gen

PROP = "C20"

# (keys of X, keys of X without its own count: what a count given to `.` is put in front of)
SINGLE = [("x", "x"), ("X", "X"), ("2x", "x"), ("dw", "dw"), ("d2w", "dw"), ("2dw", "dw"), ("db", "db"), ("de", "de"), ("d$", "d$"), ("dd", "dd"), ("diw", "diw"),
          ("daw", "daw"), ("di(", "di("), ("da\"", "da\""), ("D", "D"), ("rZ", "rZ"), ("2rZ", "rZ"), ("ré", "ré"), ("~", "~"), ("3~", "~"), ("J", "J"), (">>", ">>"), ("<<", "<<"),
          ("p", "p"), ("P", "P"), ("g~w", "g~w"), ("guw", "guw"), ("gUiw", "gUiw"), ("g?w", "g?w"), ("g~~", "g~~"), ("\"adw", "\"adw"), ("\"Adw", "\"Adw"), ("\"ap", "\"ap"),
          ("2dd", "dd"), ("dj", "dj"), ("dk", "dk"), ("dfa", "dfa"), ("dta", "dta"), ("d}", "d}"), ("dG", "dG"), ("dgg", "dgg"), ("d0", "d0"), ("d^", "d^"), ("dl", "dl"), ("dh", "dh")]
SESSION = ["s!<esc>", "SNEW<esc>", "C.<esc>", "cwX<esc>", "ciwé<esc>", "ifoo<esc>", "aé<esc>", "Ix<esc>", "A!<esc>", "onew<esc>", "Oup<esc>", "Rab<esc>", "iab<BS>c<esc>",
           "ia<left>b<esc>", "cc!<esc>", "ct.Q<esc>", "o<esc>", "i<esc>", "a<CR>b<esc>", "cawZ<esc>", "c$end<esc>", "I<esc>", "ia<right>b<esc>", "Aa<BS><BS>b<esc>",
           "ix<del>y<esc>", "R日本<esc>", "cbY<esc>", "ceE<esc>", "a q <esc>"]
# motions, yanks, searches, and commands that fail or are given up: an operator whose motion finds nothing
# (Þ occurs in no generated text), a selection left with <esc>
BETWEEN = ["w", "j", "k", "l", "h", "b", "e", "$", "0", "yw", "yiw", "yy", "fa", "/o<CR>", "n", "G", "gg", "99l", "zz", "\"byw", ";", "%",
           "dfÞ", "ctÞ", "g~fÞ", "vl<esc>", "V<esc>"]


def parse_cmd(s):
    """`(cmd reg=Some('a')/1/false verb=Some(VerbCmd(1, Delete)) motion=Some(MotionCmd(2, X)) flags=0)` -> dict"""
    m = re.match(r"\(cmd reg=(.*?)/(\d+)/(true|false) verb=(.*) motion=(.*) flags=(\d+)\)$", s, re.S)
    if not m:
        return None
    reg, rcount, rapp, verb, motion, flags = m.groups()
    out = {"reg": "%s/%s" % (reg, rapp), "flags": int(flags), "kind": "other", "vcount": 1, "mcount": 1}
    vm = re.match(r"Some\(VerbCmd\((\d+), (.*)\)\)$", verb, re.S)
    if vm:
        out["vcount"] = int(vm.group(1))
        body = vm.group(2)
        pm = re.match(r"ReplaceCharInplace\((.*), (\d+)\)$", body, re.S)
        if pm:
            body, out["payload"] = "ReplaceCharInplace(%s)" % pm.group(1), int(pm.group(2))
        pm = re.match(r"ToggleCaseInplace\((\d+)\)$", body)
        if pm:
            body, out["payload"] = "ToggleCaseInplace", int(pm.group(1))
        out["verb"] = body
        out["kind"] = {"InsertMode": "insertMode", "Change": "change", "ReplaceMode": "replaceMode", "NormalMode": "normalMode"}.get(body, "lineBreak" if body.startswith("InsertModeLineBreak") else "other")
    mm = re.match(r"Some\(MotionCmd\((\d+), (.*)\)\)$", motion, re.S)
    if mm:
        out["mcount"] = int(mm.group(1))
        out["motion"] = mm.group(2)
    return out


def strip(c):
    return {k: c.get(k) for k in ("reg", "verb", "vcount", "payload", "motion", "mcount", "flags")}


def lb_cmds(step):
    out = []
    for t in step["trace"]:
        if t["k"] == "lb":
            c = parse_cmd(t["cmd"])
            if c is not None:
                c["repeatable"] = bool(t.get("repeatable"))
            out.append(c)
    return out


def fin(x):
    if "steps" not in x:
        return {"crash": x.get("panic") or "crash"}
    s = x["steps"][-1]["post"]
    return {"buf": s["buf"], "cur": s["cur"]["value"], "regs": s["regs"]}


def st(step):
    s = step["post"]
    return {"buf": s["buf"], "cur": s["cur"]["value"], "regs": s["regs"]}


def x_failed(step):
    """the first command of the step reached the editor with an operator and a motion that evaluated to Null"""
    for t in step["trace"]:
        if t["k"] == "lb":
            m = re.match(r"ReplaceCharInplace\(.*, (\d+)\)$", t.get("verb") or "", re.S)
            if m:
                # `[n]r<c>` fails when fewer than n characters are left on the cursor line
                gs = graphemes_of(t["buf"], t["fresh"])
                left = 0
                for g in gs[t["cur"]["value"]:]:
                    if g == "\n":
                        break
                    left += 1
                return int(m.group(1)) > left
            return t.get("verb") is not None and "motion=Some" in t.get("cmd", "") and t.get("mk") == "Null"
    return False


def first_kind(step):
    """kind of the first command of the step as the editor really executed it: a command handed to ViCut::exec_cmd ('cmd')
    that did not reach LineBuf::exec_cmd ('lb') was abandoned"""
    tr = step["trace"]
    for i, t in enumerate(tr):
        if t["k"] == "cmd":
            c = parse_cmd(t["cmd"])
            if c is None:
                return None
            if c["kind"] != "change":
                return c["kind"]
            # the 'cmd' entry is written when ViCut::exec_cmd returns: the change's own 'lb' entry comes before it
            if any(u["k"] == "lb" and (parse_cmd(u["cmd"]) or {}).get("kind") == "change" for u in tr[:i]):
                return "change"
            return "abandoned"
    return None


def build_rep(x_cmds):
    """the replay the editor records for X, from the commands X handed to LineBuf::exec_cmd"""
    if not x_cmds or any(x is None for x in x_cmds):
        return None
    if x_cmds[0]["kind"] in ("insertMode", "change", "lineBreak", "replaceMode") and x_cmds[-1]["kind"] == "normalMode" and len(x_cmds) >= 2:
        entry, exit_ = x_cmds[0], x_cmds[-1]
        reps = max(entry["vcount"], 1)
        body = x_cmds[1:-1]
        if entry["kind"] == "lineBreak" and reps > 1 and (len(body) - (reps - 1)) % reps == 0:
            typed = body[:(len(body) - (reps - 1)) // reps]      # every repetition after the first opens its own line
        else:
            typed = body[:len(body) // reps] if reps > 1 and len(body) % reps == 0 else body
        return {"mode": [entry] + typed + [exit_], "reps": reps}
    if len(x_cmds) == 1 and x_cmds[0]["repeatable"]:
        return {"single": x_cmds[0]}
    if len(x_cmds) >= 1 and x_cmds[-1]["repeatable"]:
        return {"single": x_cmds[-1]}
    return None


def with_count(x, base, cnt, session):
    if not cnt:
        return x
    if session:
        return cnt + x
    if base.startswith('"'):
        return base[:2] + cnt + base[2:]
    return cnt + base


def run(tier, seed, replay=None):
    R = Run(PROP, tier, seed)
    proof = prove(PROP, thorough=(tier == "thorough"))
    build_hooked()
    R.check_witnesses()
    r = R.rng
    n = 1200 if tier == "quick" else 40000
    cases = []
    for _ in range(n):
        text = gen.text(r, max_lines=4, multibyte=(r.random() < 0.35), allow_empty=(r.random() < 0.03))
        session = r.random() < 0.45
        if session:
            x = r.choice(SESSION)
            base = x
        else:
            x, base = r.choice(SINGLE)
        cases.append({"text": text, "start": [r.choice(BETWEEN) for _ in range(r.randint(0, 2))], "x": x, "base": base, "session": session,
                      "between": [r.choice(BETWEEN) for _ in range(r.randint(0, 4))], "dots": r.choice([1, 1, 1, 2, 3, 5]), "count": r.choice(["", "", "", "2", "3"])})
    if replay:
        rp = json.load(open(replay))
        c = rp.get("case") or {}
        if "x" in c:
            cases = [c]
    reqs = []
    for c in cases:
        regs = {nm: ["span", ""] for nm in [""] + list("abz")}
        regs[""] = ["span", "RR"]
        regs["a"] = ["span", "é1"]
        pre = c["start"] + [c["x"]] + c["between"]
        reqs.append({"op": "session", "text": c["text"], "cursor": 0, "regs": regs, "trace": True, "steps": [["move", k] for k in pre + [c["count"] + "."] * c["dots"]]})
        reqs.append({"op": "session", "text": c["text"], "cursor": 0, "regs": regs, "trace": True,
                     "steps": [["move", k] for k in pre + [with_count(c["x"], c["base"], c["count"], c["session"])] * c["dots"]]})
    resp = batch(hook_server, reqs)
    mreqs, mmeta = [], []
    for i, c in enumerate(cases):
        xa, xb = resp[2 * i], resp[2 * i + 1]
        a, b = fin(xa), fin(xb)
        if "crash" in a or "crash" in b:
            R.case(c, nontrivial=False, sample=False)
            R.count("crash")
            if ("crash" in a) != ("crash" in b):
                R.violation("the history with '.' %s, the history with X retyped %s" % ("crashes" if "crash" in a else "runs", "crashes" if "crash" in b else "runs"), c, classes=["crash"])
            continue
        npre = len(c["start"])
        x_cmds = lb_cmds(xa["steps"][1 + npre])
        changed = xa["steps"][1 + npre]["post"]["buf"] != (xa["steps"][npre]["post"] or xa["steps"][npre].get("init", {})).get("buf") if npre else True
        R.case(c, nontrivial=bool(x_cmds))
        R.count("session" if c["session"] else "single")
        R.count("count:" + (c["count"] or "none"))
        R.count("between:%d" % len(c["between"]))
        # A change whose motion fails at the new position is abandoned (as in Vim): retyping X there does not
        # perform X (the keys after the operator run as normal-mode commands), so "typing X again" is no oracle
        # from that point on. What `.` owes then is to do nothing; the histories are compared up to that point.
        first_dot = 1 + npre + 1 + len(c["between"])
        x_kind = first_kind(xa["steps"][1 + npre])
        if c["session"] and c["x"][0] in "cCS" and x_kind != "change":
            R.count("x_abandoned_where_first_typed")
            continue
        if x_failed(xa["steps"][1 + npre]):
            # X did nothing where it was first typed (its motion failed): it is a failed command, not the change
            # the property speaks of, and `.` rightly does not repeat it
            R.count("x_failed_where_first_typed")
            continue
        if x_kind == "change":
            gone = next((d for d in range(c["dots"]) if first_kind(xb["steps"][first_dot + d]) != "change"), None)
            if gone is not None:
                R.count("retyped_change_abandoned")
                sa0, sb0, sa1 = st(xa["steps"][first_dot + gone - 1]), st(xb["steps"][first_dot + gone - 1]), st(xa["steps"][first_dot + gone])
                if sa0 != sb0:
                    diff = [k for k in sa0 if sa0[k] != sb0[k]]
                    R.violation("'.' differs from retyping %r in %s (before the position where the change fails): dot %s, typed %s" % (c["x"], diff, canon({k: sa0[k] for k in diff})[:160], canon({k: sb0[k] for k in diff})[:160]), c)
                elif sa1 != sa0:
                    diff = [k for k in sa0 if sa0[k] != sa1[k]]
                    R.violation("'.' of %r where its motion fails must do nothing, it changed %s: %s -> %s" % (c["x"], diff, canon({k: sa0[k] for k in diff})[:160], canon({k: sa1[k] for k in diff})[:160]), c)
                elif gone == 0:
                    # the repeat machine with the editor's verdict "the motion fails here" (taken from the retyped run)
                    rep = build_rep(lb_cmds(xa["steps"][1 + npre]))
                    between_cmds = [x for k in range(len(c["between"])) for x in lb_cmds(xa["steps"][1 + npre + 1 + k])]
                    if rep is not None and not any(x and x["repeatable"] for x in between_cmds):
                        mreqs.append({"op": "dot", "rep": rep, "count": int(c["count"] or 1), "fails": True})
                        mmeta.append((c, [strip(x) for x in lb_cmds(xa["steps"][first_dot]) if x]))
                continue
        if a != b:
            diff = [k for k in a if a[k] != b[k]]
            R.violation("'.' differs from retyping %r in %s: dot %s, typed %s" % (c["x"], diff, canon({k: a[k] for k in diff})[:160], canon({k: b[k] for k in diff})[:160]), c)
            continue
        # same route: the commands handed to LineBuf::exec_cmd by each '.' and by each retyped X
        for d in range(c["dots"]):
            da = [strip(x) for x in lb_cmds(xa["steps"][first_dot + d]) if x]
            db = [strip(x) for x in lb_cmds(xb["steps"][first_dot + d]) if x]
            if da != db:
                R.count("same_effect_other_route")
                break
        # the model of the repeat machine on the recorded X
        if not x_cmds or any(x is None for x in x_cmds):
            continue
        if any(x["repeatable"] for x in [parse_and_flag(b_) for b_ in []]):
            pass
        # commands in between must not be repeatable (else '.' legitimately repeats them)
        between_cmds = [x for k in range(len(c["between"])) for x in lb_cmds(xa["steps"][1 + npre + 1 + k])]
        if any(x and x["repeatable"] and "Þ" not in (x.get("motion") or "") for x in between_cmds):
            R.count("between_has_repeatable")
            continue
        rep = build_rep(x_cmds)
        if rep is None:
            R.count("x_not_repeatable_here")
            continue
        mreqs.append({"op": "dot", "rep": rep, "count": int(c["count"] or 1), "fails": False})
        mmeta.append((c, [strip(x) for x in lb_cmds(xa["steps"][first_dot]) if x]))
    for (c, observed), m in zip(mmeta, batch(model_driver, mreqs)):
        if "execs" not in m:
            R.disagreement("driver: %s" % canon(m)[:100], c)
            continue
        R.count("model_compared")
        want = [{k: e.get(k) for k in ("reg", "verb", "vcount", "payload", "motion", "mcount", "flags")} for e in m["execs"]]
        if want != observed:
            R.disagreement("repeat machine: model hands %s to the editor, the implementation %s" % (canon(want)[:220], canon(observed)[:220]), c)
    close_servers()
    return R.finish(proof, rule="histories start-motions, X, 0-4 motions/yanks/searches, then 1-5 dots (with count none/2/3) against the same history with X retyped (with that count) on ASCII and multi-byte texts; X from %d single changes (x X d+motion/text object/register, r ~ J >> << p P, g~ gu gU g?, with own counts) and %d insert/replace sessions (i a I A o O s S C c+motion R with typed text, <BS>, <Del>, cursor keys, <CR>, empty sessions). Compared: final text, cursor and all registers (the property); the commands each '.' hands to LineBuf::exec_cmd against those of the retyped X (same route); and the Lean repeat machine fed with the recorded X against the commands the first '.' really executed" % (len(SINGLE), len(SESSION)),
                    assumptions=["what a command does to the text is LineBuf::exec_cmd's business (C08, C02): equal command lists from equal states give equal results by congruence",
                                 "the parser puts a count typed in front of X where normalize_counts leaves it (validated by the same-route comparison)"])


def parse_and_flag(x):
    return x
