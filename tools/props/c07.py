"""C07 — undo restores the previous text, redo re-applies it."""
import json
from vlib import *
import gen

PROP = "C07"
EDITS = ["x", "X", "dw", "db", "d$", "dd", "diw", "cwNEW<esc>", "ciwZ<esc>", "rQ", "~", "J", "p", "P", "yiwP", "ylp", "oab<esc>", "OXY<esc>",
         "ifoo<esc>", "ab ar<BS>z<esc>", "Aend<esc>", "Ixy<c-w>q<esc>", "vld", "vey", "Vd", ":s/o/0/<CR>", ":s/a/A/g<CR>", ":d<CR>", "3x", "2dw",
         "ié<esc>", "r日", "g~w", "gUiw", "cl!<esc>", "s?<esc>", "D", "C.<esc>", "xp", "ddp"]
MOVES = ["w", "b", "e", "0", "$", "j", "k", "l", "h", "G", "gg", "fo", "2w"]


def history(r):
    steps = []
    n = r.randint(1, 12)
    for _ in range(n):
        k = r.random()
        if k < 0.55:
            steps.append(r.choice(EDITS))
        elif k < 0.7:
            steps.append(r.choice(MOVES))
        elif k < 0.9:
            steps.append("u" * r.choice([1, 1, 1, 2, 3]))
        else:
            steps.append("<c-r>" * r.choice([1, 1, 2]))
    return steps


def ops_of_trace(trace):
    """(lb, lb_done) pairs -> machine operations + observed states"""
    ops, obs = [], []
    cur = None
    for t in trace:
        if t["k"] == "lb":
            cur = t
        elif t["k"] == "lb_done" and cur is not None:
            if cur["undo_op"]:
                ops.append(["undo"] if (cur["verb"] or "").startswith("Undo") else ["redo"])
            else:
                ops.append(["cmd", bool(cur["char_insert"]), t["buf"]])
            obs.append({"text": t["buf"], "undo": [[e["old"], e["new"], e["merging"]] for e in t["undo"]],
                        "redo": [[e["old"], e["new"], e["merging"]] for e in t["redo"]], "verb": cur["verb"], "before": cur["buf"]})
            cur = None
    return ops, obs


def run(tier, seed, replay=None):
    R = Run(PROP, tier, seed)
    proof = prove(PROP, thorough=(tier == "thorough"))
    build_hooked()
    R.check_witnesses()
    r = R.rng
    n = 1500 if tier == "quick" else 60000
    cases = []
    for _ in range(n):
        text = gen.text(r, max_lines=3, allow_empty=(r.random() < 0.1), multibyte=(r.random() < 0.5))
        steps = history(r)
        if r.random() < 0.3:
            steps = steps + ["u"] * 14          # enough u's: back to the original
        cases.append({"text": text, "steps": steps})
    if replay:
        rp = json.load(open(replay))
        c = rp.get("case") or {}
        if "steps" in c:
            cases = [{"text": c["text"], "steps": c["steps"]}]
    reqs = [{"op": "session", "text": c["text"], "cursor": 0, "trace": True, "steps": [["move", s] for s in c["steps"]]} for c in cases]
    resp = batch(hook_server, reqs)
    mreqs, midx, allobs = [], [], {}
    for i, (c, x) in enumerate(zip(cases, resp)):
        if "steps" not in x:
            continue
        trace = [t for st in x["steps"][1:] for t in st["trace"]]
        ops, obs = ops_of_trace(trace)
        allobs[i] = (ops, obs)
        mreqs.append({"op": "undo_machine", "text": c["text"], "ops": ops})
        midx.append(i)
    mres = dict(zip(midx, batch(model_driver, mreqs)))
    hs = hook_server()
    for i, (c, x) in enumerate(zip(cases, resp)):
        if "steps" not in x:
            R.case(c, nontrivial=False, sample=False)
            # which command crashed? undo/redo must never panic
            lo = None
            for k in range(1, len(c["steps"]) + 1):
                y = hs.call({"op": "session", "text": c["text"], "cursor": 0, "steps": [["move", s] for s in c["steps"][:k]]})
                if "steps" not in y:
                    lo = k
                    break
            last = c["steps"][lo - 1] if lo else "?"
            if last.startswith("u") or last.startswith("<c-r>"):
                R.violation("undo/redo crashed: %s" % canon({k: x.get(k) for k in ("panic", "site", "exit")}), dict(c, steps=c["steps"][:lo]))
            else:
                R.count("crash_in_other_command")
            continue
        ops, obs = allobs[i]
        nun = sum(1 for o in ops if o[0] != "cmd")
        R.case(c, nontrivial=(nun > 0 and any(o[0] == "cmd" and o[2] != b["before"] for o, b in zip(ops, obs))))
        R.count("history")
        R.count("ops", len(ops))
        states = mres[i].get("states", [])
        bad = False
        stack_diff = None
        for k, (op, ob, ms) in enumerate(zip(ops, obs, states)):
            if ob["text"] != ms["text"]:
                what = {"undo": "u did not restore the text before the most recent undoable change",
                        "redo": "<c-r> did not return the text that u replaced"}.get(op[0], "machine text differs")
                if op[0] == "cmd":
                    R.disagreement("undo machine: text after op %d" % k, dict(c, op_index=k))
                else:
                    R.violation("%s: got %r want %r" % (what, ob["text"][:120], ms["text"][:120]), dict(c, op_index=k))
                bad = True
                break
            if (ob["undo"], ob["redo"]) != (ms["undo"], ms["redo"]) and not stack_diff:
                # keep going: if the bookkeeping differs, a later u/<c-r> will show a wrong text
                stack_diff = ("undo machine: stacks after op %d (%s): model %s impl %s" % (k, op[0], canon([ms["undo"], ms["redo"]])[:300], canon([ob["undo"], ob["redo"]])[:300]), dict(c, op_index=k))
        if stack_diff and not bad:
            R.disagreement(*stack_diff)
            bad = True
        if bad:
            continue
        # enough u's return the original input
        if c["steps"][-14:] == ["u"] * 14 and len(c["steps"]) >= 14:
            final = x["steps"][-1]["post"]["buf"]
            if final != c["text"]:
                R.violation("14 u's after %d commands did not return the original text: %r vs %r" % (len(c["steps"]) - 14, final[:120], c["text"][:120]), c)
        # every text shown is an earlier state
        seen = {c["text"]} | {ob["text"] for op, ob in zip(ops, obs) if op[0] == "cmd"}
        for op, ob in zip(ops, obs):
            if op[0] != "cmd" and ob["text"] not in seen:
                R.violation("undo/redo produced a text that was never a state of the buffer: %r" % ob["text"][:120], c)
                break
    hs.close()
    close_servers()
    return R.finish(proof, rule="histories of 1-12 commands from {x X d/c+motion r ~ J p P o O, insert sessions with typed text/<BS>/<c-w>, visual deletes, :s :d, multi-byte inserts} interleaved with motions, u (x1-3) and <c-r>, on ASCII and multi-byte buffers, each command its own -m step; per LineBuf::exec_cmd the hook reports (verb class, text before/after, both stacks); the abstract machine is run on the observed (class, after-text) sequence and text + stacks are compared after every operation; 30% of histories end with 14 u's (must equal the input); a panicking session is bisected to the command that crashed. non-trivial = at least one real edit and one undo/redo",
                    assumptions=["what a command does to the text is an input of the machine (any editor)", "cursor placement after undo is not part of C07"])
