#!/usr/bin/env python3
"""Maintenance tool (never run by a check): recompute corpus/c02_baseline.json on the current /repo tree.
Prints the ids that deviate now but were not in the previous baseline: those must be inspected by hand
(a fix in /repo may only remove deviations; a new one is a regression to repair, not to record).
Usage: tools/rebaseline_c02.py [--write]"""
import json, os, sys
sys.path.insert(0, os.path.join(os.path.dirname(__file__)))
sys.path.insert(0, os.path.join(os.path.dirname(__file__), "props"))
from vlib import *
import c02

def main():
    build_hooked()
    corpus = c02.load_corpus()
    old = json.load(open(c02.BASELINE)) if os.path.exists(c02.BASELINE) else {}
    old_ids = {i for ids in old.values() for i in ids}
    reqs = [{"op": "session", "text": c["text"], "cursor": c["cursor"], "regs": {nm: ["span", ""] for nm in [""] + list("ab")}, "steps": [["move", c["keys"]]]} for c in corpus]
    resp = batch(hook_server, reqs)
    new = {}
    fresh = []
    for c, x in zip(corpus, resp):
        if "steps" not in x:
            got = None
        else:
            s = x["steps"][-1]["post"]
            got = (s["buf"], s["cur"]["value"])
        if got == (c["vim_text"], c["vim_cursor"]):
            continue
        new.setdefault(c02.family_of(c["cls"]), []).append(c["id"])
        if c["id"] not in old_ids:
            fresh.append((c["id"], c["keys"], c["cursor"], c["text"], (c["vim_text"], c["vim_cursor"]), got))
    close_servers()
    n_new = sum(len(v) for v in new.values())
    print("deviations now: %d in %d classes (before: %d in %d); not in the previous baseline: %d" % (n_new, len(new), len(old_ids), len(old), len(fresh)))
    from collections import Counter
    hist = Counter(f[1] for f in fresh)
    for k, n in hist.most_common(40):
        ex = next(f for f in fresh if f[1] == k)
        print("  NEW %d x %r e.g. %r" % (n, k, ex))
    if "--write" in sys.argv:
        if fresh and "--force" not in sys.argv:
            print("refusing to write: new deviations present")
            sys.exit(1)
        json.dump(new, open(c02.BASELINE, "w"), separators=(",", ":"), sort_keys=True)
        print("written", c02.BASELINE)

main()
