#!/usr/bin/env python3
"""Record what real Vim does: runs /usr/bin/vim once over a JSON list of cases
{"id","text","cursor"(grapheme index),"keys"(vicut notation)} and writes for each the text and cursor
(grapheme index) afterwards. Vim is started with -u NONE -i NONE -N (nocompatible), no plugins, and the
options that matter pinned (shiftwidth=8 noexpandtab, nostartofline off etc. are Vim defaults)."""
import json, os, subprocess, sys, tempfile, re
sys.path.insert(0, os.path.dirname(__file__))

SPECIAL = {"<esc>": "\\<Esc>", "<CR>": "\\<CR>", "<BS>": "\\<BS>", "<del>": "\\<Del>", "<left>": "\\<Left>", "<right>": "\\<Right>", "<up>": "\\<Up>",
           "<down>": "\\<Down>", "<c-v>": "\\<C-v>", "<c-r>": "\\<C-r>", "<c-w>": "\\<C-w>", "<tab>": "\\<Tab>", "<space>": " "}


def vim_keys(keys):
    out, i = "", 0
    while i < len(keys):
        m = re.match(r"<[a-zA-Z-]+>", keys[i:])
        if m and m.group(0) in SPECIAL:
            out += SPECIAL[m.group(0)]
            i += len(m.group(0))
            continue
        c = keys[i]
        out += {"\\": "\\\\", '"': '\\"', "<": "\\<lt>", "|": "\\|"}.get(c, c)
        i += 1
    return out


def graphemes(s):
    # grapheme clusters, enough for the corpus: base + combining marks / ZWJ sequences / regional-indicator pairs
    import unicodedata
    out, i = [], 0
    while i < len(s):
        j = i + 1
        if 0x1F1E6 <= ord(s[i]) <= 0x1F1FF and j < len(s) and 0x1F1E6 <= ord(s[j]) <= 0x1F1FF:
            j += 1
        while j < len(s) and (unicodedata.combining(s[j]) or s[j] in "‍️" or (s[j - 1] == "‍")):
            j += 1
        out.append(s[i:j])
        i = j
    return out


def record(cases, vim="/usr/bin/vim"):
    """Cases whose keys contain `.` run in a Vim of their own: the last change is editor-global state
    and would leak from the previous case. Everything else shares one Vim per call."""
    from concurrent.futures import ThreadPoolExecutor
    leaky = lambda c: any(ch in c["keys"] for ch in ".;,")      # last change, last f/t search: editor-global
    dotted = [i for i, c in enumerate(cases) if leaky(c)]
    if dotted and len(cases) > 1:
        out = [None] * len(cases)
        rest = [i for i in range(len(cases)) if not leaky(cases[i])]
        if rest:
            for i, r in zip(rest, _record([cases[i] for i in rest], vim)):
                out[i] = r
        with ThreadPoolExecutor(16) as ex:
            for i, r in zip(dotted, ex.map(lambda i: _record([cases[i]], vim)[0], dotted)):
                out[i] = r
        return out
    return _record(cases, vim)


def _record(cases, vim="/usr/bin/vim"):
    with tempfile.TemporaryDirectory() as d:
        script = os.path.join(d, "run.vim")
        outp = os.path.join(d, "out.json")
        lines = ["set nocompatible", "set encoding=utf-8", "set noswapfile", "set nofixeol", "set shiftwidth=8 noexpandtab", "set nowrapscan", "set cpoptions-=_", "let g:res = []"]
        for c in cases:
            text = c["text"]
            body = text[:-1] if text.endswith("\n") else text
            ls = body.split("\n")
            gs = graphemes(text)
            # cursor (grapheme index) -> (line, byte col)
            before = "".join(gs[:c["cursor"]])
            ln = before.count("\n") + 1
            col = len(before.split("\n")[-1].encode("utf-8")) + 1
            lines.append("silent! %delete _")
            lines.append("call setline(1, %s)" % json.dumps(ls, ensure_ascii=False))
            lines.append("call setreg('\"', '')")
            lines.append("call cursor(%d, %d)" % (ln, col))
            lines.append('silent! execute "normal %s\\<Esc>"' % vim_keys(c["keys"]))
            # a buffer whose lines were all deleted reads as one empty line; only what gets written tells them apart
            lines.append("let g:emp = 0")
            lines.append("if line('$') == 1 && getline(1) ==# '' | silent! execute 'w! ' . fnameescape(%s) | let g:emp = (getfsize(%s) == 0) | endif" % (json.dumps(os.path.join(d, "w.txt")), json.dumps(os.path.join(d, "w.txt"))))
            lines.append("call add(g:res, [getline(1, '$'), line('.'), col('.'), getreg('\"'), g:emp])")
        lines.append("call writefile([json_encode(g:res)], %s)" % json.dumps(outp))
        lines.append("qa!")
        open(script, "w", encoding="utf-8").write("\n".join(lines) + "\n")
        subprocess.run([vim, "-u", "NONE", "-i", "NONE", "-N", "-n", "-es", "-S", script], stdin=subprocess.DEVNULL, stdout=subprocess.DEVNULL, stderr=subprocess.DEVNULL, timeout=600)
        res = json.load(open(outp, encoding="utf-8"))
    out = []
    for c, (ls, ln, col, reg, emp) in zip(cases, res):
        text = "" if emp else "\n".join(ls) + "\n"
        # (line, byte col) -> grapheme index
        pre_lines = ls[:ln - 1]
        prefix = "".join(l + "\n" for l in pre_lines) + ls[ln - 1].encode("utf-8")[:col - 1].decode("utf-8", "ignore")
        cur = len(graphemes(prefix))
        out.append(dict(c, vim_text=text, vim_cursor=cur, vim_reg=reg))
    return out


if __name__ == "__main__":
    cases = json.load(open(sys.argv[1]))
    json.dump(record(cases), open(sys.argv[2], "w"), ensure_ascii=False)
