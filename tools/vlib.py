"""Shared machinery for the vicut verification checks.

* builds: Lean project (lake), hooked vicut binary (cargo, --cfg vicut_verif)
* HookServer / ModelDriver: line-protocol clients (real code / Lean model)
* run_cli: whole-process runs of the hooked binary in scratch directories
* proof audit (#print axioms, forbidden tokens), evidence writer, known findings
"""
import json, os, re, subprocess, sys, time, hashlib, random, shutil, tempfile, threading, queue
from concurrent.futures import ThreadPoolExecutor

VERIF = os.path.dirname(os.path.dirname(os.path.abspath(__file__)))
REPO = os.environ.get("VICUT_REPO", "/repo")
LEAN = os.path.join(VERIF, "lean")
BUILD = os.path.join(VERIF, ".build")
HOOKED_DIR = os.path.join(BUILD, "hooked")
VICUT = os.path.join(HOOKED_DIR, "release", "vicut")
DRIVER = os.path.join(LEAN, ".lake", "build", "bin", "driver")
SCRATCH = os.path.join(BUILD, "scratch")
ALLOWED_AXIOMS = {"propext", "Classical.choice", "Quot.sound"}
NCPU = os.cpu_count() or 4

TRUSTED_BASE = [
    "Lean 4.33.0 kernel (axioms allowed: propext, Classical.choice, Quot.sound; no native_decide, no sorry)",
    "hand-written Lean model of the anchored functions (lean/Vicut/Model), tied to /repo by a seeded differential correspondence check through the --cfg vicut_verif hook server (src/verif.rs)",
    "translator tools/extract_tables.py for the table-shaped parts (lean/Vicut/Gen/Tables.lean)",
    "rustc/std, regex, unicode-segmentation, serde_json, pest, rayon as black boxes",
]


def log(*a):
    print(*a, file=sys.stderr, flush=True)


def sh(cmd, cwd=None, env=None, timeout=None, inp=None):
    e = dict(os.environ)
    e["CARGO_NET_OFFLINE"] = "true"
    if env:
        e.update(env)
    p = subprocess.run(cmd, cwd=cwd, env=e, capture_output=True, timeout=timeout, input=inp)
    return p.returncode, p.stdout.decode("utf-8", "replace"), p.stderr.decode("utf-8", "replace")


# ----------------------------------------------------------------------------- builds

_build_lock = None


def _flock(name):
    import fcntl
    os.makedirs(BUILD, exist_ok=True)
    f = open(os.path.join(BUILD, name + ".lock"), "w")
    fcntl.flock(f, fcntl.LOCK_EX)
    return f


def build_hooked():
    """Rebuild the hooked binary from /repo's current working tree."""
    lk = _flock("cargo")
    try:
        t = time.time()
        rc, out, err = sh(["cargo", "build", "--release", "--offline", "--target-dir", HOOKED_DIR],
                          cwd=REPO, env={"RUSTFLAGS": "--cfg vicut_verif"}, timeout=1500)
        if rc != 0:
            log(err[-3000:])
            raise SystemExit("hooked build of /repo failed (this is a build error, not a property verdict)")
        return time.time() - t
    finally:
        lk.close()


def run_translator():
    lk = _flock("lake")
    try:
        rc, out, err = sh([sys.executable, os.path.join(VERIF, "tools", "extract_tables.py")], cwd=VERIF, timeout=120)
        return rc == 0, (out + err).strip()
    finally:
        lk.close()


def lake_build(targets, timeout=1800):
    lk = _flock("lake")
    try:
        rc, out, err = sh(["lake", "build"] + targets, cwd=LEAN, timeout=timeout)
        return rc == 0, out + err
    finally:
        lk.close()


FORBIDDEN = re.compile(r"\b(sorry|admit|native_decide|bv_decide|implemented_by)\b|^\s*axiom\s|unsafe\s|maxHeartbeats\s+0")


def strip_comments(src):
    # remove /- ... -/ (nested) and -- ... comments
    out = []
    i = 0
    depth = 0
    n = len(src)
    while i < n:
        if src.startswith("/-", i):
            depth += 1
            i += 2
        elif depth and src.startswith("-/", i):
            depth -= 1
            i += 2
        elif depth:
            i += 1
        elif src.startswith("--", i):
            while i < n and src[i] != "\n":
                i += 1
        elif src.startswith("'\"'", i):       # the character literal '"' opens no string
            out.append("' '")
            i += 3
        elif src[i] == '"':
            j = i + 1
            while j < n and src[j] != '"':
                j += 2 if src[j] == "\\" else 1
            out.append('""')
            i = j + 1
        else:
            out.append(src[i])
            i += 1
    return "".join(out)


def lean_sources():
    res = []
    for root, _, files in os.walk(os.path.join(LEAN, "Vicut")):
        for f in files:
            if f.endswith(".lean"):
                res.append(os.path.join(root, f))
    res.append(os.path.join(LEAN, "Driver.lean"))
    return sorted(res)


def forbidden_scan():
    hits = []
    for p in lean_sources():
        src = strip_comments(open(p).read())
        for ln, line in enumerate(src.split("\n"), 1):
            if FORBIDDEN.search(line) and "partial def loop" not in line:
                hits.append(f"{os.path.relpath(p, LEAN)}:{ln}: {line.strip()[:100]}")
    return hits


def theorems_in(module):
    """Names (with namespace) of every theorem declared in a Props module."""
    path = os.path.join(LEAN, module.replace(".", "/") + ".lean")
    src = strip_comments(open(path).read())
    ns = []
    names = []
    for line in src.split("\n"):
        m = re.match(r"\s*namespace\s+(\S+)", line)
        if m:
            ns.append(m.group(1))
            continue
        m = re.match(r"\s*end\s+(\S+)", line)
        if m and ns and ns[-1] == m.group(1):
            ns.pop()
            continue
        m = re.match(r"\s*(?:@\[[^\]]*\]\s*)?(?:private\s+|protected\s+)?theorem\s+([^\s:({\[]+)", line)
        if m:
            names.append(".".join(ns + [m.group(1)]))
    return names


def audit_axioms(module, names):
    """#print axioms on every theorem; returns (ok_names, bad: {name: axioms})."""
    os.makedirs(BUILD, exist_ok=True)
    f = os.path.join(BUILD, "audit_" + module.replace(".", "_") + ".lean")
    with open(f, "w") as fh:
        fh.write(f"import {module}\n")
        for n in names:
            fh.write(f"#print axioms {n}\n")
    rc, out, err = sh(["lake", "env", "lean", f], cwd=LEAN, timeout=900)
    text = out + err
    res = {}
    for m in re.finditer(r"'([^']+)' (?:depends on axioms: \[([^\]]*)\]|does not depend on any axioms)", text):
        axs = set(a.strip() for a in (m.group(2) or "").replace("\n", " ").split(",") if a.strip())
        res[m.group(1)] = axs
    ok, bad = [], {}
    for n in names:
        if n not in res:
            bad[n] = {"<no #print axioms output>"}
        elif res[n] - ALLOWED_AXIOMS:
            bad[n] = res[n] - ALLOWED_AXIOMS
        else:
            ok.append(n)
    all_axioms = sorted(set().union(*res.values())) if res else []
    return ok, bad, all_axioms, text if rc != 0 else ""


def prove(prop_id, thorough=False):
    """Translator + lake build of the property's theorems + audit.
    Returns dict(obligations, discharged, failures:[...], axioms:[...], checker_cmd)."""
    module = f"Vicut.Props.{prop_id}"
    failures = []
    ok_t, msg = run_translator()
    if not ok_t:
        failures.append({"kind": "translator", "detail": msg[-1500:]})
    ok_b, out = lake_build([module, "driver"])
    names = theorems_in(module)
    res = {"obligations": len(names), "discharged": 0, "failures": failures, "axioms": [],
           "theorems": names,
           "checker_cmd": f"cd lean && lake build {module} driver && lake env lean <(#print axioms of every theorem in {module})"}
    if not ok_b:
        errs = [l for l in out.split("\n") if "error" in l][:20]
        failures.append({"kind": "lake_build", "detail": "\n".join(errs) or out[-1500:]})
        # find which theorems still check is not possible without a build; count none discharged
        return res
    hits = forbidden_scan()
    if hits:
        failures.append({"kind": "forbidden_token", "detail": hits})
    ok, bad, axioms, errtext = audit_axioms(module, names)
    res["axioms"] = axioms
    if bad:
        failures.append({"kind": "axioms", "detail": {k: sorted(v) for k, v in bad.items()}})
    res["discharged"] = len(ok) if not hits else 0
    if thorough:
        t = time.time()
        rc, o, e = sh(["lake", "env", "leanchecker", module], cwd=LEAN, timeout=1800)
        res["leanchecker"] = {"rc": rc, "wall_s": round(time.time() - t, 1), "out": (o + e)[-500:]}
        if rc != 0:
            failures.append({"kind": "leanchecker", "detail": (o + e)[-1500:]})
    return res


# ----------------------------------------------------------------------------- line-protocol clients

class LineProc:
    """A child speaking one-JSON-per-line; restarted when it dies (process::exit in the real code)."""

    def __init__(self, argv, env=None, name="proc"):
        self.argv, self.env, self.name = argv, env, name
        self.p = None
        self.restarts = 0

    def start(self):
        e = dict(os.environ)
        if self.env:
            e.update(self.env)
        self.p = subprocess.Popen(self.argv, stdin=subprocess.PIPE, stdout=subprocess.PIPE,
                                  stderr=subprocess.DEVNULL, env=e, cwd=SCRATCH if os.path.isdir(SCRATCH) else None)

    def close(self):
        if self.p:
            try:
                self.p.stdin.close()
            except Exception:
                pass
            try:
                self.p.wait(timeout=2)
            except Exception:
                self.p.kill()
            self.p = None

    def call(self, req, timeout=10.0):
        """One request, one response. A dead/hung child yields {'exit': code} / {'timeout': True}."""
        if self.p is None or self.p.poll() is not None:
            self.start()
        line = (json.dumps(req, ensure_ascii=False) + "\n").encode("utf-8")
        try:
            self.p.stdin.write(line)
            self.p.stdin.flush()
        except BrokenPipeError:
            rc = self.p.wait()
            self.p = None
            return {"exit": rc}
        res = {}

        def rd():
            try:
                res["line"] = self.p.stdout.readline()
            except Exception as ex:
                res["line"] = b""
        t = threading.Thread(target=rd, daemon=True)
        t.start()
        t.join(timeout)
        if t.is_alive():
            self.p.kill()
            self.p.wait()
            self.p = None
            self.restarts += 1
            return {"timeout": True}
        out = res.get("line", b"")
        if not out:
            rc = self.p.wait()
            self.p = None
            self.restarts += 1
            return {"exit": rc}
        try:
            return json.loads(out.decode("utf-8"))
        except Exception as ex:
            return {"garbled": out[:200].decode("utf-8", "replace")}


def hook_server():
    os.makedirs(SCRATCH, exist_ok=True)
    return LineProc([VICUT], env={"VICUT_VERIF_SERVER": "1"}, name="hook")


def model_driver():
    return LineProc([DRIVER], name="model")


def batch(make_proc, reqs, workers=None, timeout=10.0):
    """Run many requests over a pool of children, preserving order."""
    workers = workers or min(NCPU, max(1, len(reqs) // 50 + 1))
    out = [None] * len(reqs)
    chunks = [list(range(i, len(reqs), workers)) for i in range(workers)]

    def work(idxs):
        p = make_proc()
        try:
            for i in idxs:
                out[i] = p.call(reqs[i], timeout=timeout)
        finally:
            p.close()
    with ThreadPoolExecutor(workers) as ex:
        list(ex.map(work, chunks))
    # a timeout, a garbled line or a child killed by a signal may be collateral of machine load or of the previous
    # request on that child: such requests are repeated once, alone, on a fresh child with a longer limit
    redo = [i for i, o in enumerate(out) if o is None or "timeout" in o or "garbled" in o or ("exit" in o and o["exit"] not in (0, 1))]
    if redo:
        p = make_proc()
        try:
            for i in redo:
                out[i] = p.call(reqs[i], timeout=timeout * 4)
        finally:
            p.close()
    return out


# ----------------------------------------------------------------------------- CLI runs

class Scratch:
    """A private scratch directory under .build/scratch, removed on exit."""

    def __enter__(self):
        os.makedirs(SCRATCH, exist_ok=True)
        self.d = tempfile.mkdtemp(prefix="c", dir=SCRATCH)
        return self

    def __exit__(self, *a):
        shutil.rmtree(self.d, ignore_errors=True)

    def write(self, name, data):
        p = os.path.join(self.d, name)
        os.makedirs(os.path.dirname(p), exist_ok=True)
        with open(p, "wb") as f:
            f.write(data if isinstance(data, bytes) else data.encode("utf-8"))
        return p

    def read(self, name):
        with open(os.path.join(self.d, name), "rb") as f:
            return f.read()

    def listing(self):
        res = {}
        for root, dirs, files in os.walk(self.d):
            for f in files:
                p = os.path.join(root, f)
                with open(p, "rb") as fh:
                    res[os.path.relpath(p, self.d)] = fh.read()
        return res


def run_cli(argv, stdin=b"", cwd=None, env=None, timeout=10.0):
    """Run the hooked binary as a normal CLI. Returns dict(rc, out, err, timeout)."""
    e = dict(os.environ)
    e.pop("VICUT_VERIF_SERVER", None)
    e["RUST_BACKTRACE"] = "0"
    if env:
        e.update(env)
    if isinstance(stdin, str):
        stdin = stdin.encode("utf-8")
    try:
        p = subprocess.run([VICUT] + list(argv), input=stdin, capture_output=True, cwd=cwd or SCRATCH, env=e, timeout=timeout)
        return {"rc": p.returncode, "out": p.stdout, "err": p.stderr, "timeout": False}
    except subprocess.TimeoutExpired as ex:
        return {"rc": None, "out": ex.stdout or b"", "err": ex.stderr or b"", "timeout": True}


def pmap(fn, items, workers=None):
    with ThreadPoolExecutor(workers or NCPU) as ex:
        return list(ex.map(fn, items))


def dump_opts(argv, cwd=None):
    """Process-level: what the real main() parses this argv into."""
    r = run_cli(argv, cwd=cwd, env={"VICUT_VERIF_DUMP_OPTS": "1"}, timeout=10)
    if r["rc"] == 0 and r["out"].strip().startswith(b"{"):
        try:
            return {"opts": json.loads(r["out"].decode("utf-8").split("\n")[0])}
        except Exception:
            pass
    return {"rc": r["rc"], "err": r["err"].decode("utf-8", "replace"), "out": r["out"].decode("utf-8", "replace"), "timeout": r["timeout"]}


# ----------------------------------------------------------------------------- findings, evidence, verdicts

def load_findings(prop_id):
    p = os.path.join(VERIF, "known_findings.json")
    if not os.path.exists(p):
        return []
    return [f for f in json.load(open(p)) if f.get("property") == prop_id]


def canon(x):
    return json.dumps(x, sort_keys=True, ensure_ascii=False, default=lambda b: b.decode("utf-8", "replace") if isinstance(b, bytes) else str(b))


def case_hash(x):
    return hashlib.sha1(canon(x).encode("utf-8")).hexdigest()[:12]


class Run:
    """Book-keeping of one check run: counters, distribution, violations, evidence."""

    def __init__(self, prop_id, tier, seed):
        self.prop, self.tier, self.seed = prop_id, tier, seed
        self.t0 = time.time()
        self.evaluations = 0
        self.nontrivial = set()
        self.samples = []
        self.dist = {}
        self.violations = []          # property failures on the implementation (replay dicts)
        self.disagreements = []       # model vs implementation (replay dicts)
        self.known_hits = {}          # finding id -> count
        self.findings = [f for f in load_findings(prop_id)]
        self.notes = []
        self.extra = {}
        self.rng = random.Random(seed)

    def count(self, key, n=1):
        self.dist[key] = self.dist.get(key, 0) + n

    def case(self, case, nontrivial=True, sample=True):
        self.evaluations += 1
        if nontrivial:
            self.nontrivial.add(case_hash(case))
        if sample and len(self.samples) < 6:
            self.samples.append(case)

    def classify(self, case, classes):
        """Return the id of an *open* known finding whose class is in `classes`, else None."""
        for f in self.findings:
            if f.get("status") == "open" and f.get("class") in classes:
                return f["id"]
        return None

    def violation(self, what, case, classes=()):
        """Record a property failure on the implementation unless an open known finding covers its class."""
        fid = self.classify(case, set(classes))
        if fid:
            self.known_hits[fid] = self.known_hits.get(fid, 0) + 1
            return False
        if len(self.violations) < 50:
            self.violations.append({"what": what, "case": case})
        return True

    def check_witnesses(self):
        """Replay the witness of every known finding of this property on the real binary.
        fixed entry: the witness must pass (else the defect is back -> violation).
        open entry: reported on the KNOWN-FINDING line; if it stopped failing that is said."""
        for f in self.findings:
            w = f.get("witness")
            if not w:
                continue
            ok, detail = run_witness(w)
            self.count("witness." + f["id"] + (".pass" if ok else ".fail"))
            if f.get("status") == "fixed" and not ok:
                self.violations.append({"what": "fixed finding %s is back: %s (%s)" % (f["id"], f["what"], detail), "case": w})
            if f.get("status") == "open":
                f["_witness_fails"] = not ok

    def disagreement(self, what, case):
        if len(self.disagreements) < 50:
            self.disagreements.append({"what": what, "case": case})

    def finish(self, proof, rule, level="proof", assumptions=None, technique_note=""):
        os.makedirs(os.path.join(VERIF, "evidence"), exist_ok=True)
        os.makedirs(os.path.join(VERIF, "replays"), exist_ok=True)
        rc = 0
        lines = []
        for f in self.findings:
            if f.get("status") == "open":
                n = self.known_hits.get(f["id"], 0)
                still = "" if f.get("_witness_fails", True) else " [witness no longer fails]"
                lines.append(f"KNOWN-FINDING: property={self.prop} {f['id']}: {f['what']} (seen {n}x this run){still}")
        proof_fail = proof.get("failures", []) if proof else []
        replay = None
        if self.violations:
            v = self.violations[0]
            replay = self._write_replay({"property": self.prop, "kind": "property_violation_on_implementation",
                                         "what": v["what"], "case": v["case"], "seed": self.seed,
                                         "more": self.violations[1:10]})
            lines.append(f"VIOLATION property={self.prop} replay={replay}")
            rc = 1
        elif self.disagreements or proof_fail:
            d = self.disagreements[0] if self.disagreements else None
            replay = self._write_replay({"property": self.prop, "kind": "tie_broken",
                                         "no_longer_checks": ([f"correspondence: {d['what']}"] if d else []) +
                                         [f"{pf['kind']}: {json.dumps(pf['detail'])[:600]}" for pf in proof_fail],
                                         "case": d["case"] if d else None, "seed": self.seed,
                                         "more": self.disagreements[1:10]})
            lines.append(f"VIOLATION property={self.prop} replay={replay} no-failing-input-found")
            rc = 1
        cov = {
            "obligations": proof.get("obligations", 0) if proof else 0,
            "discharged": proof.get("discharged", 0) if proof else 0,
            "checker_cmd": proof.get("checker_cmd", "") if proof else "",
            "trusted_base": TRUSTED_BASE,
            "axioms_seen": proof.get("axioms", []) if proof else [],
            "theorems": proof.get("theorems", []) if proof else [],
            "proof_failures": proof_fail,
            "evaluations": self.evaluations,
            "distinct_nontrivial": len(self.nontrivial),
            "rule": rule,
            "samples": self.samples[:6],
            "distribution": dict(sorted(self.dist.items())),
            "model_vs_impl_disagreements": len(self.disagreements),
            "impl_property_failures": len(self.violations),
            "known_findings_seen": self.known_hits,
            "notes": self.notes,
        }
        if level == "partial":
            # the evidence schema has no "partial" level: the claim is a proof-level one whose PARTIAL scope is
            # stated in MANIFEST.json and DESIGN.md; the flag records it here too
            level = "proof"
            cov["partial"] = True
        cov.update(self.extra)
        if proof and "leanchecker" in proof:
            cov["leanchecker"] = proof["leanchecker"]
        ev = {
            "property_id": self.prop, "tier": self.tier, "seed": self.seed, "level": level,
            "coverage": cov,
            "assumptions": assumptions or [],
            "wall_s": round(time.time() - self.t0, 2),
            "violations": len(self.violations) + (1 if (not self.violations and rc) else 0),
        }
        with open(os.path.join(VERIF, "evidence", f"{self.prop}.json"), "w") as f:
            json.dump(ev, f, indent=1, ensure_ascii=False, default=lambda b: b.decode("utf-8", "replace") if isinstance(b, bytes) else str(b))
        for l in lines:
            print(l, flush=True)
        log(f"[{self.prop}] tier={self.tier} evals={self.evaluations} nontrivial={len(self.nontrivial)} "
            f"proved={cov['discharged']}/{cov['obligations']} disagreements={len(self.disagreements)} "
            f"violations={len(self.violations)} known={self.known_hits} wall={ev['wall_s']}s rc={rc}")
        return rc

    def _write_replay(self, obj):
        h = case_hash(obj)
        p = os.path.join(VERIF, "replays", f"{self.prop}-{h}.json")
        with open(p, "w") as f:
            json.dump(obj, f, indent=1, ensure_ascii=False, default=lambda b: b.decode("utf-8", "replace") if isinstance(b, bytes) else str(b))
        return p


def run_witness(w):
    """A committed replay: returns (passes, detail)."""
    op = w.get("op")
    with Scratch() as sc:
        if op == "cli":
            o = run_cli(w["argv"], stdin=w.get("stdin", ""), cwd=sc.d)
            if o["timeout"]:
                return False, "timeout"
            if "expect_rc" in w and o["rc"] != w["expect_rc"]:
                return False, "rc %s" % o["rc"]
            if "expect_stdout" in w and o["out"] != w["expect_stdout"].encode("utf-8"):
                return False, "stdout %r" % o["out"][:200]
            if "expect_same_as" in w:
                o2 = run_cli(w["expect_same_as"], stdin=w.get("stdin", ""), cwd=sc.d)
                if (o["rc"], o["out"]) != (o2["rc"], o2["out"]):
                    return False, "%r vs %r" % (o["out"][:200], o2["out"][:200])
            if "expect_differs_from" in w:
                o2 = run_cli(w["expect_differs_from"], stdin=w.get("stdin", ""), cwd=sc.d)
                if (o["rc"], o["out"]) == (o2["rc"], o2["out"]):
                    return False, "outputs equal"
            if o["rc"] not in (0, 1) and "expect_rc" not in w:
                return False, "rc %s" % o["rc"]
            return True, ""
        if op == "cli_files":
            for name, content in w["files"].items():
                sc.write(name, content)
            o = run_cli(w["argv"] + sorted(w["files"].keys()), stdin=w.get("stdin", ""), cwd=sc.d)
            if o["timeout"] or o["rc"] != w.get("expect_rc", 0):
                return False, "rc %s" % o["rc"]
            for name, content in w.get("expect_files", {}).items():
                got = sc.read(name)
                if got != content.encode("utf-8"):
                    return False, "%s = %r" % (name, got[:200])
            return True, ""
    if op == "session_pair":
        # two key strings that the property says are interchangeable; the witness "passes" when they behave alike
        def fin(keys):
            x = hook_server_call({"op": "session", "text": w["text"], "cursor": 0, "steps": [["move", keys]]})
            if "steps" not in x:
                return {"crash": True}
            st = x["steps"][-1]["post"]
            return {"buf": st["buf"], "cur": st["cur"]["value"], "mode": st["mode"]}
        a, b = fin(w["keys_a"]), fin(w["keys_b"])
        return (a == b), "%s vs %s" % (canon(a)[:120], canon(b)[:120])
    if op == "session_wf":
        # a key history after which the between-commands invariants of C09 must hold; passes when they do
        x = hook_server_call({"op": "session", "text": w["text"], "cursor": 0, "keep_mode": True, "steps": [["move", k] for k in w["steps"]]})
        if "steps" not in x:
            return False, "crash"
        st = x["steps"][-1]["after"]
        bad = wf_failures(st)
        if w.get("classes"):
            bad = [b for b in bad if b[0] in w["classes"]]
        return (not bad), ",".join(b[0] for b in bad)
    return True, "unknown witness op (not run)"


def wf_failures(st):
    """C09's between-commands invariants read directly off a state dump: [(class, description)]."""
    out = []
    buf, fresh = st["buf"], st["fresh"]
    gs = graphemes_of(buf, fresh)
    n = len(gs)
    cur = st["cur"]
    v, excl = cur["value"], cur["exclusive"]
    mode = st["mode"]
    if cur["max"] != n:
        out.append(("clamp.max_not_len", "cursor bound %d but the text has %d graphemes" % (cur["max"], n)))
    if v > (max(n - 1, 0) if excl else n):
        out.append(("clamp.cursor_over_bound", "cursor %d over its bound (max %d, exclusive %s)" % (v, cur["max"], excl)))
    if st["cache"] is not None and st["cache"] != fresh:
        out.append(("cache.stale", "cached grapheme offsets differ from the text's"))
    if mode in ("Normal", "Visual", "Replace") and n > 0 and v >= n:
        out.append(("%s.cursor_at_end" % mode.lower(), "%s mode with the cursor at the end of a non-empty text (%d of %d)" % (mode, v, n)))
    if mode in ("Normal",) and v < n and gs[v] == "\n" and v > 0 and gs[v - 1] != "\n":
        out.append(("normal.on_terminator", "normal mode with the cursor on the terminator of a non-empty line"))
    sr, sm = st.get("sel_range"), st.get("sel_mode")
    if sr and sm:
        m = re.match(r"OneDim\(\((\d+), (\d+)\)\)", sr)
        if m:
            s, e = int(m.group(1)), int(m.group(2))
            if s > e:
                out.append(("selection.reversed", "selection %s reversed" % sr))
            if e > n:
                out.append(("selection.outside", "selection %s outside the text (%d graphemes)" % (sr, n)))
            if not (s <= v <= e):
                kind = "visual_line" if sm.startswith("Line") else "visual_char"
                out.append(("%s.selection_excludes_cursor" % kind, "selection %s does not contain the cursor %d" % (sr, v)))
        else:
            for a, b in re.findall(r"\((\d+), (\d+)\)", sr):
                if int(a) > int(b) or int(b) > n:
                    out.append(("selection.block_outside", "block window (%s, %s) outside the text (%d graphemes)" % (a, b, n)))
                    break
    return out


def shrink_list(items, fails, max_steps=200):
    """Delta-debug a list: smallest sublist (by removal) for which fails(sublist) is still true."""
    cur = list(items)
    steps = 0
    n = 2
    while len(cur) >= 2 and steps < max_steps:
        chunk = max(1, len(cur) // n)
        reduced = False
        for i in range(0, len(cur), chunk):
            cand = cur[:i] + cur[i + chunk:]
            steps += 1
            if cand and fails(cand):
                cur = cand
                n = max(2, n - 1)
                reduced = True
                break
        if not reduced:
            if chunk == 1:
                break
            n = min(len(cur), n * 2)
    return cur


_shared = {}


def hook_server_call(req, timeout=10.0):
    p = _shared.get("hook")
    if p is None:
        p = _shared["hook"] = hook_server()
    return p.call(req, timeout=timeout)


def model_call(req, timeout=10.0):
    p = _shared.get("model")
    if p is None:
        p = _shared["model"] = model_driver()
    return p.call(req, timeout=timeout)


def close_servers():
    for p in _shared.values():
        p.close()
    _shared.clear()


# ----------------------------------------------------------------------------- session-state helpers

def graphemes_of(buf, fresh):
    """Split `buf` at the byte offsets the real segmenter reported (state['fresh'])."""
    b = buf.encode("utf-8")
    offs = list(fresh) + [len(b)]
    return [b[offs[i]:offs[i + 1]].decode("utf-8") for i in range(len(offs) - 1)]


def parse_sel_mode(s):
    """Debug string of SelectMode -> driver encoding"""
    if s is None:
        return None
    m = re.match(r"Char\((\w+)\)", s)
    if m:
        return ["char", m.group(1)]
    m = re.match(r"Line\((\w+)\)", s)
    if m:
        return ["line", m.group(1)]
    m = re.match(r"Block \{ anchor: (\w+), anchor_pos: (\d+) \}", s)
    if m:
        return ["block", m.group(1), int(m.group(2))]
    return ["?", s]


def parse_sel_range(s):
    if s is None:
        return None
    m = re.match(r"OneDim\(\((\d+), (\d+)\)\)", s)
    if m:
        return ["one", int(m.group(1)), int(m.group(2))]
    if s.startswith("TwoDim("):
        return ["two", [[int(a), int(b)] for a, b in re.findall(r"\((\d+), (\d+)\)", s)]]
    return ["?", s]
